CONSTANTS
  MaxUnits = 6
  GrowDiv = 10
  MinGrow = 0
  MinCap = 8
  MinSpace = 4
SPECIFICATION Spec
INVARIANTS TypeOK OutFits DoneIff NoBlock StrictMeansError
PROPERTIES Termination
CHECK_DEADLOCK FALSE
