CONSTANTS
  N = 3
  Latch = FALSE
INIT Init
NEXT Next
INVARIANTS Agree
CHECK_DEADLOCK FALSE
