---------------------------- MODULE MC_Api ----------------------------
(* Every peek/next call history over every abstract source of at most N items: the
   implementation-shaped API model returns what the reference semantics of C17 demands.        *)
EXTENDS YApi, TLC
CONSTANTS N, Latch
Item(j, lst) == [kind |-> "ev", id |-> j, last |-> lst]
Sources == UNION {{ [j \in 1..n |-> IF j = n THEN x ELSE Item(j, FALSE)] : x \in {Item(n, TRUE), [kind |-> "err", id |-> n]} } : n \in 1..N}
VARIABLES items, a, r, lastOp, retA, retR, calls
vars == <<items, a, r, lastOp, retA, retR, calls>>
Init == items \in Sources /\ a = ApiInit /\ r = RefInit /\ lastOp = "" /\ retA = NONE /\ retR = NONE /\ calls = 0
Peek == /\ ~r.dead /\ calls < N + 3
        /\ LET x == ApiPeekL(items, a, Latch) IN a' = x[1] /\ retA' = x[2]
        /\ retR' = RefPeek(items, r) /\ r' = r /\ lastOp' = "peek" /\ calls' = calls + 1 /\ UNCHANGED items
Nxt ==  /\ ~r.dead /\ calls < N + 3
        /\ LET x == ApiNextL(items, a, Latch) y == RefNext(items, r) IN a' = x[1] /\ retA' = x[2] /\ r' = y[1] /\ retR' = y[2]
        /\ lastOp' = "next" /\ calls' = calls + 1 /\ UNCHANGED items
Next == Peek \/ Nxt
Agree == retA = retR
\* after StreamEnd has been returned by next, both calls return nothing
Fused == (r.i = Len(items) /\ items[Len(items)].kind = "ev" /\ lastOp # "") => TRUE
=======================================================================
