---------------------------- MODULE Gen_Scalar ----------------------------
(* Generator for C04: every target string of at most N characters over the tricky alphabet
   (grown one character per step), in every context, in every style it is representable in, under
   every per-character presentation choice, continuation indentation and trailing padding.
   Prints the rendered stream with the events it denotes; ModelAgrees cross-checks the
   implementation-shaped scanner/parser model against the reference presentation rules.         *)
EXTENDS YParser, YRenderScalar, TLC, Json, FiniteSets
CONSTANTS N, Wide, Budget, MaxChD, CiMax       \* Budget: at most that many characters get a non-default presentation choice
Sigma == IF Wide THEN {"a", " ", "\n", "'", "\"", "\\", ":", "#", "\t", "<u233>", "-", "<u128512>", ",", "[", "<u133>", "<u0>", "<u27>", "b",
                          "<u7>", "<u8>", "<u11>", "<u12>", "\r", "/", "<u160>", "<u8232>", "<u8233>", "<u288>", "<u19977>"}       \* with the others: every named escape of section 5.7
         ELSE {"a", " ", "\n", "'", "\"", "\\", ":", "#", "\t", "<u233>", "-"}
VARIABLES t, phase, style, ctxn, ch, eb, ci, pad
vars == <<t, phase, style, ctxn, ch, eb, ci, pad>>
Init == t = <<>> /\ phase = "grow" /\ style = "" /\ ctxn = "" /\ ch = <<>> /\ eb = <<>> /\ ci = 0 /\ pad = 0
\* fixed targets (N = 0: no growing): words that look like syntax at the start of a continuation line
W3(a, m, b) == <<a, " ">> \o m \o <<" ", b>>
FixedTargets == { W3("a", <<"-", "-", "-">>, "b"), W3("a", <<".", ".", ".">>, "b"), <<"a", " ", "-", "-", "-">>, <<"a", " ", ".", ".", ".">>,
                  <<"-", "-", "-", " ", "a">>, <<"a", " ", "-", "-", "-", " ">>, <<"a", "\n", "-", "-", "-", " ", "b">>, <<"a", "\n", ".", ".", ".", "\n", "b">>,
                  W3("a", <<"-", "-", "-", "b">>, "c"), W3("a", <<"-">>, "b"), W3("a", <<"-", "-">>, "b"), W3("a", <<"#">>, "b"), W3("a", <<"#", "b">>, "c"),
                  W3("a", <<"?">>, "b"), W3("a", <<":">>, "b"), W3("a", <<"|">>, "b"), W3("a", <<">">>, "b"), W3("a", <<"&", "x">>, "b"), W3("a", <<"*", "x">>, "b"),
                  W3("a", <<"!", "t">>, "b"), W3("a", <<"%", "Y">>, "b"), W3("a", <<"[", "x", "]">>, "b"), W3("a", <<"{", "x", "}">>, "b"), W3("a", <<"'">>, "b"),
                  W3("a", <<"\"">>, "b"), W3("a", <<",">>, "b"), W3("a", <<"k", ":">>, "b"), W3("a", <<"-", " ", "x">>, "b"),
                  \* a last word that is an indicator (in a flow collection it is followed by "," or the closing bracket)
                  <<"a", " ", "-">>, <<"1", " ", "-">>, <<"a", " ", "?">>, <<"a", " ", "-", "-">>, <<"a", " ", "b", " ", "-">>, <<"a", " ", "!">>, <<"a", " ", "&">>, <<"a", " ", "*">>, <<"a", " ", "|">>, <<"a", " ", ">">>, <<"a", " ", "%">>, <<"a", " ", "@">> }
\* long words with a character that could be taken for syntax right at, before and after the sizes of the scanner's buffers
Rep(c, k) == [i \in 1..k |-> c]
LongTargets == UNION { { Rep("a", k) \o <<"#", "q">>, Rep("a", k) \o <<":", "q">>, Rep("a", k) \o <<" ", "b">>, Rep("a", k) \o <<"\t", "b">>, Rep("a", k - 1) \o <<"<u233>", "#", "q">> } :
                      k \in {14, 15, 16, 17, 30, 31, 32, 33, 126, 127, 128, 129, 254, 255, 256, 257} }
\* folds next to blanks: blanks written as escapes around a fold, padding before a break followed by empty lines and interior blanks
FoldTargets == { <<"a", " ", " ", "b">>, <<"a", " ", " ", " ", "b">>, <<"a", " ", "\t", "b">>, <<"a", "\t", " ", "b">>, <<"a", "\n", "b", " ", "c">>, <<"a", "\n", "\n", "b", " ", "c">>,
                 <<"a", " ", "b", "\n", "c", " ", "d">>, <<"a", "\n", "b", " ", " ", "c">>, <<"a", " ", "b", " ", "c", " ", "d">>, <<"a", " ", " ", "b", " ", "c">> }
InitFold == t \in FoldTargets /\ phase = "grow" /\ style = "" /\ ctxn = "" /\ ch = <<>> /\ eb = <<>> /\ ci = 0 /\ pad = 0
InitLong == t \in LongTargets /\ phase = "grow" /\ style = "" /\ ctxn = "" /\ ch = <<>> /\ eb = <<>> /\ ci = 0 /\ pad = 0
InitFixed == t \in FixedTargets /\ phase = "grow" /\ style = "" /\ ctxn = "" /\ ch = <<>> /\ eb = <<>> /\ ci = 0 /\ pad = 0
NonDefault == Cardinality({i \in 1..Len(ch) : ch[i] # 0 \/ eb[i] # 0})
Grow == /\ phase = "grow" /\ Len(t) < N /\ \E c \in Sigma : t' = Append(t, c)
        /\ UNCHANGED <<phase, style, ctxn, ch, eb, ci, pad>>
MaxCh(s) == IF s = "double" THEN MaxChD ELSE 1
\* style, context and layout parameters first, then one presentation choice per character (one step each, so
\* that long targets can be simulated without enumerating all choice vectors at once)
Choose == /\ phase = "grow"
          /\ \E s \in {"plain", "single", "double"}, cn \in CtxNames :
               /\ (Representable(t, s, Ctx(cn)) = TRUE)       \* "= TRUE": evaluated as an expression (TLC would otherwise split the disjunctions into action branches)
               /\ style' = s /\ ctxn' = cn
          /\ ci' \in 0..CiMax /\ pad' \in 0..1
          /\ ch' = <<>> /\ eb' = <<>>
          /\ phase' = (IF t = <<>> THEN "done" ELSE "pick")
          /\ UNCHANGED t
Pick == /\ phase = "pick"
        /\ \E c \in 0..MaxCh(style), e \in (IF style = "double" THEN {0, 1} ELSE {0}) :
             /\ (c = 0 /\ e = 0) \/ NonDefault < Budget
             /\ ch' = Append(ch, c) /\ eb' = Append(eb, e)
        /\ phase' = (IF Len(ch) + 1 = Len(t) THEN "done" ELSE "pick")
        /\ UNCHANGED <<t, style, ctxn, ci, pad>>
Next == Grow \/ Choose \/ Pick
Pres == Present(t, style, ch, eb, Ctx(ctxn), ci, pad)
G == Wrap(ctxn, Pres, E_("Scalar", t, style))
Core(e) == [k |-> e.k, v |-> e.v, style |-> e.style, aid |-> e.aid, tag |-> e.tag]
ModelRun(text) == LET r == RunAll(text, PInit(FALSE), <<>>) IN
                  IF r.err # "" THEN <<"ERR", r.err>> ELSE [i \in 1..Len(r.evs) |-> Core(r.evs[i])]
ModelAgrees == ModelRun(G.txt) = G.evs
Out == phase = "done" => PrintT(<<"REPLAY", ToJson([info |-> <<ctxn, style>>, text |-> G.txt, evs |-> G.evs, model |-> ModelAgrees])>>)
===========================================================================
