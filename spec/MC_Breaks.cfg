CONSTANTS
  N = 5
INIT Init
NEXT Next
INVARIANT BreakInsensitive
CHECK_DEADLOCK FALSE
