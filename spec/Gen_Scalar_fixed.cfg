CONSTANTS
  N = 0
  Budget = 2
  MaxChD = 1
  CiMax = 0
  Wide = FALSE
INIT InitFixed
NEXT Next
INVARIANT Out
CHECK_DEADLOCK FALSE
