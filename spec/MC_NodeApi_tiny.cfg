CONSTANTS
  N = 6
  PoolName = "tiny"
  D = 1
  Variant = "repaired"
INIT Init
NEXT Next
INVARIANTS RefTheorems CodedIsRef Out
CHECK_DEADLOCK FALSE
