CONSTANTS
  L = 8
  Sentinel = TRUE
INIT Init
NEXT Next
INVARIANTS NoPanicSite Mirror Out
CHECK_DEADLOCK FALSE
