CONSTANTS
  L = 3
  D = 2
  C = 8
INIT Init
NEXT Next
INVARIANT Out
CHECK_DEADLOCK FALSE
