---------------------------- MODULE YRel ----------------------------
(* Reference relations between runs of the parser (C10, C14, C15). A run is
   [evs |-> <<events>>, err |-> <<>> | <<[msg, at]>>]; an event carries k, v, style, aid, tag, a, b
   (marks are <<index, line, col>>).                                                           *)
EXTENDS Naturals, Sequences

\* ---- C10: identical observable behaviour ----
SameRun(x, y) == x.evs = y.evs /\ x.err = y.err
SameRunWhy(x, y) ==
  IF Len(x.evs) # Len(y.evs) THEN "different number of events"
  ELSE IF \E i \in 1..Len(x.evs) : [x.evs[i] EXCEPT !.a = <<>>, !.b = <<>>] # [y.evs[i] EXCEPT !.a = <<>>, !.b = <<>>] THEN "different events"
  ELSE IF x.evs # y.evs THEN "different spans"
  ELSE IF x.err # y.err THEN "different error or error position"
  ELSE "ok"

\* ---- C14: the same modulo character indices ----
NoIdx(m) == <<m[2], m[3]>>
EvNoIdx(e) == [e EXCEPT !.a = NoIdx(e.a), !.b = NoIdx(e.b)]
ErrNoIdx(err) == IF err = <<>> THEN <<>> ELSE <<[msg |-> err[1].msg, at |-> NoIdx(err[1].at)]>>
SameModuloIndexWhy(x, y) ==
  IF Len(x.evs) # Len(y.evs) THEN "different number of events"
  ELSE IF \E i \in 1..Len(x.evs) : x.evs[i].k # y.evs[i].k THEN "different event kinds"
  ELSE IF \E i \in 1..Len(x.evs) : x.evs[i].v # y.evs[i].v THEN "different scalar text"
  ELSE IF \E i \in 1..Len(x.evs) : EvNoIdx(x.evs[i]) # EvNoIdx(y.evs[i]) THEN "different line/column, style, anchor or tag"
  ELSE IF (x.err = <<>>) # (y.err = <<>>) THEN "one succeeds, the other fails"
  ELSE IF ErrNoIdx(x.err) # ErrNoIdx(y.err) THEN "different error message or error line/column"
  ELSE "ok"
SameModuloIndex(x, y) == SameModuloIndexWhy(x, y) = "ok"

\* ---- C15: concatenation with anchor renumbering ----
\* an event without positions; anchor / alias ids shifted by off
Core(e, off) == [k |-> e.k, v |-> e.v, style |-> e.style, tag |-> e.tag, aid |-> IF e.aid > 0 THEN e.aid + off ELSE 0]
RECURSIVE MaxAid(_, _, _)
MaxAid(evs, i, m) == IF i > Len(evs) THEN m ELSE MaxAid(evs, i + 1, IF evs[i].k # "Alias" /\ evs[i].aid > m THEN evs[i].aid ELSE m)
Inner(evs) == SubSeq(evs, 2, Len(evs) - 1)        \* without StreamStart / StreamEnd
Cores(evs, off) == [i \in 1..Len(evs) |-> Core(evs[i], off)]
\* A and B parse successfully; AB = A followed by a document-end marker line and B
ConcatWhy(ra, rb, rab) ==
  IF ra.err # <<>> \/ rb.err # <<>> THEN "precondition: A and B must parse successfully"
  ELSE IF rab.err # <<>> THEN "the concatenation fails although both parts parse"
  ELSE IF Cores(Inner(rab.evs), 0) # Cores(Inner(ra.evs), 0) \o Cores(Inner(rb.evs), MaxAid(ra.evs, 1, 0))
  THEN "the concatenation does not parse to the documents of A followed by the documents of B"
  ELSE "ok"
=====================================================================
