------------------------------ MODULE YDecode ------------------------------
(* C18 -- byte input decodes to the same documents, and decoding always ends.

   Implementation-shaped model of saphyr/src/encoding.rs (YamlDecoder::decode, decode_loop,
   detect_utf16_endianness) plus the reference facts the property needs at byte level.

   Part 1 (pure operators over byte sequences, bytes are 0..255):
     * BomEnc / Detect16 / EncodingOf : Encoding::for_bom (EF BB BF -> UTF-8, FF FE -> UTF-16LE,
       FE FF -> UTF-16BE; the decoder removes the BOM) and the detect_utf16_endianness fallback.
       For inputs whose first character is ASCII this is the table of YAML 1.2 section 5.2
       restricted to UTF-8/UTF-16 (UTF-32 is not supported by the code and not named by C18).
     * Utf8Bad / Utf16Bad / MalformedFor : well-formedness of a byte string in an encoding
       (Unicode table 3-7; surrogate pairing; odd length) -- the reference side of
       "malformed input".
     * Utf8Of / Utf16Of / Encode : the encoders, used by MC_Decode to check that detection
       recognises every in-scope text in all six encodings (DetectsAll).

   Part 2 (state machine): decode_loop over an ABSTRACT decoder.  encoding_rs is not modelled;
   only its documented contract is (struct Decoder, "decode_* methods collectively"):
     - a call gets `free = cap - outLen` spare output bytes and decodes code units in order,
       each good unit u writing need(u) \in 0..4 bytes (0 only for a byte-order mark), never more
       than `free` in total;
     - it answers InputEmpty (everything consumed), Malformed (the next unit is malformed; it is
       consumed) or OutputFull ("filled so near capacity that the decoder cannot be sure ...");
     - "When decoding to UTF-8, the output buffer must have at least 4 bytes of space": with
       free >= MinSpace (= 4) the call makes progress (consumes at least one unit or reports
       the malformed one); with less it may answer OutputFull having consumed NOTHING.
   Everything else is left to an adversarial decoder: it may stop early after any unit.
   String::reserve(n) guarantees capacity >= len + n and may give more; the model takes exactly
   that minimum, which is the worst case for termination (MinCap = 0).  MinCap = 8 reproduces
   what std's allocator does for small strings and makes counterexamples concrete enough to be
   replayed byte for byte on the real code.

   The growth arm is  output.reserve(max(input.len() / GrowDiv, MinGrow)):
     pinned code    GrowDiv = 10, MinGrow = 0   -> Termination is violated (lasso
                    OutputFull -> reserve(0) -> OutputFull ...), see MC_Decode_pinned.cfg;
     repaired code  GrowDiv = 10, MinGrow = 4   -> Termination holds (MC_Decode.cfg).        *)
EXTENDS Naturals, Sequences

CONSTANTS MaxUnits,   \* inputs of 0..MaxUnits abstract code units
          GrowDiv,    \* growth arm: reserve(max(inlen \div GrowDiv, MinGrow))
          MinGrow,
          MinCap,     \* lower bound the allocator puts on a non-empty capacity (0 = contract only)
          MinSpace    \* encoding_rs: spare bytes that guarantee progress (documented: 4)

Max(a, b) == IF a > b THEN a ELSE b

(***************************************************************************)
(* Part 1: bytes                                                           *)
(***************************************************************************)
HasPrefix(b, p) == Len(b) >= Len(p) /\ \A i \in 1..Len(p) : b[i] = p[i]

BomEnc(b) == IF HasPrefix(b, <<239, 187, 191>>) THEN "utf8"
             ELSE IF HasPrefix(b, <<255, 254>>) THEN "utf16le"
             ELSE IF HasPrefix(b, <<254, 255>>) THEN "utf16be"
             ELSE "none"
BomLen(b) == IF BomEnc(b) = "utf8" THEN 3 ELSE IF BomEnc(b) = "none" THEN 0 ELSE 2

\* detect_utf16_endianness: the pattern of NUL bytes of a leading ASCII character
Detect16(b) == IF Len(b) > 1 /\ b[1] # b[2]
               THEN IF b[1] = 0 THEN "utf16be" ELSE IF b[2] = 0 THEN "utf16le" ELSE "utf8"
               ELSE "utf8"

EncodingOf(b) == IF BomEnc(b) # "none" THEN BomEnc(b) ELSE Detect16(b)

\* The guess from the NUL pattern is beyond dispute only if the non-NUL byte is ASCII.
GuessIsAscii(b) == /\ BomEnc(b) = "none"
                   /\ Detect16(b) # "utf8"
                   /\ (IF b[1] = 0 THEN b[2] ELSE b[1]) < 128

Cont(x) == x >= 128 /\ x <= 191
\* length of the well-formed UTF-8 sequence starting at b[i] (Unicode table 3-7), 0 if none
Utf8SeqLen(b, i) ==
  LET c == b[i]
      n == Len(b)
  IN IF c < 128 THEN 1
     ELSE IF c >= 194 /\ c <= 223 THEN (IF i + 1 <= n /\ Cont(b[i + 1]) THEN 2 ELSE 0)
     ELSE IF c >= 224 /\ c <= 239 THEN
            (IF i + 2 <= n /\ Cont(b[i + 2])
                /\ (IF c = 224 THEN b[i + 1] >= 160 /\ b[i + 1] <= 191
                    ELSE IF c = 237 THEN b[i + 1] >= 128 /\ b[i + 1] <= 159
                    ELSE Cont(b[i + 1]))
             THEN 3 ELSE 0)
     ELSE IF c >= 240 /\ c <= 244 THEN
            (IF i + 3 <= n /\ Cont(b[i + 2]) /\ Cont(b[i + 3])
                /\ (IF c = 240 THEN b[i + 1] >= 144 /\ b[i + 1] <= 191
                    ELSE IF c = 244 THEN b[i + 1] >= 128 /\ b[i + 1] <= 143
                    ELSE Cont(b[i + 1]))
             THEN 4 ELSE 0)
     ELSE 0

\* TRUE iff b[s..] is not well-formed UTF-8.  Written without recursion (TLC's deep recursion is
\* quadratic): UTF-8 is self-synchronising, so every non-continuation byte must start a
\* well-formed sequence and every continuation byte must lie inside the sequence started by
\* one of the three bytes before it.
Utf8Bad(b, s) ==
  \E i \in s..Len(b) :
     IF Cont(b[i])
     THEN ~\E j \in Max(s, IF i > 3 THEN i - 3 ELSE 1)..(i - 1) : ~Cont(b[j]) /\ j + Utf8SeqLen(b, j) > i
     ELSE Utf8SeqLen(b, i) = 0

Unit16(b, i, le) == IF le THEN b[i] + 256 * b[i + 1] ELSE 256 * b[i] + b[i + 1]
IsHigh(u) == u >= 55296 /\ u <= 56319
IsLow(u) == u >= 56320 /\ u <= 57343
\* TRUE iff b[s..] is not well-formed UTF-16: a lone trailing byte, or a surrogate that is not
\* half of a high/low pair (units sit at s, s+2, ...)
Utf16Bad(b, s, le) ==
  LET n == Len(b) - s + 1                       \* bytes
      units == n \div 2
      At(k) == Unit16(b, s + 2 * (k - 1), le)    \* k \in 1..units
  IN \/ n % 2 = 1
     \/ \E k \in 1..units :
           \/ IsLow(At(k)) /\ (k = 1 \/ ~IsHigh(At(k - 1)))
           \/ IsHigh(At(k)) /\ (k = units \/ ~IsLow(At(k + 1)))

\* malformed when read in encoding e after its own byte-order mark (if present) is removed
MalformedAs(b, e) ==
  LET s == IF BomEnc(b) = e THEN BomLen(b) + 1 ELSE 1
  IN IF e = "utf8" THEN Utf8Bad(b, s) ELSE IF e = "utf16le" THEN Utf16Bad(b, s, TRUE) ELSE Utf16Bad(b, s, FALSE)

\* Malformed beyond dispute: in the detected encoding, and -- when the detection itself rests on a
\* non-ASCII first byte, which the property text does not cover -- also as UTF-8.
Malformed(b) == /\ MalformedAs(b, EncodingOf(b))
                /\ (BomEnc(b) = "none" /\ Detect16(b) # "utf8" /\ ~GuessIsAscii(b)) => MalformedAs(b, "utf8")
WellFormed(b) == ~MalformedAs(b, EncodingOf(b))

\* encoders (code points are naturals; surrogates are not code points of a text)
Utf8Of(c) == IF c < 128 THEN <<c>>
             ELSE IF c < 2048 THEN <<192 + (c \div 64), 128 + (c % 64)>>
             ELSE IF c < 65536 THEN <<224 + (c \div 4096), 128 + ((c \div 64) % 64), 128 + (c % 64)>>
             ELSE <<240 + (c \div 262144), 128 + ((c \div 4096) % 64), 128 + ((c \div 64) % 64), 128 + (c % 64)>>
Pair(u, le) == IF le THEN <<u % 256, u \div 256>> ELSE <<u \div 256, u % 256>>
Utf16Of(c, le) == IF c < 65536 THEN Pair(c, le)
                  ELSE Pair(55296 + ((c - 65536) \div 1024), le) \o Pair(56320 + ((c - 65536) % 1024), le)
RECURSIVE EncodeBody(_, _)
EncodeBody(t, e) == IF t = <<>> THEN <<>>
                    ELSE (IF e = "utf8" THEN Utf8Of(Head(t)) ELSE Utf16Of(Head(t), e = "utf16le")) \o EncodeBody(Tail(t), e)
Encode(t, e, bom) == (IF bom THEN EncodeBody(<<65279>>, e) ELSE <<>>) \o EncodeBody(t, e)

\* C18's scope: the text starts with an ASCII character or a byte-order mark
InScope(t) == t # <<>> /\ (t[1] < 128 \/ t[1] = 65279)

(***************************************************************************)
(* Part 2: decode_loop                                                     *)
(***************************************************************************)
VARIABLES enc,      \* "utf8" | "utf16": which family of code units the input is made of
          inp,      \* sequence of units [inb |-> input bytes, need |-> UTF-8 bytes, bad |-> malformed?]
          trap,     \* "ignore" | "strict" | "replace" | "call"
          pos,      \* units consumed (total_bytes_read = InBytes of that prefix)
          outLen,   \* output.len()
          cap,      \* output.capacity()
          done,
          result    \* "running" | "ok" | "decodeError"
vars == <<enc, inp, trap, pos, outLen, cap, done, result>>

U(i, n) == [inb |-> i, need |-> n, bad |-> FALSE]
B(i) == [inb |-> i, need |-> 0, bad |-> TRUE]
\* unit kinds: ASCII, a 3-byte character, an astral character, a malformed sequence
Units(e) == IF e = "utf8" THEN {U(1, 1), U(3, 3), U(4, 4), B(1)}
            ELSE {U(2, 1), U(2, 3), U(4, 4), B(2)}
BomUnit(e) == IF e = "utf8" THEN U(3, 0) ELSE U(2, 0)
Traps == {"ignore", "strict", "replace", "call"}

RECURSIVE InBytes(_)
InBytes(q) == IF q = <<>> THEN 0 ELSE Head(q).inb + InBytes(Tail(q))
RECURSIVE NeedSum(_, _, _)
NeedSum(q, p, k) == IF k = 0 THEN 0 ELSE q[p + 1].need + NeedSum(q, p + 1, k - 1)

InLen == InBytes(inp)
Rem == Len(inp) - pos
Free == cap - outLen
AnyBad == \E i \in 1..Len(inp) : inp[i].bad

Bodies(e) == UNION {[1..n -> Units(e)] : n \in 0..MaxUnits}

Init == /\ enc \in {"utf8", "utf16"}
        /\ \E body \in Bodies(enc), bom \in BOOLEAN :
              inp = IF bom THEN <<BomUnit(enc)>> \o body ELSE body
        /\ trap \in Traps
        /\ pos = 0 /\ outLen = 0
        /\ cap = IF InBytes(inp) = 0 THEN 0 ELSE Max(InBytes(inp), MinCap)     \* output.reserve(input.len())
        /\ done = FALSE /\ result = "running"

\* the decoder may consume the k good units after pos
Fits(k) == /\ k \in 0..Rem
           /\ \A i \in (pos + 1)..(pos + k) : ~inp[i].bad
           /\ NeedSum(inp, pos, k) <= Free

\* (DecoderResult::InputEmpty, _) => break Ok(())
ArmInputEmpty(k) ==
  /\ Fits(k) /\ pos + k = Len(inp)
  /\ pos' = pos + k /\ outLen' = outLen + NeedSum(inp, pos, k)
  /\ done' = TRUE /\ result' = "ok"
  /\ UNCHANGED <<enc, inp, trap, cap>>

\* (DecoderResult::OutputFull, n) => { total_bytes_read += n; output.reserve(growth) }
\* allowed after at least one unit, or at once when fewer than MinSpace bytes are spare
ArmOutputFull(k) ==
  /\ Fits(k) /\ pos + k < Len(inp)
  /\ k >= 1 \/ Free < MinSpace
  /\ LET o == outLen + NeedSum(inp, pos, k) IN
       /\ pos' = pos + k /\ outLen' = o
       /\ cap' = Max(cap, o + Max(InLen \div GrowDiv, MinGrow))
  /\ UNCHANGED <<enc, inp, trap, done, result>>

\* (DecoderResult::Malformed(..), n) => { total_bytes_read += n; match trap { .. } }
ArmMalformed(k) ==
  /\ Fits(k) /\ pos + k < Len(inp) /\ inp[pos + k + 1].bad
  /\ LET o == outLen + NeedSum(inp, pos, k) IN
       /\ pos' = pos + k + 1
       /\ \/ trap = "ignore" /\ outLen' = o /\ cap' = cap /\ UNCHANGED <<done, result>>
          \/ trap = "replace" /\ outLen' = o + 3 /\ cap' = Max(cap, o + 3) /\ UNCHANGED <<done, result>>   \* push('\u{FFFD}')
          \/ trap = "strict" /\ outLen' = o /\ cap' = cap /\ done' = TRUE /\ result' = "decodeError"
          \/ /\ trap = "call"                    \* the callback pushes 0..1 bytes; Continue or Break
             /\ \E p \in 0..1 : outLen' = o + p /\ cap' = Max(cap, o + p)
             /\ \/ UNCHANGED <<done, result>>
                \/ done' = TRUE /\ result' = "decodeError"
  /\ UNCHANGED <<enc, inp, trap>>

Step == /\ ~done
        /\ \E k \in 0..Rem : ArmInputEmpty(k) \/ ArmOutputFull(k) \/ ArmMalformed(k)
Next == Step
Spec == Init /\ [][Next]_vars /\ WF_vars(Next)

(***************************************************************************)
(* Properties                                                              *)
(***************************************************************************)
TypeOK == /\ pos \in 0..Len(inp) /\ outLen \in Nat /\ cap \in Nat /\ done \in BOOLEAN
          /\ result \in {"running", "ok", "decodeError"}
OutFits == outLen <= cap                            \* the decoder never reallocates the String
DoneIff == done <=> result # "running"
\* a call is always possible while not done (the loop never blocks): decoder contract is total
NoBlock == ~done => \E k \in 0..Rem : ENABLED (ArmInputEmpty(k) \/ ArmOutputFull(k) \/ ArmMalformed(k))

Termination == <>done

\* with the strict trap malformed input is a decode error
StrictMeansError == (done /\ trap = "strict" /\ AnyBad) => result = "decodeError"
\* with ignore/replace it continues as configured; well-formed input never is a decode error
TrapContinues == (done /\ trap \in {"ignore", "replace"}) => result = "ok"
WellFormedOk == (done /\ ~AnyBad) => result = "ok"
\* nothing is lost or duplicated: a successful run wrote every good unit exactly once
RECURSIVE NeedAll(_)
NeedAll(q) == IF q = <<>> THEN 0 ELSE Head(q).need + NeedAll(Tail(q))
Complete == (done /\ result = "ok" /\ trap = "ignore") => outLen = NeedAll(inp)

\* progress measure: (units left, "a call may be refused") decreases lexicographically
Starved == IF Free < MinSpace THEN 1 ELSE 0
MeasureDecreases == [][done' \/ Rem' < Rem \/ (Rem' = Rem /\ Starved = 1 /\ Starved' = 0)]_vars

\* the measure used on recorded traces: (input bytes left, -capacity) decreases between two
\* consecutive loop heads (h = <<total, inlen, outlen, cap>>)
HeadOk(h) == /\ h[1] <= h[2] /\ h[3] <= h[4]
FirstHeadOk(h, n) == h[1] = 0 /\ h[2] = n /\ h[3] = 0 /\ h[4] >= n
StepAllowed(g, h) == /\ h[2] = g[2] /\ h[1] >= g[1] /\ h[4] >= g[4] /\ HeadOk(h)
TraceMeasure(g, h) == h[1] > g[1] \/ h[4] > g[4]
\* the documented progress guarantee of the decoder, as observed from the loop heads
ContractObserved(g, h) == (g[4] - g[3] >= MinSpace /\ g[1] < g[2]) => h[1] > g[1]
=============================================================================
