CONSTANTS
  MaxUnits = 8
  GrowDiv = 10
  MinGrow = 4
  MinCap = 0
  MinSpace = 4
SPECIFICATION Spec
INVARIANTS TypeOK OutFits DoneIff NoBlock StrictMeansError TrapContinues WellFormedOk Complete
PROPERTIES Termination MeasureDecreases
CHECK_DEADLOCK FALSE
