---------------------------- MODULE Trace_Schema ----------------------------
(* Judge of recorded scalar resolutions (C08, impl -> spec). Every record of the NDJSON trace is
   one scalar text with what the real library returned for it:

     [t |-> text, cells |-> << [style, class, tag, n, rs], ... >>]

   style  one of YCoreSchema!Styles;  class  one of YCoreSchema!Tags (the class of the tag used);
   tag    the concrete tag as written, for the report;  n  the number of calls folded into the cell
   (borrowed / owned input, Scalar / ScalarOwned / node constructors / loader / load_from_str);
   rs     the DISTINCT results among those calls, each  [ty, b, iv, s, fk, fbits, pbits]
          (see YCoreSchema!RealMatches).
   A cell is accepted iff all calls agreed (borrowed and owned scalars resolve identically) and the
   one result is among the outcomes YCoreSchema allows for (text, style, tag class). A rejected
   cell is printed as <<"REJECT", record index, cell index, reason>> and judging continues.    *)
EXTENDS YCoreSchema, Json, IOUtils, TLC
Rec == ndJsonDeserialize(IOEnv.TRACE)
VARIABLE l
Init == l = 1
CellVerdict(F, c) ==
  IF Len(c.rs) # 1 THEN "calls disagree (borrowed/owned/loader variants)"
  ELSE IF RealOKF(F, c.style, c.class, c.rs[1]) THEN "ok"
  ELSE IF c.rs[1].ty = "str" THEN (IF c.rs[1].s # F.t THEN "string content differs from the text" ELSE "literal the property demands was left a string")
  ELSE IF c.rs[1].ty = "bad" THEN "BadValue where a value is required"
  ELSE "typed as " \o c.rs[1].ty \o " but the core schema does not read the text so"
Next == /\ l <= Len(Rec)
        /\ LET F == Facts(Rec[l].t) IN
           \A i \in 1..Len(Rec[l].cells) :
              LET v == CellVerdict(F, Rec[l].cells[i]) IN
              IF v = "ok" THEN TRUE ELSE PrintT(<<"REJECT", l, i, v>>)
        /\ l' = l + 1
AllJudged == (l = Len(Rec) + 1) => PrintT(<<"JUDGED", Len(Rec)>>)
=============================================================================
