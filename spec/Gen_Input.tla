---------------------------- MODULE Gen_Input ----------------------------
(* Generator binding YInput to the real Input implementations (C10): for every text of at most N
   characters over an 18-symbol alphabet and every cursor offset in it, the answers the ABSTRACT
   input (YInput, the contract) gives to every operation of the trait -- peeks, the character-class
   queries, the document-indicator and plain-scalar look-aheads, raw reads and the bulk
   operations (skip_ws_to_eol with and without tabs, skip_while_non_breakz, skip_while_blank,
   fetch_while_is_alpha). One REPLAY line per (text, offset); the harness positions a fresh
   StrInput and a fresh BufferedInput at the offset, performs each operation under the
   look-ahead the contract requires, and compares with these answers and with each other.
   A difference between the two implementations is a lead: C10 speaks of parsing, so the harness
   then looks for a document in which the parser shows the difference.                          *)
EXTENDS YInput, TLC, Json
CONSTANTS N
\* (<u288>, <u266>: characters whose code point ends in the byte of a space / a line feed; <u160>: white space for Unicode, not for YAML)
Sigma == {"a", " ", "\n", "\r", "<u233>", "#", "-", ".", ":", "\t", "<u0>", "1", ",", "[", "<u288>", "<u266>", "_", "<u160>"}
VARIABLES text, off, done
Init == text = <<>> /\ off = 0 /\ done = FALSE
Next == \/ (~done /\ Len(text) < N /\ \E c \in Sigma : text' = Append(text, c) /\ off' = 0 /\ done' = FALSE)
        \/ (~done /\ done' = TRUE /\ text' = text /\ off' \in 0..Len(text))
R == Drop(text, off)
A == [rest |-> R, buf |-> 4]
C(i) == CharAt(R, i)
B2S(b) == IF b THEN "t" ELSE "f"
SkipWsExp(tabsOK) == LET r == ASkipWs(A, tabsOK) IN <<r.n, B2S(r.err), B2S(r.tabs), B2S(r.ws)>>
AlphaN == CountWhile(R, 1, Alpha)
Exp == [ peek |-> <<C(1), C(2), C(3), C(4)>>,
         docind |-> <<B2S(ADocInd(A, {"-", "."})), B2S(ADocInd(A, {"-"})), B2S(ADocInd(A, {"."}))>>,
         \* next_can_be_plain_scalar is only called on a non-blank character
         canplain |-> IF IsBlankZc(C(1)) THEN <<"skip", "skip">> ELSE <<B2S(ACanPlain(A, FALSE)), B2S(ACanPlain(A, TRUE))>>,
         cls |-> <<B2S(C(1) \in Blank \/ C(1) \in Break), B2S(IsBlankZc(C(1))), B2S(C(1) \in Blank), B2S(C(1) \in Break), B2S(IsBreakZc(C(1))),
                   B2S(IsZc(C(1))), B2S(C(1) \in FlowC), B2S(C(1) \in Digit), B2S(C(1) \in Alpha)>>,
         raw |-> ARawRead([rest |-> R, buf |-> 0])[2],
         skipws |-> <<SkipWsExp(FALSE), SkipWsExp(TRUE)>>,
         nonbreakz |-> CountNonBreakZ(R, 1),
         blank |-> CountWhile(R, 1, Blank),
         alpha |-> <<AlphaN, SubSeq(R, 1, AlphaN)>> ]
Out == done => PrintT(<<"REPLAY", ToJson([text |-> text, off |-> off, exp |-> Exp])>>)
===========================================================================
