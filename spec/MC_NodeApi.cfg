CONSTANTS
  N = 4
  PoolName = "full"
  D = 1
  Variant = "repaired"
INIT Init
NEXT Next
INVARIANTS RefTheorems CodedIsRef Out
CHECK_DEADLOCK FALSE
