------------------------------ MODULE MC_NodeApi ------------------------------
(* C19, exhaustive small scope: every node tree of at most N nodes over a small leaf pool
   (resolved scalars, BadValue, an alias, and unresolved representations) is an initial state;
   a behaviour is a history of at most D API calls on that tree
       pr   = parse_representation() on the root
       prr  = parse_representation_recursive() on the root
       node = parse_representation() on every node, bottom-up (the harness's own traversal)
   carried out twice: by the AS-CODED operators of YNodeApi (variable cur) and by the REFERENCE
   reading (variable ref).

   Checked in the model:
     RefTheorems   resolving is idempotent, is the identity on resolved trees, leaves no
                   representation behind and keeps mappings well-formed;
     CodedIsRef    the as-coded operators compute the reference result (variant "repaired");
     PinnedExact   the pinned variant departs from the reference exactly on the defect shapes
                   (negative control; the departures are printed with cex = TRUE).
   Every non-empty history prints one REPLAY line (starting tree, calls, reference result, as-coded
   result) which the harness replays on the four real node types.

   The representations of the leaf pool and the values they resolve to are read from the file
   named by the environment variable RESTABLE: NDJSON records [r |-> repr, v |-> value, tiny |->
   BOOLEAN] recorded from the real library's eager resolver (scalar typing is C08's business).   *)
EXTENDS YNodeApi, Json, IOUtils, TLC
CONSTANTS N,          \* maximal number of nodes of the starting tree (<= 6)
          PoolName,   \* "full" | "tiny"
          D,          \* maximal number of calls
          Variant     \* "repaired" | "pinned"

ResRecs == ndJsonDeserialize(IOEnv.RESTABLE)
RECURSIVE ResFrom(_, _)
ResFrom(i, acc) == IF i > Len(ResRecs) THEN acc ELSE ResFrom(i + 1, Append(acc, <<ResRecs[i].r, ResRecs[i].v>>))
Res == ResFrom(1, <<>>)

Leaves ==
  IF PoolName = "tiny"
  THEN {IntN("1"), StrN("a")} \cup {ResRecs[i].r : i \in {j \in 1..Len(ResRecs) : ResRecs[j].tiny}}
  ELSE {NullN, BoolN(TRUE), IntN("1"), StrN("a"), StrN("1"), FloatN("3ff8000000000000", "fin", "1.5"), BadN, AliasN("1")}
       \cup {ResRecs[i].r : i \in 1..Len(ResRecs)}

\* --- all trees by number of nodes ------------------------------------------------------------
Cons(Ts, Ls) == {<<h>> \o r : h \in Ts, r \in Ls}
RECURSIVE PairUp(_, _, _)
PairUp(l, i, acc) == IF i > Len(l) THEN acc ELSE PairUp(l, i + 2, Append(acc, <<l[i], l[i + 1]>>))
KeysDistinct(l) == \A i, j \in 1..Len(l) : (i % 2 = 1 /\ j % 2 = 1 /\ i < j) => ~Equal(l[i], l[j])
FromLists(Ls) == {SeqN(l) : l \in Ls} \cup {MapN(PairUp(l, 1, <<>>)) : l \in {x \in Ls : Len(x) % 2 = 0 /\ KeysDistinct(x)}}

\* Lk = lists of trees with k nodes in total, Tk = trees with exactly k nodes
L0 == {<<>>}
T1 == Leaves \cup FromLists(L0)
L1 == Cons(T1, L0)
T2 == IF N >= 2 THEN FromLists(L1) ELSE {}
L2 == IF N >= 3 THEN Cons(T1, L1) \cup Cons(T2, L0) ELSE {}
T3 == IF N >= 3 THEN FromLists(L2) ELSE {}
L3 == IF N >= 4 THEN Cons(T1, L2) \cup Cons(T2, L1) \cup Cons(T3, L0) ELSE {}
T4 == IF N >= 4 THEN FromLists(L3) ELSE {}
L4 == IF N >= 5 THEN Cons(T1, L3) \cup Cons(T2, L2) \cup Cons(T3, L1) \cup Cons(T4, L0) ELSE {}
T5 == IF N >= 5 THEN FromLists(L4) ELSE {}
L5 == IF N >= 6 THEN Cons(T1, L4) \cup Cons(T2, L3) \cup Cons(T3, L2) \cup Cons(T4, L1) \cup Cons(T5, L0) ELSE {}
T6 == IF N >= 6 THEN FromLists(L5) ELSE {}
Trees == T1 \cup T2 \cup T3 \cup T4 \cup T5 \cup T6

ASSUME N \in 1..6 /\ D \in 1..3 /\ Variant \in {"repaired", "pinned"} /\ PoolName \in {"full", "tiny"}
ASSUME \A i \in 1..Len(ResRecs) : ResRecs[i].r.t = "repr" /\ ResRecs[i].v.t \notin {"repr", "seq", "map"}

VARIABLES start, hist, cur, ref, ok
vars == <<start, hist, cur, ref, ok>>

Init == start \in Trees /\ hist = <<>> /\ cur = start /\ ref = start /\ ok = TRUE
Call(op) ==
  LET r == CodedOp(Variant, Res, op, cur) IN
  /\ hist' = Append(hist, op)
  /\ cur' = r.n
  /\ ok' = r.ok
  /\ ref' = RefOp(Res, op, ref)
  /\ UNCHANGED start
Next == Len(hist) < D /\ \E op \in Ops : Call(op)

\* --- theorems about the reference ------------------------------------------------------------
RefTheorems ==
  hist = <<>> =>
    LET r == ResolveRec(Res, start) IN
    /\ Size(start) <= N /\ WellFormed(start)
    /\ ResolveRec(Res, r) = r                                   \* idempotent
    /\ Resolve(Res, Resolve(Res, start)) = Resolve(Res, start)
    /\ IsResolved(r) /\ WellFormed(r)
    /\ IsResolved(start) => (r = start /\ Resolve(Res, start) = start)   \* identity on resolved trees
    /\ Size(r) <= Size(start)
\* --- as coded = reference --------------------------------------------------------------------
CodedIsRef == cur = ref
\* the pinned code departs exactly on the defect shapes (first call)
PinnedExact == (Variant = "pinned" /\ Len(hist) = 1) => ((cur # ref) <=> PinnedDefect(hist[1], start))
\* --- spec -> impl ----------------------------------------------------------------------------
Out == hist # <<>> =>
  PrintT(<<"REPLAY", ToJson([start |-> start, hist |-> hist, ref |-> ref, coded |-> cur, ok |-> ok, cex |-> (cur # ref)])>>)
=============================================================================
