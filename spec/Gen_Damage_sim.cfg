CONSTANTS
  L = 40
  D = 3
  C = 64
INIT Init
NEXT Next
INVARIANT Out
CHECK_DEADLOCK FALSE
