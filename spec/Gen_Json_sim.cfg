CONSTANTS
  L = 60
  D = 5
  C = 64
INIT Init
NEXT Next
INVARIANT Out
CHECK_DEADLOCK FALSE
