CONSTANTS
  L = 60
  D = 5
  C = 64
INIT Init
NEXT Next
INVARIANTS Out OutBoundary
CHECK_DEADLOCK FALSE
