CONSTANTS
  N = 7
  Budget = 99
  MaxChD = 4
  CiMax = 1
  Wide = TRUE
INIT Init
NEXT Next
INVARIANT Out
CHECK_DEADLOCK FALSE
