CONSTANTS
  N = 7
  Wide = TRUE
INIT Init
NEXT Next
INVARIANT Out
CHECK_DEADLOCK FALSE
