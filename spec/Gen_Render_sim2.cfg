CONSTANTS
  L = 72
  D = 4
  C = 64
INIT Init
NEXT Next
INVARIANTS Out
CHECK_DEADLOCK FALSE
