---------------------------- MODULE Trace_Pos ----------------------------
(* Judge for C12: every record holds an input text, the events (with spans) the real parser
   delivered for it, the error if any (position, words of its printed form), and optionally the
   spans of the nodes of a marked load in pre-order. YPos decides.                             *)
EXTENDS YPos, Json, IOUtils
Rec == ndJsonDeserialize(IOEnv.TRACE)
VARIABLE l
Init == l = 1
NodeEvs(evs) == SelectSeq(evs, LAMBDA e : e.k \in {"Scalar", "Alias", "SequenceStart", "MappingStart"})
Verdict(r0) ==
  LET r == [r0 EXCEPT !.t = Effective(r0.t)] tab == PosTab(r.t) v == EvsVerdict(tab, r.t, r.evs, 1) IN
  IF v # "ok" THEN v
  ELSE IF ~NestOK(r.evs, 1, <<>>) THEN "a node starts before its parent or a collection ends before it starts"
  ELSE IF r.err # <<>> /\ ~MarkOK(tab, r.t, r.err[1].at) THEN "error position is not a true position"
  ELSE IF r.err # <<>> /\ ~DisplayOK(r.err[1].words, r.err[1].at) THEN "printed error does not show the line and 1-based column"
  \* (when a mapping has a duplicated key a node is dropped and the lengths differ: not judged)
  ELSE IF r.marked # <<>> /\ Len(r.marked[1]) = Len(MarkedSpans(r.evs)) /\ r.marked[1] # MarkedSpans(r.evs) THEN "marked node does not carry the span of the event that created it"
  ELSE "ok"
Next == /\ l <= Len(Rec)
        /\ LET v == Verdict(Rec[l]) IN IF v = "ok" THEN TRUE ELSE PrintT(<<"REJECT", l, v>>)
        /\ l' = l + 1
AllJudged == (l = Len(Rec) + 1) => PrintT(<<"JUDGED", Len(Rec)>>)
==========================================================================
