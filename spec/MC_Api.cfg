CONSTANTS
  N = 6
  Latch = TRUE
INIT Init
NEXT Next
INVARIANTS Agree
CHECK_DEADLOCK FALSE
