---------------------------- MODULE Gen_Damage ----------------------------
(* Generator for C06: every damage operator x placement applied after every well-formed stream
   the C03 renderer produces (all tapes of length L, or simulated long tapes), plus the empty base.
   ModelRejects: the scanner/parser model must end in an error too (drift otherwise).            *)
EXTENDS YParser, YRender, YDamage, TLC, Json
CONSTANTS L, D, C
VARIABLES tape, done, op, pl
Base == IF tape = <<>> THEN <<>> ELSE Stream(tape, D).txt
\* Truncation damage: a flow collection with tape-driven content (nested collections, single pairs, explicit keys, multi-line
\* layout, comments) whose closing bracket never comes -- as the last document of the stream, nested under a block sequence,
\* or followed by a block mapping entry at column 0. Ill-formed whatever the content.
NTrunc == 6
TruncDamage(k, base) ==
  LET sep == IF base = <<>> THEN <<>> ELSE <<".", ".", ".", "\n">>
      cnt == 1 + (Cell(tape, 1) % 3)
      ml == (Cell(tape, 2) % 2) = 1
      seqI(n) == FlowSeqItems(tape, St(3, 1, <<>>), n, 1, cnt, ml).txt
      mapI(n) == FlowMapItems(tape, St(3, 1, <<>>), n, 1, cnt, ml).txt
  IN IF k = 1 THEN base \o sep \o <<"-", "-", "-", " ", "[">> \o seqI(-1) \o <<"\n">>
     ELSE IF k = 2 THEN base \o sep \o <<"-", "-", "-", " ", "{">> \o mapI(-1) \o <<"\n">>
     ELSE IF k = 3 THEN base \o sep \o <<"-", "-", "-", "\n", "t", "o", "p", ":", "\n", " ", " ", "-", " ", "x", "\n", " ", " ", "-", " ", "[">> \o seqI(2) \o <<"\n">>
     ELSE IF k = 4 THEN base \o sep \o <<"-", "-", "-", "\n", "k", ":", " ", "{">> \o mapI(0) \o <<"\n", "z", ":", " ", "w", "\n">>
     ELSE IF k = 5 THEN base \o sep \o <<"-", "-", "-", "\n", "k", ":", " ", "[">> \o seqI(0) \o <<"\n", ".", ".", ".", "\n">>
     ELSE base \o sep \o <<"-", "-", "-", "\n", "-", " ", "{">> \o mapI(0) \o <<"\n", "-", "-", "-", " ", "a", "\n">>
NOps == Len(DamageOps) + NTrunc
OpName == IF op <= Len(DamageOps) THEN DamageOps[op].name ELSE <<"unclosed-flow-seq-last-document", "unclosed-flow-map-last-document", "unclosed-flow-seq-nested", "unclosed-flow-map-then-block-entry", "unclosed-flow-seq-then-document-end", "unclosed-flow-map-then-document-start">>[op - Len(DamageOps)]
G == IF op <= Len(DamageOps) THEN Damaged(Base, DamageOps[op], pl) ELSE TruncDamage(op - Len(DamageOps), Base)
Init == tape = <<>> /\ done = FALSE /\ op = 0 /\ pl = 0
Next == \/ (~done /\ Len(tape) < L /\ \E c \in 0..(C - 1) : tape' = Append(tape, c) /\ UNCHANGED <<done, op, pl>>)
        \/ (~done /\ (Len(tape) = L \/ Len(tape) = 0) /\ done' = TRUE /\ tape' = tape /\ \E o \in 1..NOps, q \in 0..5 :
                /\ (q >= 2 => (o <= Len(DamageOps) /\ (DamageOps[o].kind = "inline") = TRUE))      \* placements 2..5 exist for inline fragments only
                /\ op' = o /\ pl' = q)
ModelRejects == RunAll(G, PInit(FALSE), <<>>).err # ""
Out == done => PrintT(<<"REPLAY", ToJson([info |-> <<OpName, pl>>, text |-> G, reject |-> TRUE, model |-> ModelRejects])>>)
===========================================================================
