---------------------------- MODULE Gen_Damage ----------------------------
(* Generator for C06: every damage operator x placement applied after every well-formed stream
   the C03 renderer produces (all tapes of length L, or simulated long tapes), plus the empty base.
   ModelRejects: the scanner/parser model must end in an error too (drift otherwise).            *)
EXTENDS YParser, YRender, YDamage, TLC, Json
CONSTANTS L, D, C
VARIABLES tape, done, op, pl
Init == tape = <<>> /\ done = FALSE /\ op = 0 /\ pl = 0
Next == \/ (~done /\ Len(tape) < L /\ \E c \in 0..(C - 1) : tape' = Append(tape, c) /\ UNCHANGED <<done, op, pl>>)
        \/ (~done /\ (Len(tape) = L \/ Len(tape) = 0) /\ done' = TRUE /\ tape' = tape /\ op' \in 1..Len(DamageOps) /\ pl' \in 0..1)
Base == IF tape = <<>> THEN <<>> ELSE Stream(tape, D).txt
G == Damaged(Base, DamageOps[op], pl)
ModelRejects == RunAll(G, PInit(FALSE), <<>>).err # ""
Out == done => PrintT(<<"REPLAY", ToJson([info |-> <<DamageOps[op].name, pl>>, text |-> G, reject |-> TRUE, model |-> ModelRejects])>>)
===========================================================================
