CONSTANTS
  NL = 2
INIT Init
NEXT Next
INVARIANT Out
CHECK_DEADLOCK FALSE
