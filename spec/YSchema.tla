---------------------------- MODULE YSchema ----------------------------
(* IMPLEMENTATION-SHAPED module for property C08: saphyr/src/scalar.rs (`Scalar::parse_from_cow`,
   `Scalar::parse_from_cow_and_metadata`) and saphyr/src/loader.rs (`parse_f64`) transcribed as the
   decision lists they are, on top of models of the Rust standard-library parsers they delegate to
   (`i64::from_str_radix`, `str::parse::<i64>`, `str::parse::<f64>`, `str::parse::<bool>`; accepted
   languages confirmed experimentally against rustc's std).

   Fixed = TRUE  models the tree with fixes/C08.patch applied (what the check expects to run on);
   Fixed = FALSE models the pinned tree, where a sign is accepted after `0x`, `0o` and `+`, and
   `parse_f64` hands everything to `f64::from_str`, which also reads inf / infinity / nan.

   Outcomes are the records of YCoreSchema ([ty, fk, v]); only their construction is shared with
   the reference module, none of its predicates is used here.                                   *)
EXTENDS YCoreSchema
CONSTANT Fixed

LOCAL StartsWith(t, p) == Len(t) >= Len(p) /\ SubSeq(t, 1, Len(p)) = p
LOCAL Drop(t, n) == SubSeq(t, n + 1, Len(t))
LOCAL AllIn(t, S) == \A i \in 1..Len(t) : t[i] \in S
LOCAL LowerCh(c) == CASE c = "I" -> "i" [] c = "N" -> "n" [] c = "F" -> "f" [] c = "T" -> "t" [] c = "Y" -> "y" [] c = "A" -> "a" [] OTHER -> c
LOCAL LowerAll(t) == [i \in 1..Len(t) |-> LowerCh(t[i])]

\* ------------------------------------------------------------------------------------------------
\* Rust std
\* ------------------------------------------------------------------------------------------------
\* i64::from_str_radix(t, radix) and, for radix 10, str::parse::<i64>:
\*   an optional single '+' or '-', then one or more digits of the radix (letters in either case),
\*   nothing else (no '_', no blanks); Err on overflow of i64.  Result [ok, val].
RadixDigits(radix) == IF radix = 16 THEN Hex ELSE IF radix = 8 THEN OctDigit ELSE Digit
RustI64(t, radix) ==
  LET signed == Len(t) > 0 /\ t[1] \in {"+", "-"}
      ds == IF signed THEN Tail(t) ELSE t IN
  IF ds = <<>> \/ ~AllIn(ds, RadixDigits(radix)) THEN [ok |-> FALSE, val |-> [neg |-> FALSE, mag |-> <<0>>]]
  ELSE LET mag == FromRadix(MapHex(ds), radix)
           neg == signed /\ t[1] = "-" IN
       IF FitsI64(neg, mag) THEN [ok |-> TRUE, val |-> [neg |-> neg /\ mag # <<0>>, mag |-> mag]]
       ELSE [ok |-> FALSE, val |-> [neg |-> FALSE, mag |-> <<0>>]]

\* str::parse::<f64> (core::num::dec2flt):
\*   Float  ::= Sign? ( 'inf' | 'infinity' | 'nan' | Number )        (words in any letter case)
\*   Number ::= ( Digit+ | Digit+ '.' Digit* | Digit* '.' Digit+ ) Exp?
\*   Exp    ::= [eE] Sign? Digit+
\* Result [ok, kind] with kind = "num" | "inf" | "nan";  the sign of a nan is dropped.
RustNumber(s) ==
  \E m \in 1..Len(s) :                                   \* mantissa = s[1..m], exponent part after it
     LET man == SubSeq(s, 1, m)
         rest == Drop(s, m)
         manOK == \/ AllIn(man, Digit)
                  \/ \E d \in 1..m : /\ man[d] = "."
                                     /\ AllIn(SubSeq(man, 1, d - 1), Digit) /\ AllIn(Drop(man, d), Digit)
                                     /\ m >= 2                       \* at least one digit around the point
         expOK == \/ rest = <<>>
                  \/ /\ rest[1] \in {"e", "E"}
                     /\ LET x == Drop(rest, 1)
                            xs == IF Len(x) > 0 /\ x[1] \in {"+", "-"} THEN Tail(x) ELSE x IN
                        xs # <<>> /\ AllIn(xs, Digit) IN
     manOK /\ expOK
RustF64(t) ==
  LET signed == Len(t) > 0 /\ t[1] \in {"+", "-"}
      s == IF signed THEN Tail(t) ELSE t
      w == LowerAll(s) IN
  IF w = <<"i", "n", "f">> \/ w = <<"i", "n", "f", "i", "n", "i", "t", "y">> THEN [ok |-> TRUE, kind |-> "inf"]
  ELSE IF w = <<"n", "a", "n">> THEN [ok |-> TRUE, kind |-> "nan"]
  ELSE IF RustNumber(s) THEN [ok |-> TRUE, kind |-> "num"]
  ELSE [ok |-> FALSE, kind |-> ""]

\* str::parse::<bool>: exactly "true" or "false"
RustBool(t) == IF t = <<"t", "r", "u", "e">> THEN [ok |-> TRUE, b |-> TRUE]
               ELSE IF t = <<"f", "a", "l", "s", "e">> THEN [ok |-> TRUE, b |-> FALSE]
               ELSE [ok |-> FALSE, b |-> FALSE]

\* ------------------------------------------------------------------------------------------------
\* loader.rs: parse_f64        (result: a float outcome, or OBad standing for None)
\* ------------------------------------------------------------------------------------------------
FloatSyntaxChars == Digit \cup {"+", "-", ".", "e", "E"}
ParseF64(t) ==
  IF t \in {<<".", "i", "n", "f">>, <<".", "I", "n", "f">>, <<".", "I", "N", "F">>,
            <<"+", ".", "i", "n", "f">>, <<"+", ".", "I", "n", "f">>, <<"+", ".", "I", "N", "F">>} THEN OInfPos
  ELSE IF t \in {<<"-", ".", "i", "n", "f">>, <<"-", ".", "I", "n", "f">>, <<"-", ".", "I", "N", "F">>} THEN OInfNeg
  ELSE IF t \in {<<".", "n", "a", "n">>, <<".", "N", "a", "N">>, <<".", "N", "A", "N">>} THEN ONan
  ELSE IF Fixed /\ ~AllIn(t, FloatSyntaxChars) THEN OBad      \* fix: only core-schema float characters reach f64::from_str
  ELSE LET f == RustF64(t) IN
       IF ~f.ok THEN OBad
       ELSE IF f.kind = "num" THEN OFloatText(t)
       ELSE IF f.kind = "nan" THEN ONan
       ELSE IF t[1] = "-" THEN OInfNeg ELSE OInfPos

\* ------------------------------------------------------------------------------------------------
\* scalar.rs: Scalar::parse_from_cow
\* ------------------------------------------------------------------------------------------------
\* fix: the digits after `0x`, `0o` and `+` must not start with another sign
Unsigned(number) == ~Fixed \/ ~(Len(number) > 0 /\ number[1] \in {"+", "-"})

Fallthrough(t) ==                                     \* the `match &*v` of parse_from_cow
  IF t \in {<<"~">>, <<"n", "u", "l", "l">>, <<"N", "U", "L", "L">>} THEN ONull
  ELSE IF t = <<"t", "r", "u", "e">> THEN OBool(TRUE)
  ELSE IF t = <<"f", "a", "l", "s", "e">> THEN OBool(FALSE)
  ELSE LET i == RustI64(t, 10) IN
       IF i.ok THEN OInt(i.val)
       ELSE LET f == ParseF64(t) IN
            IF f.ty = "float" THEN f ELSE OStr

ParseFromCow(t) ==
  IF StartsWith(t, <<"0", "x">>) THEN
       LET number == Drop(t, 2)  i == RustI64(number, 16) IN
       IF Unsigned(number) /\ i.ok THEN OInt(i.val) ELSE Fallthrough(t)
  ELSE IF StartsWith(t, <<"0", "o">>) THEN
       LET number == Drop(t, 2)  i == RustI64(number, 8) IN
       IF Unsigned(number) /\ i.ok THEN OInt(i.val) ELSE Fallthrough(t)
  ELSE IF StartsWith(t, <<"+">>) THEN
       LET number == Drop(t, 1)  i == RustI64(number, 10) IN
       IF Unsigned(number) /\ i.ok THEN OInt(i.val) ELSE Fallthrough(t)
  ELSE Fallthrough(t)

\* ------------------------------------------------------------------------------------------------
\* scalar.rs: Scalar::parse_from_cow_and_metadata;  OBad stands for None (-> Yaml::BadValue)
\*   tag = a pair <<handle, suffix>> of strings; NoTag stands for `None`
\* ------------------------------------------------------------------------------------------------
CoreHandle == "tag:yaml.org,2002:"
NoTag == <<"", "">>
ParseFromCowAndMetadata(t, style, tag) ==
  IF style # "plain" THEN OStr
  ELSE IF tag # NoTag THEN
       IF tag[1] = CoreHandle THEN
            CASE tag[2] = "bool"  -> LET b == RustBool(t) IN IF b.ok THEN OBool(b.b) ELSE OBad
              [] tag[2] = "int"   -> LET i == RustI64(t, 10) IN IF i.ok THEN OInt(i.val) ELSE OBad
              [] tag[2] = "float" -> ParseF64(t)
              [] tag[2] = "null"  -> IF t \in {<<"~">>, <<"n", "u", "l", "l">>} THEN ONull ELSE OBad
              [] OTHER -> OStr
       ELSE OStr
  ELSE ParseFromCow(t)

\* the tag classes of YCoreSchema as concrete tags
TagOf(class) == CASE class = "none" -> NoTag
                  [] class = "foreign" -> <<"!", "int">>
                  [] OTHER -> <<CoreHandle, class>>
=========================================================================
