CONSTANTS
  Limit = 2
  ExpLimit = 0
  R = 6
  MaxAnchors = 7
INIT Init
NEXT Next
INVARIANT TreeBounded
CONSTRAINT Explore
CHECK_DEADLOCK FALSE
