---------------------------- MODULE YChars ----------------------------
(* Characters and character classes (char_traits.rs). A character is a one-character TLA+ string;
   a character outside printable ASCII / tab / LF / CR is written "<uN>" with N its decimal code
   point (the harness uses the same naming), so NUL is "<u0>" and the byte-order mark "<u65279>".
   Text is a sequence of characters; reading past the end yields the pseudo-character "<eof>",
   which the scanner cannot tell from NUL (both are "z").                                      *)
EXTENDS Naturals, Integers, Sequences, TLC

EOF_ == "<eof>"
NUL == "<u0>"
BOM == "<u65279>"
Z == {EOF_, NUL}
Blank == {" ", "\t"}
Break == {"\n", "\r"}
BreakZ == Break \cup Z
BlankZ == Blank \cup BreakZ
FlowC == {",", "[", "]", "{", "}"}
Digit == {"0", "1", "2", "3", "4", "5", "6", "7", "8", "9"}
Lower == {"a", "b", "c", "d", "e", "f", "g", "h", "i", "j", "k", "l", "m", "n", "o", "p", "q", "r", "s", "t", "u", "v", "w", "x", "y", "z"}
Upper == {"A", "B", "C", "D", "E", "F", "G", "H", "I", "J", "K", "L", "M", "N", "O", "P", "Q", "R", "S", "T", "U", "V", "W", "X", "Y", "Z"}
Alpha == Digit \cup Lower \cup Upper \cup {"_", "-"}
Hex == Digit \cup {"a", "b", "c", "d", "e", "f", "A", "B", "C", "D", "E", "F"}
WordChar == Alpha \ {"_"}
UriChar == WordChar \cup {"#", ";", "/", "?", ":", "@", "&", "=", "+", "$", ",", "_", ".", "!", "~", "*", "'", "(", ")", "[", "]", "%"}
TagChar == UriChar \ (FlowC \cup {"!"})
IsAnchorChar(c) == c \notin Break /\ c # BOM /\ c \notin Blank /\ c \notin FlowC /\ c \notin Z

DigitSeq == <<"0", "1", "2", "3", "4", "5", "6", "7", "8", "9">>
DigitVal(c) == CHOOSE i \in 0..9 : DigitSeq[i + 1] = c
HexVal(c) == IF c \in Digit THEN DigitVal(c)
             ELSE IF c \in {"a", "A"} THEN 10 ELSE IF c \in {"b", "B"} THEN 11 ELSE IF c \in {"c", "C"} THEN 12
             ELSE IF c \in {"d", "D"} THEN 13 ELSE IF c \in {"e", "E"} THEN 14 ELSE 15

AsciiTab == <<" ", "!", "\"", "#", "$", "%", "&", "'", "(", ")", "*", "+", ",", "-", ".", "/", "0", "1", "2", "3", "4", "5", "6", "7", "8", "9", ":", ";", "<", "=", ">", "?", "@", "A", "B", "C", "D", "E", "F", "G", "H", "I", "J", "K", "L", "M", "N", "O", "P", "Q", "R", "S", "T", "U", "V", "W", "X", "Y", "Z", "[", "\\", "]", "^", "_", "`", "a", "b", "c", "d", "e", "f", "g", "h", "i", "j", "k", "l", "m", "n", "o", "p", "q", "r", "s", "t", "u", "v", "w", "x", "y", "z", "{", "|", "}", "~">>
\* the character with code point n, in the naming convention above
CharOfCode(n) == IF n >= 32 /\ n <= 126 THEN AsciiTab[n - 31]
                 ELSE IF n = 9 THEN "\t" ELSE IF n = 10 THEN "\n" ELSE IF n = 13 THEN "\r"
                 ELSE "<u" \o ToString(n) \o ">"
\* char::from_u32 succeeds iff not a surrogate and at most 0x10FFFF
ValidCode(n) == n >= 0 /\ n <= 1114111 /\ ~(n >= 55296 /\ n <= 57343)
=========================================================================
