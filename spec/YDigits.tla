---------------------------- MODULE YDigits ----------------------------
(* Exact arithmetic on natural numbers of any size, for 64-bit boundary questions (TLC integers are
   32-bit). A magnitude is a sequence of decimal digit VALUES (0..9), most significant first,
   canonical = no leading zero except the single digit <<0>>. Everything is schoolbook arithmetic
   whose intermediate values stay below 256.                                                    *)
EXTENDS Naturals, Sequences

LOCAL Front(q) == SubSeq(q, 1, Len(q) - 1)

\* drop leading zeros, keep at least one digit (the empty sequence denotes zero)
RECURSIVE StripZeros(_)
StripZeros(d) == IF d = <<>> THEN <<0>>
                 ELSE IF d[1] = 0 /\ Len(d) > 1 THEN StripZeros(Tail(d))
                 ELSE d

\* d * m + c   for a multiplier m <= 16 and a carry-in c <= 159; the result is not stripped
RECURSIVE MulAdd(_, _, _)
MulAdd(d, m, c) ==
  IF d = <<>> THEN (IF c = 0 THEN <<>> ELSE IF c < 10 THEN <<c>> ELSE IF c < 100 THEN <<c \div 10, c % 10>> ELSE <<c \div 100, (c \div 10) % 10, c % 10>>)
  ELSE LET x == d[Len(d)] * m + c IN Append(MulAdd(Front(d), m, x \div 10), x % 10)

\* value of the digit-value sequence ds (each element < radix <= 16) read in the given radix
RECURSIVE FromRadixAcc(_, _, _)
FromRadixAcc(ds, radix, acc) == IF ds = <<>> THEN acc ELSE FromRadixAcc(Tail(ds), radix, MulAdd(acc, radix, ds[1]))
FromRadix(ds, radix) == StripZeros(FromRadixAcc(ds, radix, <<>>))

\* comparison of canonical magnitudes: -1, 0, 1
RECURSIVE CmpSameLen(_, _)
CmpSameLen(a, b) == IF a = <<>> THEN 0
                    ELSE IF a[1] < b[1] THEN 0 - 1
                    ELSE IF a[1] > b[1] THEN 1
                    ELSE CmpSameLen(Tail(a), Tail(b))
CmpMag(a, b) == IF Len(a) < Len(b) THEN 0 - 1 ELSE IF Len(a) > Len(b) THEN 1 ELSE CmpSameLen(a, b)

Max63 == <<9, 2, 2, 3, 3, 7, 2, 0, 3, 6, 8, 5, 4, 7, 7, 5, 8, 0, 7>>   \* 2^63 - 1
Min63 == <<9, 2, 2, 3, 3, 7, 2, 0, 3, 6, 8, 5, 4, 7, 7, 5, 8, 0, 8>>   \* 2^63
\* does  (neg ? -mag : mag)  fit a two's-complement 64-bit integer
FitsI64(neg, mag) == IF neg THEN CmpMag(mag, Min63) <= 0 ELSE CmpMag(mag, Max63) <= 0

\* small magnitudes as a native TLC number (only used to cross-check the arithmetic in-model)
RECURSIVE NativeAcc(_, _)
NativeAcc(d, acc) == IF d = <<>> THEN acc ELSE NativeAcc(Tail(d), acc * 10 + d[1])
Native(d) == NativeAcc(d, 0)
=========================================================================
