CONSTANTS
  N = 4
INIT Init
NEXT Next
INVARIANT Out
CHECK_DEADLOCK FALSE
