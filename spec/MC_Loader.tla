---------------------------- MODULE MC_Loader ----------------------------
(* Every grammatical event sentence of at most L events over a small vocabulary (three scalar
   values incl. one that resolves to BadValue, anchors, aliases -- also to nodes that are still
   open and in key position --, duplicate keys, nested collections as keys, empty documents):
   the implementation-shaped loader yields what the reference Compose says the sentence denotes,
   and never reaches one of its unwrap/unreachable sites. Each sentence is printed for replay
   into the real YamlLoader.                                                                    *)
EXTENDS YLoader, YEvents, TLC, Json
CONSTANTS L, Sentinel
VARIABLES evs, acc, nextAid, l, safe
vars == <<evs, acc, nextAid, l, safe>>
SA == [t |-> "str", v |-> "a"]
S1 == [t |-> "int", v |-> "1"]
E(k, aid) == [k |-> k, aid |-> aid]
Sc(res, aid) == [k |-> "Scalar", aid |-> aid, res |-> res]
Choices == {E("StreamStart", 0), E("StreamEnd", 0), E("DocumentStart", 0), E("DocumentEnd", 0),
            E("SequenceEnd", 0), E("MappingEnd", 0)}
           \cup {Sc(r, a) : r \in {SA, S1, Bad}, a \in {0, nextAid}}
           \cup {E("SequenceStart", a) : a \in {0, nextAid}} \cup {E("MappingStart", a) : a \in {0, nextAid}}
           \cup {E("Alias", i) : i \in 1..(nextAid - 1)}
\* least number of further events needed to complete the sentence (prunes prefixes that cannot finish within L)
RECURSIVE FrameCost(_, _)
FrameCost(st, i) == IF i > Len(st) THEN 0 ELSE (IF st[i] = "MV" THEN 2 ELSE 1) + FrameCost(st, i + 1)
CloseCost(a) == IF a.ph = "pre" THEN 2 ELSE IF a.ph = "stream" THEN 1 ELSE IF a.ph = "docdone" THEN 2
                ELSE IF a.ph = "doc" THEN (IF a.st = <<>> THEN 3 ELSE FrameCost(a.st, 1) + 2) ELSE 0
Init == evs = <<>> /\ acc = AccInit /\ nextAid = 1 /\ l = LInit /\ safe = TRUE
Step == /\ acc.ph # "end" /\ Len(evs) < L
        /\ \E e \in Choices :
             LET a2 == AccStep(acc, e) IN
             /\ a2.ph # "BAD"
             /\ Len(evs) + 1 + CloseCost(a2) <= L
             /\ nextAid' = IF e.k # "Alias" /\ e.aid = nextAid THEN nextAid + 1 ELSE nextAid
             /\ nextAid' <= 3
             /\ evs' = Append(evs, e) /\ acc' = a2
             /\ safe' = (safe /\ LSafe(l, e))
             /\ l' = LStep(l, e, Sentinel)
Next == Step
Done == acc.ph = "end"
NoPanicSite == safe
Mirror == Done => SameDocs(Compose(evs), l.docs, ComposeDups(evs))
Out == Done => PrintT(<<"REPLAY", ToJson([evs |-> evs])>>)
==========================================================================
