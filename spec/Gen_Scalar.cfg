CONSTANTS
  N = 3
  Wide = FALSE
INIT Init
NEXT Next
INVARIANT Out
CHECK_DEADLOCK FALSE
