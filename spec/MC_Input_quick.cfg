CONSTANTS
  N = 3
  K = 4
  Depth = 6
INIT Init
NEXT Next
INVARIANT Refines
CHECK_DEADLOCK FALSE
