CONSTANTS
  MaxUnits = 6
  GrowDiv = 100
  MinGrow = 0
  MinCap = 8
  MinSpace = 4
SPECIFICATION Spec
INVARIANTS TypeOK OutFits
PROPERTIES Termination
CHECK_DEADLOCK FALSE
