---------------------------- MODULE Gen_Block ----------------------------
(* Generator for C05: every list of at most NL content lines (text lines, lines that look like
   YAML syntax or comments, more-indented lines, empty lines with and without spaces) x {literal,
   folded} x {strip, clip, keep} x content indentation x {auto-detected, explicit indicator} x
   header variants x context x end-of-input shape. Prints the rendered stream with the events it
   denotes; ModelAgrees cross-checks the scanner/parser model.                                  *)
EXTENDS YParser, YRenderBlock, TLC, Json
CONSTANTS NL
Kinds == { Ln(<<"a", "b">>, "text", 0), Ln(<<"#", " ", "c">>, "text", 0), Ln(<<"-", " ", "e">>, "text", 0), Ln(<<"k", ":", " ", "v">>, "text", 0),
           Ln(<<" ", "m">>, "more", 0), Ln(<<"\t", "t">>, "more", 0), Ln(<<>>, "empty", 0), Ln(<<>>, "empty", 1), Ln(<<>>, "empty", 99),      \* (99: the whole indentation, nothing else)
           Ln(<<".", ".", ".">>, "text", 0), Ln(<<"-", "-", "-", " ", "x">>, "text", 0),        \* look like document markers: content when indented
           Ln(<<"1", "2">>, "text", 0),
           Ln(<<"<u19977>", "x">>, "text", 0) }                                                    \* starts with a character whose code point ends in the byte of a tab                                                           \* reads as an integer: a block scalar is a string
LooksLikeMarker(l) == l.txt # <<>> /\ Len(l.txt) >= 3 /\ l.txt[1] = l.txt[2] /\ l.txt[2] = l.txt[3] /\ l.txt[1] \in {".", "-"}
VARIABLES ls, phase, par
vars == <<ls, phase, par>>
NoPar == [name |-> "", literal |-> TRUE, chomp |-> "", extra |-> 0, explicit |-> FALSE, order |-> 0, comment |-> FALSE, ending |-> ""]
Init == ls = <<>> /\ phase = "grow" /\ par = NoPar
Grow == phase = "grow" /\ Len(ls) < NL /\ (\E k \in Kinds : ls' = Append(ls, k)) /\ UNCHANGED <<phase, par>>
Variants == {<<FALSE, 0, FALSE>>, <<TRUE, 0, FALSE>>, <<TRUE, 1, TRUE>>, <<FALSE, 1, TRUE>>}
Choose == /\ phase = "grow"
          /\ \E name \in BCtxNames, lit \in BOOLEAN, ch \in {"strip", "clip", "keep"}, ex \in {0, 2, 13}, v \in Variants, en \in {"nl", "none", "follow"} :
               /\ (ex = 13 => (name = "mapvalue" /\ ~v[1]))                                \* the deep indentation family (>= buffer size - 2)
               /\ (name \in {"top", "topdoc"} => (v[1] => ex >= 1))                      \* at top level the indicator is the content indentation itself
               /\ ((NeedsIndicator(ls) = TRUE) => v[1])
               /\ (((\E i \in 1..Len(ls) : LooksLikeMarker(ls[i])) = TRUE) => BCtx(name).n + 1 + ex >= 1)   \* at column 0 such a line is a real marker
               /\ (v[1] => BCtx(name).n + 1 + ex - (IF BCtx(name).n < 0 THEN 0 ELSE BCtx(name).n) <= 9)
               \* an unterminated last line is a content line, or (not under keep, where the readings differ) blanks only
               /\ (en = "none" => (ls # <<>> /\ (~IsEmpty(ls[Len(ls)]) \/ (ls[Len(ls)].sp >= 1 /\ ch # "keep"))))
               /\ par' = [name |-> name, literal |-> lit, chomp |-> ch, extra |-> ex, explicit |-> v[1], order |-> v[2], comment |-> v[3], ending |-> en]
          /\ phase' = "done" /\ UNCHANGED ls
Next == Grow \/ Choose
G == RenderBlock(par.name, ls, par.literal, par.chomp, par.extra, par.explicit, par.order, par.comment, par.ending)
Core(e) == [k |-> e.k, v |-> e.v, style |-> e.style, aid |-> e.aid, tag |-> e.tag]
ModelRun(text) == LET r == RunAll(text, PInit(FALSE), <<>>) IN
                  IF r.err # "" THEN <<"ERR", r.err>> ELSE [i \in 1..Len(r.evs) |-> Core(r.evs[i])]
ModelAgrees == ModelRun(G.txt) = G.evs
Out == phase = "done" => PrintT(<<"REPLAY", ToJson([info |-> <<par.name, IF par.literal THEN "literal" ELSE "folded", par.chomp, par.ending>>, text |-> G.txt, evs |-> G.evs, model |-> ModelAgrees])>>)
==========================================================================
