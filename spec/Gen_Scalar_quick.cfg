CONSTANTS
  N = 2
  Wide = FALSE
INIT Init
NEXT Next
INVARIANT Out
CHECK_DEADLOCK FALSE
