CONSTANTS
  N = 4
  AlphaName = "dir"
INIT Init
NEXT Next
INVARIANTS PanicFree Grammar Linear Out
CHECK_DEADLOCK FALSE
