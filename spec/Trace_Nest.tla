---------------------------- MODULE Trace_Nest ----------------------------
(* Judge for C11: one record per (shape, depth, API) scenario run in its own process.           *)
EXTENDS YNest, Json, IOUtils, TLC, Sequences
Rec == ndJsonDeserialize(IOEnv.TRACE)
VARIABLE l
TInit == l = 1 /\ Init
TNext == /\ l <= Len(Rec)
         /\ LET r == Rec[l] IN
            IF r.died THEN PrintT(<<"REJECT", l, "the process was killed (stack exhaustion)">>)
            ELSE TRUE     \* (r.maxstates, the parser's state-stack height seen by the hook, lives on the heap: reported as drift by the driver, never rejected)
         /\ l' = l + 1 /\ UNCHANGED <<open, rec, failed>>
AllJudged == (l = Len(Rec) + 1) => PrintT(<<"JUDGED", Len(Rec)>>)
===========================================================================
