CONSTANTS
  L = 13
  Sentinel = FALSE
INIT Init
NEXT Next
INVARIANTS NoPanicSite Mirror Out
CHECK_DEADLOCK FALSE
