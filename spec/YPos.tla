---------------------------- MODULE YPos ----------------------------
(* Reference module for C12: what a true position is, independent of how the scanner keeps its
   mark. A position is <<index, line, col>> (index and col count characters, line starts at 1,
   col at 0). Line breaks are LF, CR, and CR LF (one break).                                    *)
EXTENDS Naturals, Sequences, TLC

\* PosTab(text)[i + 1] = <<line, col>> of the position with index i, for i in 0..Len(text)
RECURSIVE PosTabFrom(_, _, _, _, _)
PosTabFrom(text, i, line, col, acc) ==
  IF i > Len(text) THEN acc
  ELSE LET c == text[i]
           isBreak == c = "\n" \/ (c = "\r" /\ ~(i < Len(text) /\ text[i + 1] = "\n"))
           nl == IF isBreak THEN line + 1 ELSE line
           nc == IF isBreak THEN 0 ELSE col + 1
       IN PosTabFrom(text, i + 1, nl, nc, Append(acc, <<nl, nc>>))
PosTab(text) == PosTabFrom(text, 1, 1, 0, << <<1, 0>> >>)

\* the scanner treats NUL as the end of the input: the effective input ends at the first NUL
RECURSIVE FirstNul(_, _)
FirstNul(text, i) == IF i > Len(text) THEN i ELSE IF text[i] = "<u0>" THEN i ELSE FirstNul(text, i + 1)
Effective(text) == SubSeq(text, 1, FirstNul(text, 1) - 1)
InBounds(text, m) == m[1] <= Len(text)
\* exact line and column whenever the position lies before the end of the input
LineColOK(tab, text, m) == (m[1] < Len(text)) => (tab[m[1] + 1] = <<m[2], m[3]>>)
MarkOK(tab, text, m) == InBounds(text, m) /\ LineColOK(tab, text, m)
SpanOK(tab, text, a, b) == MarkOK(tab, text, a) /\ MarkOK(tab, text, b) /\ a[1] <= b[1]

\* a non-empty plain scalar on one line: the span covers exactly its text. (A node the syntax leaves out
\* is reported as the plain scalar "~" carrying the span of the following token; the value "~" is
\* therefore exempt -- the only value for which a synthesized null cannot be told from a written one.)
PlainExact(text, e) ==
  (e.k = "Scalar" /\ e.style = "plain" /\ e.v # <<>> /\ e.v # <<"~">> /\ e.a[1] < e.b[1] /\ e.a[2] = e.b[2])
    => (e.b[1] <= Len(text) /\ SubSeq(text, e.a[1] + 1, e.b[1]) = e.v)
\* a quoted scalar: the span starts at the opening quote and contains the closing quote
QuoteOf(style) == IF style = "single" THEN "'" ELSE "\""
QuotedOK(text, e) ==
  (e.k = "Scalar" /\ e.style \in {"single", "double"})
    => /\ e.a[1] < Len(text) /\ text[e.a[1] + 1] = QuoteOf(e.style)
       /\ \E j \in (e.a[1] + 2)..e.b[1] : j <= Len(text) /\ text[j] = QuoteOf(e.style)

\* nesting: a node starts no earlier than its parent; a collection ends no earlier than it starts.
\* `open` = stack of start indices of the open collections
RECURSIVE NestOK(_, _, _)
NestOK(evs, i, open) ==
  IF i > Len(evs) THEN TRUE
  ELSE LET e == evs[i] IN
       IF e.k \in {"SequenceStart", "MappingStart"}
       THEN (open = <<>> \/ open[Len(open)] <= e.a[1]) /\ NestOK(evs, i + 1, Append(open, e.a[1]))
       ELSE IF e.k \in {"SequenceEnd", "MappingEnd"}
       THEN IF open = <<>> THEN TRUE   \* ill-nested streams are C02's business
            ELSE open[Len(open)] <= e.b[1] /\ NestOK(evs, i + 1, SubSeq(open, 1, Len(open) - 1))
       ELSE IF e.k \in {"Scalar", "Alias"}
       THEN (open = <<>> \/ open[Len(open)] <= e.a[1]) /\ NestOK(evs, i + 1, open)
       ELSE NestOK(evs, i + 1, open)

\* ---- spans of marked nodes: the tree the events denote, every node carrying the span of the event that created it
\* (an alias node: the span of the Alias event, its children as the anchored node has them; an empty document: a
\* node with the span of DocumentEnd). Result: the spans in pre-order, document after document.
LOCAL Lst(q) == q[Len(q)]
LOCAL Frt(q) == SubSeq(q, 1, Len(q) - 1)
RECURSIVE AncFind(_, _, _)
AncFind(m, id, i) == IF i = 0 THEN <<>> ELSE IF m[i][1] = id THEN <<m[i][2]>> ELSE AncFind(m, id, i - 1)
RECURSIVE PreOrder(_)
RECURSIVE PreOrderAll(_, _)
PreOrderAll(ts, i) == IF i > Len(ts) THEN <<>> ELSE PreOrder(ts[i]) \o PreOrderAll(ts, i + 1)
PreOrder(t) == <<t.sp>> \o PreOrderAll(t.kids, 1)
\* state: [stack: frames [sp, kids, aid], anc: <<id, tree>> pairs, root: <<>> | <<tree>>, out: spans so far]
SpDone(c, tree, aid) ==
  LET c1 == IF aid > 0 THEN [c EXCEPT !.anc = Append(@, <<aid, tree>>)] ELSE c IN
  IF c1.stack = <<>> THEN [c1 EXCEPT !.root = <<tree>>] ELSE [c1 EXCEPT !.stack[Len(c1.stack)].kids = Append(@, tree)]
SpStep(c, e) ==
  LET sp == <<e.a, e.b>> IN
  IF e.k = "Scalar" THEN SpDone(c, [sp |-> sp, kids |-> <<>>], e.aid)
  ELSE IF e.k = "Alias" THEN LET f == AncFind(c.anc, e.aid, Len(c.anc)) IN SpDone(c, [sp |-> sp, kids |-> IF f = <<>> THEN <<>> ELSE f[1].kids], 0)
  ELSE IF e.k \in {"SequenceStart", "MappingStart"} THEN [c EXCEPT !.stack = Append(@, [sp |-> sp, kids |-> <<>>, aid |-> e.aid])]
  ELSE IF e.k \in {"SequenceEnd", "MappingEnd"} THEN (IF c.stack = <<>> THEN c ELSE LET f == Lst(c.stack) IN SpDone([c EXCEPT !.stack = Frt(@)], [sp |-> f.sp, kids |-> f.kids], f.aid))
  ELSE IF e.k = "DocumentEnd" THEN [c EXCEPT !.out = @ \o (IF c.root = <<>> THEN <<sp>> ELSE PreOrder(c.root[1])), !.root = <<>>]
  ELSE c
RECURSIVE SpRun(_, _, _)
SpRun(c, evs, i) == IF i > Len(evs) THEN c ELSE SpRun(SpStep(c, evs[i]), evs, i + 1)
MarkedSpans(evs) == SpRun([stack |-> <<>>, anc |-> <<>>, root |-> <<>>, out |-> <<>>], evs, 1).out

\* the printed form of an error shows the line and the 1-based column: among the numbers it contains (`words`: its maximal
\* digit runs, in order) the line number occurs before the column number -- whatever the wording around them
DisplayOK(words, at) ==
  \E i, j \in 1..Len(words) : i < j /\ words[i] = ToString(at[2]) /\ words[j] = ToString(at[3] + 1)

\* first reason a record is wrong, or "ok"
RECURSIVE EvsVerdict(_, _, _, _)
EvsVerdict(tab, text, evs, i) ==
  IF i > Len(evs) THEN "ok"
  ELSE LET e == evs[i] IN
       IF ~InBounds(text, e.a) \/ ~InBounds(text, e.b) THEN "position outside the input"
       ELSE IF ~LineColOK(tab, text, e.a) \/ ~LineColOK(tab, text, e.b) THEN "line/column is not the count of breaks and characters up to the index"
       ELSE IF e.a[1] > e.b[1] THEN "span starts after it ends"
       ELSE IF ~PlainExact(text, e) THEN "span of a one-line plain scalar does not cover exactly its text"
       ELSE IF ~QuotedOK(text, e) THEN "span of a quoted scalar does not start at its opening quote / contain its closing quote"
       ELSE EvsVerdict(tab, text, evs, i + 1)
=====================================================================
