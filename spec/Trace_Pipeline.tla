---------------------------- MODULE Trace_Pipeline ----------------------------
(* impl -> spec trace validation of the scanner/parser model. Records:
     [k |-> "TEXT", t]                     a new input: the model starts from PInit on it
     [k |-> "EV", ev, st]                  the next event the real parser returned, and the projection
                                            of its parser/scanner state after returning it
     [k |-> "END", err]                    the real parser returned nothing more / an error
   The model takes one Parse step per EV/END record; every difference is printed (REJECT = drift
   between model and code; after the first difference in a text the rest of that text is skipped). *)
EXTENDS YParser, Json, IOUtils
Rec == ndJsonDeserialize(IOEnv.TRACE)
VARIABLES l, text, p, live
Init == l = 1 /\ text = <<>> /\ p = PInit(FALSE) /\ live = FALSE
Idt(q) == [i \in 1..Len(q) |-> <<q[i].indent, q[i].nbe>>]
Sks(q) == [i \in 1..Len(q) |-> <<q[i].possible, q[i].required, q[i].tn, q[i].mark[1], q[i].mark[2], q[i].mark[3]>>]
\* first difference between the model state and the recorded projection, or ""
StateDiff(q, st) ==
  LET sc == q.sc s == st.scanner IN
  IF q.state # st.state THEN "parser state"
  ELSE IF Len(q.states) # st.depth THEN "state stack height"
  ELSE IF (q.tok.k # "None") # st.tok THEN "token look-ahead"
  ELSE IF <<sc.pos, sc.line, sc.col>> # s.mark THEN "scanner mark"
  ELSE IF sc.indent # s.indent \/ Idt(sc.indents) # s.indents THEN "indentation stack"
  ELSE IF sc.flow # s.flow THEN "flow level"
  ELSE IF sc.ska # s.ska THEN "simple_key_allowed"
  ELSE IF Sks(sc.sks) # s.sks THEN "simple keys"
  ELSE IF sc.parsed # s.parsed \/ Len(sc.tokens) # s.ntok \/ sc.avail # s.avail THEN "token queue"
  ELSE IF sc.lw # s.lw THEN "leading_whitespace"
  ELSE IF sc.fms # s.fms \/ sc.ifm # s.ifm THEN "implicit flow mapping state"
  ELSE IF sc.adj # s.adj THEN "adjacent_value_allowed_at"
  ELSE IF sc.ssp # s.ssp \/ sc.sep # s.sep THEN "stream start/end flags"
  ELSE IF q.nextAid # st.next_anchor THEN "anchor counter"
  ELSE ""
EvDiff(m, e) ==
  IF m.k # e.k THEN "event kind"
  ELSE IF m.a # e.a \/ m.b # e.b THEN "event span"
  ELSE IF m.k = "DocumentStart" THEN (IF <<m.style>> # <<>> /\ e.v # <<>> THEN "" ELSE "")
  ELSE IF m.v # e.v THEN "scalar value"
  ELSE IF m.style # e.style THEN "scalar style"
  ELSE IF m.aid # e.aid THEN "anchor id"
  ELSE IF m.tag # e.tag THEN "tag"
  ELSE ""
Next == /\ l <= Len(Rec)
        /\ LET e == Rec[l] IN
           IF e.k = "TEXT" THEN text' = e.t /\ p' = PInit(FALSE) /\ live' = TRUE
           ELSE IF ~live THEN UNCHANGED <<text, p, live>>
           ELSE LET r == Parse(text, p) q == r[1] IN
                /\ text' = text /\ p' = q
                /\ IF e.k = "EV"
                   THEN LET d == IF q.sc.err # "" THEN "model reports an error: " \o q.sc.err
                                 ELSE IF EvDiff(r[2], e.ev) # "" THEN EvDiff(r[2], e.ev)
                                 ELSE StateDiff(q, e.st)
                        IN IF d = "" THEN live' = TRUE ELSE live' = FALSE /\ PrintT(<<"REJECT", l, d>>)
                   ELSE \* END
                        LET d == IF e.err = <<>> THEN (IF p.state = "End" \/ q.sc.err = "" THEN "" ELSE "model reports an error where the code ends")
                                 ELSE IF q.sc.err # e.err[1].msg THEN "error message"
                                 ELSE IF q.sc.errmark # e.err[1].at THEN "error position"
                                 ELSE ""
                        IN live' = FALSE /\ (IF d = "" THEN TRUE ELSE PrintT(<<"REJECT", l, d>>))
        /\ l' = l + 1
AllJudged == (l = Len(Rec) + 1) => PrintT(<<"JUDGED", Len(Rec)>>)
===============================================================================
