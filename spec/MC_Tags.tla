---------------------------- MODULE MC_Tags ----------------------------
(* Generator for C16: every directive set (0-2 %TAG lines over a pool of handles and prefixes,
   duplicates included, optional %YAML) x every tag spelling x node kind, over 1-2 documents
   (3 with Docs = 3), keep_tags on/off. Each behaviour is rendered to text and printed with the
   outcome YTagsRef assigns: per document the tag of the root node, or that an error is expected
   in that document. With keep_tags on, a later document may carry %TAG lines of its own; a tag whose
   handle it does not declare itself is then not judged (extend-or-replace is left open).                 *)
EXTENDS YTagsRef, TLC, Json
CONSTANTS Docs, Full
H1 == <<"!">>
H2 == <<"!", "!">>
HA == <<"!", "a", "!">>
HB == <<"!", "b", "-", "c", "!">>           \* (a handle is made of word characters: letters, digits and "-")
P1 == <<"t", "a", "g", ":", "x", ".", "o", "r", "g", ",", "2", "0", "0", "0", ":">>
P2 == <<"!", "l", "o", "c", "-">>
\* a prefix written with percent-escapes (its first two characters and one later on). The property does not say whether
\* the escapes of a PREFIX are decoded: the prefix is reported either as written or decoded throughout (field alt)
P3 == <<"%", "7", "4", "%", "6", "1", "g", ":", "e", "%", "2", "E", "o", "r", "g", ",", "2", "0", "0", "0", ":">>
Handles == {H1, H2, HA, HB}
DirLists == {<<>>} \cup {<< <<h, p>> >> : h \in Handles, p \in {P1, P2, P3}} \cup {<< <<h, P1>>, <<g, P2>> >> : h \in Handles, g \in Handles}
            \cup {<< <<h, P1>>, <<h, P1>> >> : h \in Handles}       \* the same declaration twice is a duplicate too
DirListsSmall == {<<>>} \cup {<< <<h, P2>> >> : h \in Handles}
Spellings == { [form |-> "none"], [form |-> "nonspecific"], [form |-> "verbatim", v |-> <<"t", "a", "g", ":", "v", ".", "o", "r", "g", ",", "2", "0", "0", "0", ":", "t">>],
               [form |-> "secondary", s |-> <<"s", "t", "r">>], [form |-> "named", h |-> <<"a">>, s |-> <<"t">>],
               [form |-> "named", h |-> <<"b", "-", "c">>, s |-> <<"x", "%", "2", "1", "y">>], [form |-> "primary", s |-> <<"l">>],
               [form |-> "named", h |-> <<"a">>, s |-> <<"%", "2", "1">>],                                \* a suffix made of escapes only
               [form |-> "secondary", s |-> <<"%", "7", "3", "%", "7", "4", "%", "7", "2">>],
               [form |-> "verbatim", v |-> <<"!", "l", "o", "c">>],
               \* every punctuation character a tag may hold (URI characters that are neither "!" nor flow indicators)
               [form |-> "named", h |-> <<"a">>, s |-> <<"o", "'", "n", ";", "/", "?", ":", "@", "&", "=", "+", "$", "_", ".", "~", "*", "(", ")", "#">>],
               [form |-> "verbatim", v |-> <<"x", ":", "i", "t", "'", "s", ",", "[", "]", "!", "(", ")", "$">>],                                  \* a verbatim LOCAL tag: not resolved through "%TAG !"
               [form |-> "named", h |-> <<"a">>, s |-> <<"d", "%", "D", "0", "%", "9", "6", "%", "D", "F", "%", "B", "F", "%", "C", "2", "%", "8", "0", "%", "E", "0", "%", "A", "0", "%", "8", "0", "z">>],   \* lead bytes C2, D0, DF, E0
               [form |-> "named", h |-> <<"a">>, s |-> <<"c", "%", "C", "3", "%", "A", "9", "%", "E", "2", "%", "8", "2", "%", "A", "C", "%", "F", "0", "%", "9", "F", "%", "9", "8", "%", "8", "0">>] }
\* later documents: the spellings that differ in how they resolve (the percent-escape variants are exercised by the first document)
SpellingsLater == {sp \in Spellings : sp.form \notin {"named", "secondary"} \/ Len(sp.s) <= 5}
Kinds == {"scalar", "seq", "map"}
VARIABLES docs, keep, done
vars == <<docs, keep, done>>
\* bare: the document has no '---' line (only after a document that ended with '...', and without directives)
\* Full (thorough tier, run in addition to the quick configuration): every directive list and node kind also in the later
\* documents; the reserved-directive dimension (res) is then left to the quick configuration
DirListsLater == {<<>>} \cup {<< <<h, p>> >> : h \in Handles, p \in {P1, P2}} \cup {<< <<h, P1>>, <<g, P2>> >> : h \in Handles, g \in Handles}
DocChoices(first) == [dirs : (IF first THEN DirLists ELSE IF Full THEN DirListsLater ELSE DirListsSmall), yaml : BOOLEAN,
                      res : (IF Full THEN {0} ELSE IF first THEN 0..2 ELSE 0..1), sp : (IF first THEN Spellings ELSE SpellingsLater), kind : (IF first \/ Full THEN Kinds ELSE {"scalar"}),
                      bare : (IF first THEN {FALSE} ELSE BOOLEAN)]
Init == docs = <<>> /\ keep \in BOOLEAN /\ done = FALSE
AddDoc == /\ ~done /\ Len(docs) < Docs
          /\ \E d \in DocChoices(docs = <<>>) :
               /\ d.bare => (d.dirs = <<>> /\ ~d.yaml /\ d.res = 0)
               /\ (docs # <<>> /\ d.res > 0) => ~d.yaml            \* (later documents: a reserved directive alone or with %TAG lines)
               /\ d.res = 2 => d.kind = "scalar"
               /\ d.res > 0 => Len(d.dirs) <= 1          \* a reserved directive (%FOO bar baz): ignored, and never a %TAG line
               /\ docs' = Append(docs, d)
          /\ UNCHANGED <<keep, done>>
Finish == /\ ~done /\ docs # <<>> /\ done' = TRUE /\ UNCHANGED <<docs, keep>>
Next == AddDoc \/ Finish

\* ---- rendering ----
RECURSIVE DirText(_, _)
DirText(tbl, i) == IF i > Len(tbl) THEN <<>> ELSE <<"%", "T", "A", "G", " ">> \o tbl[i][1] \o <<" ">> \o tbl[i][2] \o <<"\n">> \o DirText(tbl, i + 1)
BareNodeText(d) ==
  LET sp == Spell(d.sp) pre == IF sp = <<>> THEN <<>> ELSE sp \o <<" ">> IN
  IF d.kind = "scalar" THEN pre \o <<"v", "\n">>
  ELSE IF d.kind = "seq" THEN pre \o <<"[", "a", "]", "\n">>
  ELSE (IF sp = <<>> THEN <<>> ELSE sp \o <<"\n">>) \o <<"k", ":", " ", "v", "\n">>
NodeText(d) ==
  LET sp == Spell(d.sp) pre == IF sp = <<>> THEN <<>> ELSE <<" ">> \o sp IN
  IF d.bare THEN BareNodeText(d) ELSE
  IF d.kind = "scalar" THEN <<"-", "-", "-">> \o pre \o <<" ", "v">> \o <<"\n">>
  ELSE IF d.kind = "seq" THEN <<"-", "-", "-">> \o pre \o <<" ", "[", "a", "]">> \o <<"\n">>
  ELSE <<"-", "-", "-">> \o pre \o <<"\n">> \o <<"k", ":", " ", "v">> \o <<"\n">>
\* reserved directives: 1 = %FOO bar baz; 2 = %tag !a! !loc-  (directive names are case-sensitive: this is not a %TAG line and declares nothing)
DocText(d) == (IF d.res = 1 THEN <<"%", "F", "O", "O", " ", "b", "a", "r", " ", "b", "a", "z", "\n">>
               ELSE IF d.res = 2 THEN <<"%", "t", "a", "g", " ", "!", "a", "!", " ", "!", "l", "o", "c", "-", "\n">> ELSE <<>>) \o (IF d.yaml THEN <<"%", "Y", "A", "M", "L", " ", "1", ".", "2">> \o <<"\n">> ELSE <<>>) \o DirText(d.dirs, 1) \o NodeText(d) \o <<".", ".", ".">> \o <<"\n">>
RECURSIVE StreamText(_, _)
StreamText(ds, i) == IF i > Len(ds) THEN <<>> ELSE DocText(ds[i]) \o StreamText(ds, i + 1)

\* ---- expectation: table in force for document i ----
RECURSIVE InForce(_, _, _)
InForce(ds, i, k) == \* table in force for document i (k = keep_tags)
  IF ds[i].dirs # <<>> THEN ds[i].dirs
  ELSE IF k /\ i > 1 THEN InForce(ds, i - 1, k) ELSE <<>>
\* With keep_tags on, a later document that has %TAG lines of its own: whether they extend or replace the kept
\* table is left open by the property, so a spelling is only judged when its handle is declared by the document
\* itself (then both readings agree) or when it does not go through a handle; otherwise the stream is not judged
\* from that document on ("open").
HandleOf(sp) == IF sp.form = "named" THEN <<"!">> \o sp.h \o <<"!">> ELSE IF sp.form = "secondary" THEN <<"!", "!">> ELSE IF sp.form = "primary" THEN <<"!">> ELSE <<>>
OpenCase(ds, i, k) == k /\ i > 1 /\ ds[i].dirs # <<>> /\ HandleOf(ds[i].sp) # <<>> /\ Bound(ds[i].dirs, HandleOf(ds[i].sp)) = <<>>
RECURSIVE Expect(_, _, _)
Expect(ds, i, k) ==
  IF i > Len(ds) THEN <<>>
  ELSE IF ~DirectivesOK(ds[i].dirs) THEN << [err |-> TRUE, tag |-> <<>>, alt |-> <<>>, kind |-> ds[i].kind] >>
  ELSE IF OpenCase(ds, i, k) THEN << [err |-> FALSE, tag |-> <<>>, alt |-> <<>>, kind |-> "open"] >>
  ELSE LET r == Resolve(InForce(ds, i, k), ds[i].sp) IN
       IF ~r.ok THEN << [err |-> TRUE, tag |-> <<>>, alt |-> <<>>, kind |-> ds[i].kind] >>
       ELSE << [err |-> FALSE, tag |-> r.tag, alt |-> (IF r.tag = <<>> THEN <<>> ELSE <<PctDecode(r.tag[1]), r.tag[2]>>), kind |-> ds[i].kind] >> \o Expect(ds, i + 1, k)
Out == done => PrintT(<<"REPLAY", ToJson([text |-> StreamText(docs, 1), keep |-> keep, expect |-> Expect(docs, 1, keep)])>>)
=======================================================================
