CONSTANTS
  Limit = 3
  ExpLimit = 6
  R = 6
  MaxAnchors = 4
INIT Init
NEXT Next
INVARIANT TreeBounded
CHECK_DEADLOCK FALSE
