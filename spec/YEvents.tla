---------------------------- MODULE YEvents ----------------------------
(* Reference module: the YAML event sentence grammar (property C02), as a prefix-closed acceptor.

     stream := StreamStart doc* StreamEnd
     doc    := DocumentStart node DocumentEnd
     node   := Scalar | Alias | SequenceStart node* SequenceEnd
             | MappingStart (node node)* MappingEnd

   plus the anchor discipline: anchor ids are positive, no two anchored nodes of one document
   share an id, every alias id was handed out earlier in the stream.

   An event is a record with at least  k (kind)  and  aid (anchor id, 0 = none; for Alias the id
   referred to).  The acceptor state is a record
     ph    : "pre" | "stream" | "doc" | "docdone" | "end" | "BAD"
     st    : stack of "S" (in sequence) / "MK" (mapping, key expected) / "MV" (value expected)
     docA  : anchor ids used by anchored nodes of the current document
     allA  : anchor ids handed out so far in the stream
     why   : reason of the first rejection (for diagnostics)                                  *)
EXTENDS Naturals, Sequences

Kinds == {"StreamStart", "StreamEnd", "DocumentStart", "DocumentEnd", "Alias", "Scalar",
          "SequenceStart", "SequenceEnd", "MappingStart", "MappingEnd"}

AccInit == [ph |-> "pre", st |-> <<>>, docA |-> {}, allA |-> {}, why |-> ""]

LOCAL Last(q) == q[Len(q)]
LOCAL Front(q) == SubSeq(q, 1, Len(q) - 1)
Reject(a, why) == IF a.ph = "BAD" THEN a ELSE [a EXCEPT !.ph = "BAD", !.why = why]

\* a node has just been completed inside the current container (or at document level)
NodeDone(a) ==
  IF a.st = <<>> THEN [a EXCEPT !.ph = "docdone"]
  ELSE IF Last(a.st) = "S" THEN a
  ELSE IF Last(a.st) = "MK" THEN [a EXCEPT !.st = Front(@) \o <<"MV">>]
  ELSE [a EXCEPT !.st = Front(@) \o <<"MK">>]

\* registering the anchor of a node that starts here
Anchor(a, aid) ==
  IF aid = 0 THEN a
  ELSE IF aid \in a.docA THEN Reject(a, "two anchored nodes of a document share an id")
  ELSE [a EXCEPT !.docA = @ \cup {aid}, !.allA = @ \cup {aid}]

AccStep(a, e) ==
  LET k == e.k IN
  IF a.ph = "BAD" THEN a
  ELSE IF k \notin Kinds THEN Reject(a, "unknown event kind")
  ELSE IF k = "StreamStart" THEN (IF a.ph = "pre" THEN [a EXCEPT !.ph = "stream"] ELSE Reject(a, "StreamStart not first"))
  ELSE IF k = "StreamEnd" THEN (IF a.ph = "stream" THEN [a EXCEPT !.ph = "end"] ELSE Reject(a, "StreamEnd outside stream level"))
  ELSE IF k = "DocumentStart" THEN (IF a.ph = "stream" THEN [a EXCEPT !.ph = "doc", !.docA = {}] ELSE Reject(a, "DocumentStart outside stream level"))
  ELSE IF k = "DocumentEnd" THEN (IF a.ph = "docdone" THEN [a EXCEPT !.ph = "stream"] ELSE Reject(a, "DocumentEnd without exactly one root node"))
  ELSE IF a.ph # "doc" THEN Reject(a, "node event outside a document or after its root node")
  ELSE IF k = "Scalar" THEN NodeDone(Anchor(a, e.aid))
  ELSE IF k = "Alias" THEN
         (IF e.aid = 0 THEN Reject(a, "alias id not positive")
          ELSE IF e.aid \notin a.allA THEN Reject(a, "alias id never handed out")
          ELSE NodeDone(a))
  ELSE IF k = "SequenceStart" THEN LET b == Anchor(a, e.aid) IN IF b.ph = "BAD" THEN b ELSE [b EXCEPT !.st = Append(@, "S")]
  ELSE IF k = "MappingStart" THEN LET b == Anchor(a, e.aid) IN IF b.ph = "BAD" THEN b ELSE [b EXCEPT !.st = Append(@, "MK")]
  ELSE IF k = "SequenceEnd" THEN
         (IF a.st # <<>> /\ Last(a.st) = "S" THEN NodeDone([a EXCEPT !.st = Front(@)]) ELSE Reject(a, "SequenceEnd does not close a sequence"))
  ELSE \* MappingEnd
         (IF a.st # <<>> /\ Last(a.st) = "MK" THEN NodeDone([a EXCEPT !.st = Front(@)])
          ELSE Reject(a, "MappingEnd does not close a mapping with an even number of nodes"))

RECURSIVE AccRun(_, _, _)
AccRun(a, evs, i) == IF i > Len(evs) \/ a.ph = "BAD" THEN a ELSE AccRun(AccStep(a, evs[i]), evs, i + 1)

\* the verdicts of C02
IsPrefix(evs) == AccRun(AccInit, evs, 1).ph # "BAD"
IsSentence(evs) == AccRun(AccInit, evs, 1).ph = "end"
\* a delivered sequence: prefix always; whole sentence when no error was reported
WellFormedDelivery(evs, errored) ==
  LET a == AccRun(AccInit, evs, 1) IN
  a.ph # "BAD" /\ (~errored => a.ph = "end")
Verdict(evs, errored) ==
  LET a == AccRun(AccInit, evs, 1) IN
  IF a.ph = "BAD" THEN a.why
  ELSE IF ~errored /\ a.ph # "end" THEN "no error reported but the sentence is incomplete"
  ELSE "ok"
=========================================================================
