---------------------------- MODULE Trace_Events ----------------------------
(* Judge of recorded event deliveries (C02). Every record of the NDJSON trace is one distinct
   abstracted delivery of the real parser:  [evs |-> <<[k, aid], ...>>, end |-> "ok" | "err"].
   The acceptor of YEvents decides; a rejected record is printed and judging continues.        *)
EXTENDS YEvents, Json, IOUtils, TLC
Rec == ndJsonDeserialize(IOEnv.TRACE)
VARIABLE l
Init == l = 1
Next == /\ l <= Len(Rec)
        /\ LET v == Verdict(Rec[l].evs, Rec[l].end # "ok") IN
           IF v = "ok" THEN TRUE ELSE PrintT(<<"REJECT", l, v>>)
        /\ l' = l + 1
AllJudged == (l = Len(Rec) + 1) => PrintT(<<"JUDGED", Len(Rec)>>)
=============================================================================
