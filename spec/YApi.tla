---------------------------- MODULE YApi ----------------------------
(* The parser's public pull interface (peek / next_event) and push interface (load) over an
   ABSTRACT event source (property C17).

   A source is a finite sequence `items`; every item is a record with a field `kind`:
     [kind |-> "ev", ...]   an event (the last one may be the StreamEnd event, field  last = TRUE)
     [kind |-> "err", ...]  the error that ends the stream instead
   NONE = [kind |-> "none"] is "the call returned nothing".

   Reference semantics (what C17 states):
     next returns the items of plain iteration one after the other; peek returns what the following
     next returns and consumes nothing; after StreamEnd has been returned both return nothing.
     After an error has been returned by next the consumer stops: nothing is required ("dead").

   Implementation-shaped model (parser.rs: current, stream_end_emitted, error latch): ApiPeek/ApiNext.
   MC_Api checks that the two agree on every call history.                                       *)
EXTENDS Naturals, Sequences

NONE == [kind |-> "none"]
IsEnd(it) == it.kind = "ev" /\ it.last

\* ---- reference ----
RefInit == [i |-> 0, dead |-> FALSE]
RefItem(items, j) == IF j <= Len(items) THEN items[j] ELSE NONE
RefPeek(items, r) == RefItem(items, r.i + 1)
RefNext(items, r) ==
  LET it == RefItem(items, r.i + 1) IN
  <<[i |-> IF it.kind = "none" THEN r.i ELSE r.i + 1, dead |-> r.dead \/ it.kind = "err"], it>>

\* ---- implementation-shaped: Parser { current, stream_end_emitted, error } over parse() ----
\* parse(): the n-th call yields items[n]; after the StreamEnd item the state machine is in State::End and
\* yields StreamEnd again; after an error the latch yields the same error again.
\* (Latch = FALSE is the code before the repair "a parser that returned an error keeps returning that
\* error": a second attempt after a failure re-ran the state machine and reported a different error;
\* kept as the negative control of the self-test.)
RawParseL(items, n, latch) ==
  IF n <= Len(items) THEN items[n]
  ELSE IF items[Len(items)].kind = "err" /\ ~latch THEN [kind |-> "err", id |-> 0]
  ELSE items[Len(items)]
RawParse(items, n) == RawParseL(items, n, TRUE)
ApiInit == [n |-> 0, cur |-> NONE, see |-> FALSE]
\* returns <<state', result>>
ApiPeekL(items, a, latch) ==
  IF a.cur.kind # "none" THEN <<a, a.cur>>
  ELSE IF a.see THEN <<a, NONE>>
  ELSE LET it == RawParseL(items, a.n + 1, latch) IN
       IF it.kind = "ev" THEN <<[a EXCEPT !.n = @ + 1, !.cur = it], it>>
       ELSE <<[a EXCEPT !.n = @ + 1], it>>                   \* an error is returned, not cached (it is latched in parse)
ApiNextL(items, a, latch) ==
  IF a.see THEN <<a, NONE>>
  ELSE LET r == IF a.cur.kind # "none" THEN <<[a EXCEPT !.cur = NONE], a.cur>>
                ELSE <<[a EXCEPT !.n = @ + 1], RawParseL(items, a.n + 1, latch)>>
       IN <<[r[1] EXCEPT !.see = IsEnd(r[2])], r[2]>>
ApiPeek(items, a) == ApiPeekL(items, a, TRUE)
ApiNext(items, a) == ApiNextL(items, a, TRUE)

\* ---- push interface (reference) ----
RECURSIVE Flatten(_)
Flatten(calls) == IF calls = <<>> THEN <<>> ELSE Head(calls) \o Flatten(Tail(calls))
\* with multi = false every call delivers one document (the first call also StreamStart; the last
\* call StreamEnd alone, or StreamStart StreamEnd for an empty stream); a failing last call may be cut short
Kinds(evs) == [j \in 1..Len(evs) |-> evs[j].k]
CountK(evs, k) == Len(SelectSeq(evs, LAMBDA e : e.k = k))
WholeDocs(evs) == CountK(evs, "DocumentStart") = CountK(evs, "DocumentEnd")
CallShapeOK(evs, first, lastFailed) ==
  LET n == Len(evs) body == IF first /\ n > 0 /\ evs[1].k = "StreamStart" THEN Tail(evs) ELSE evs IN
  /\ (first /\ ~lastFailed) => (n > 0 /\ evs[1].k = "StreamStart")
  /\ CountK(body, "DocumentStart") <= 1
  /\ CountK(body, "StreamStart") = 0
  /\ (CountK(body, "StreamEnd") = 1 => (Len(body) = 1))
  /\ lastFailed \/ (body # <<>> /\ (body[1].k = "StreamEnd" \/ (body[1].k = "DocumentStart" /\ body[Len(body)].k = "DocumentEnd" /\ CountK(body, "DocumentEnd") = 1)))
RECURSIVE CallsOK(_, _, _)
CallsOK(calls, j, failed) ==
  IF j > Len(calls) THEN TRUE
  ELSE CallShapeOK(calls[j], j = 1, failed /\ j = Len(calls)) /\ CallsOK(calls, j + 1, failed)
=====================================================================
