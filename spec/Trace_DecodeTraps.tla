---------------------------- MODULE Trace_DecodeTraps ----------------------------
(* Judge of C18's "with ignore / replace / callback traps it continues as configured". One NDJSON record per case:
     [valid |-> << chars, ... >>   the well-formed segments of a double-quoted scalar, in order,
      bad   |-> << <<bytes>>, ... >>  the malformed byte groups between them (each one malformed sequence),
      runs  |-> [ignore, replace, call, callhex |-> [res |-> "str" | "error" | "other" | "panic", s |-> chars]],
      slices |-> << <<bytes>>, ... >>  what the recording callback was shown ]
   What "as configured" means: ignore drops the malformed groups and nothing else; replace puts one U+FFFD where each group
   was; a continuing callback is called once per group, is shown exactly the bytes of that group, and what it writes
   ('?') stands where the group was. Rejections are printed as <<"REJECT", l, reason>>.                                  *)
EXTENDS Naturals, Sequences, Json, IOUtils, TLC
Rec == ndJsonDeserialize(IOEnv.TRACE)
VARIABLE l
RECURSIVE Flat(_, _), Joined(_, _, _)
Flat(segs, i) == IF i > Len(segs) THEN <<>> ELSE segs[i] \o Flat(segs, i + 1)
\* the segments with `mark` between them
Joined(segs, i, mark) == IF i > Len(segs) THEN <<>> ELSE segs[i] \o (IF i < Len(segs) THEN <<mark>> ELSE <<>>) \o Joined(segs, i + 1, mark)
Verdict(r) ==
  IF \E t \in {"ignore", "replace", "call", "callhex"} : r.runs[t].res # "str" THEN "a continuing trap did not yield the document"
  ELSE IF r.runs.ignore.s # Flat(r.valid, 1) THEN "ignore: the text is not the well-formed parts in order"
  ELSE IF r.runs.replace.s # Joined(r.valid, 1, "<u65533>") THEN "replace: not one U+FFFD where each malformed group was"
  ELSE IF r.runs.call.s # Joined(r.valid, 1, "?") \/ r.runs.callhex.s # Joined(r.valid, 1, "?") THEN "callback: what it wrote does not stand where each malformed group was"
  ELSE IF r.slices # r.bad THEN "callback: it was not shown the bytes of each malformed group"
  ELSE "ok"
Init == l = 1
Next == /\ l <= Len(Rec)
        /\ LET v == Verdict(Rec[l]) IN IF v = "ok" THEN TRUE ELSE PrintT(<<"REJECT", l, v>>)
        /\ l' = l + 1
AllJudged == (l = Len(Rec) + 1) => PrintT(<<"JUDGED", Len(Rec)>>)
=================================================================================
