---------------------------- MODULE Trace_Rel ----------------------------
(* Judge for the relational properties: records
     [k |-> "SAMERUN", x, y]        C10: two back-ends on the same characters
     [k |-> "MODIDX", x, y]         C14: a CR-free text and one of its CRLF / CR variants
     [k |-> "CONCAT", a, b, ab]     C15: A, B and A ++ "...\n" ++ B                              *)
EXTENDS YRel, Json, IOUtils, TLC
Rec == ndJsonDeserialize(IOEnv.TRACE)
VARIABLE l
Init == l = 1
Verdict(r) == IF r.k = "SAMERUN" THEN SameRunWhy(r.x, r.y)
              ELSE IF r.k = "MODIDX" THEN SameModuloIndexWhy(r.x, r.y)
              ELSE ConcatWhy(r.a, r.b, r.ab)
Next == /\ l <= Len(Rec)
        /\ LET v == Verdict(Rec[l]) IN IF v = "ok" THEN TRUE ELSE PrintT(<<"REJECT", l, v>>)
        /\ l' = l + 1
AllJudged == (l = Len(Rec) + 1) => PrintT(<<"JUDGED", Len(Rec)>>)
==========================================================================
