---------------------------- MODULE YPlainSafe ----------------------------
(* REFERENCE module (what YAML 1.2.2 says, independent of the code): when is a string safe to
   write as a plain scalar in a given position of a block-style document, i.e. the YAML reading
   of that text in that position is one plain scalar whose content is the string itself and which
   the core schema resolves to a string.

   Positions (all block context, as the emitter writes them):
     "root"   the text follows "---" LF at column 0                     (block-in, multi-line allowed)
     "item"   the text follows "- "                                     (block-in)
     "value"  the text follows "key: "                                  (block-out)
     "key"    the text starts a line at column 0 and is followed by ":"  (block-key, one line)

   Productions used: [22] c-indicator, [27] nb-char, [34] ns-char, [126] ns-plain-first,
   [127] ns-plain-safe (block contexts: ns-char), [130] ns-plain-char, [133] ns-plain-one-line,
   [206] c-forbidden (document markers at column 0), section 10.3.2 (core schema tag resolution).
   The definition is conservative where it matters for soundness of the lemma
        NeedQuotes(s)  <=  ~PlainSafe(s, pos)
   i.e. PlainSafe never holds for a text whose reading is in doubt.                             *)
EXTENDS YChars

LOCAL PSStarts(s, p) == Len(s) >= Len(p) /\ SubSeq(s, 1, Len(p)) = p
LOCAL PSAll(s, C) == \A i \in 1..Len(s) : s[i] \in C

CIndicator == {"-", "?", ":", ",", "[", "]", "{", "}", "#", "&", "*", "!", "|", ">", "'", "\"", "%", "@", "`"}

\* ---- core schema (10.3.2), as predicates on Text ------------------------------------------
CoreNull(s) == s \in {<<>>, <<"~">>, <<"n", "u", "l", "l">>, <<"N", "u", "l", "l">>, <<"N", "U", "L", "L">>}
CoreBool(s) == s \in {<<"t", "r", "u", "e">>, <<"T", "r", "u", "e">>, <<"T", "R", "U", "E">>,
                      <<"f", "a", "l", "s", "e">>, <<"F", "a", "l", "s", "e">>, <<"F", "A", "L", "S", "E">>}
LOCAL Unsigned(s) == IF s # <<>> /\ s[1] \in {"+", "-"} THEN Tail(s) ELSE s
LOCAL Digits1(s) == s # <<>> /\ PSAll(s, Digit)
CoreInt(s) ==
  \/ Digits1(Unsigned(s))                                                        \* [-+]? [0-9]+
  \/ (PSStarts(s, <<"0", "o">>) /\ Len(s) > 2 /\ PSAll(SubSeq(s, 3, Len(s)), {"0", "1", "2", "3", "4", "5", "6", "7"}))
  \/ (PSStarts(s, <<"0", "x">>) /\ Len(s) > 2 /\ PSAll(SubSeq(s, 3, Len(s)), Hex))
\* [-+]? ( \. [0-9]+ | [0-9]+ ( \. [0-9]* )? ) ( [eE] [-+]? [0-9]+ )?
LOCAL ExpAt(r) == IF \E i \in 1..Len(r) : r[i] \in {"e", "E"} THEN CHOOSE i \in 1..Len(r) : r[i] \in {"e", "E"} /\ \A j \in 1..(i - 1) : r[j] \notin {"e", "E"} ELSE 0
LOCAL DotAt(m) == IF \E i \in 1..Len(m) : m[i] = "." THEN CHOOSE i \in 1..Len(m) : m[i] = "." /\ \A j \in 1..(i - 1) : m[j] # "." ELSE 0
LOCAL CoreMantissa(m) ==
  LET d == DotAt(m) IN
  IF d = 0 THEN Digits1(m)
  ELSE IF d = 1 THEN Digits1(Tail(m))
  ELSE Digits1(SubSeq(m, 1, d - 1)) /\ PSAll(SubSeq(m, d + 1, Len(m)), Digit)
CoreFloat(s) ==
  \/ LET r == Unsigned(s)  e == ExpAt(r) IN
     IF e = 0 THEN CoreMantissa(r)
     ELSE CoreMantissa(SubSeq(r, 1, e - 1)) /\ Digits1(Unsigned(SubSeq(r, e + 1, Len(r))))
  \/ Unsigned(s) \in {<<".", "i", "n", "f">>, <<".", "I", "n", "f">>, <<".", "I", "N", "F">>}
  \/ s \in {<<".", "n", "a", "n">>, <<".", "N", "a", "N">>, <<".", "N", "A", "N">>}
CoreIsString(s) == ~CoreNull(s) /\ ~CoreBool(s) /\ ~CoreInt(s) /\ ~CoreFloat(s)

\* ---- plain scalar syntax in block context -----------------------------------------------------
\* [27] nb-char = c-printable - b-char - BOM; the non-printable characters of 5.1 written out
\* (C0 without tab/LF/CR, DEL, C1 without NEL, U+FFFE, U+FFFF; surrogates cannot occur in text)
NonPrintable == {CharOfCode(n) : n \in (0..8) \cup {11, 12} \cup (14..31) \cup (127..132) \cup (134..159) \cup {65534, 65535}}
NbChar(c) == c \notin Break /\ c # BOM /\ c \notin NonPrintable
NsChar(c) == NbChar(c) /\ c \notin Blank
PlainFirstOK(s) == \* [126] ns-plain-first(block)
  /\ NsChar(s[1])
  /\ \/ s[1] \notin CIndicator
     \/ (s[1] \in {"?", ":", "-"} /\ Len(s) >= 2 /\ NsChar(s[2]))
PlainCharsOK(s) == \* [130] ns-plain-char(block) at every later position, blanks only inside
  /\ \A i \in 1..Len(s) : NbChar(s[i])
  /\ NsChar(s[Len(s)])
  /\ \A i \in 1..Len(s) : s[i] = ":" => (i < Len(s) /\ NsChar(s[i + 1]))
  /\ \A i \in 2..Len(s) : s[i] = "#" => NsChar(s[i - 1])
MarkerAtLineStart(s) == \* [206] c-forbidden: the text starts a line with a document marker
  /\ (PSStarts(s, <<"-", "-", "-">>) \/ PSStarts(s, <<".", ".", ".">>))
  /\ (Len(s) = 3 \/ s[4] \in Blank)
AtColumnZero(pos) == pos \in {"root", "key"}

PlainSafe(s, pos) ==
  /\ s # <<>>
  /\ PlainFirstOK(s)
  /\ PlainCharsOK(s)
  /\ (AtColumnZero(pos) => ~MarkerAtLineStart(s))
  /\ (pos = "key" => Len(s) <= 1024)
  /\ CoreIsString(s)
=========================================================================
