---------------------------- MODULE YDamage ----------------------------
(* REFERENCE module for C06: damage operators. Each yields a stream that is ill-formed by YAML 1.2
   whatever precedes it (DESIGN.md appendix A.9): the damaged part is a fresh final document (or
   stream tail) placed after a well-formed stream, either directly after a document start marker or
   nested as the last entry of a block sequence in a mapping. The expected outcome is an error
   instead of a complete event stream.                                                          *)
EXTENDS Naturals, Sequences

DamageOps == <<
  [name |-> "unclosed-double-quote", kind |-> "inline", frag |-> <<"\"", "a", "b", "c">>],
  [name |-> "unclosed-single-quote", kind |-> "inline", frag |-> <<"'", "a", "b", "c">>],
  [name |-> "unclosed-flow-seq", kind |-> "inline", frag |-> <<"[", "a", ",", " ", "b">>],
  [name |-> "unclosed-flow-map", kind |-> "inline", frag |-> <<"{", "a", ":", " ", "b">>],
  [name |-> "unclosed-nested-flow", kind |-> "inline", frag |-> <<"[", "a", ",", " ", "{", "b", ":", " ", "c", "]">>],
  [name |-> "mismatched-closer-seq", kind |-> "inline", frag |-> <<"[", "a", ",", " ", "b", "}">>],
  [name |-> "mismatched-closer-map", kind |-> "inline", frag |-> <<"{", "a", ":", " ", "b", "]">>],
  [name |-> "unknown-escape", kind |-> "inline", frag |-> <<"\"", "a", "\\", "q", "b", "\"">>],
  [name |-> "truncated-x-escape", kind |-> "inline", frag |-> <<"\"", "a", "\\", "x", "4", "\"">>],
  [name |-> "truncated-u-escape", kind |-> "inline", frag |-> <<"\"", "a", "\\", "u", "1", "2", "\"">>],
  [name |-> "nonhex-escape", kind |-> "inline", frag |-> <<"\"", "a", "\\", "x", "Z", "Z", "\"">>],
  [name |-> "escape-plus-sign-x", kind |-> "inline", frag |-> <<"\"", "\\", "x", "+", "1", "\"">>],
  [name |-> "escape-plus-sign-u", kind |-> "inline", frag |-> <<"\"", "a", "\\", "u", "+", "3", "b", "c", "\"">>],
  [name |-> "escape-plus-sign-U", kind |-> "inline", frag |-> <<"\"", "\\", "U", "+", "0", "0", "1", "F", "6", "0", "0", "\"">>],
  [name |-> "escape-minus-sign", kind |-> "inline", frag |-> <<"\"", "\\", "x", "-", "1", "\"">>],
  [name |-> "escape-blank-digit", kind |-> "inline", frag |-> <<"\"", "\\", "u", " ", "0", "4", "1", "\"">>],
  [name |-> "surrogate-escape", kind |-> "inline", frag |-> <<"\"", "\\", "u", "D", "8", "0", "0", "\"">>],
  [name |-> "surrogate-escape-low", kind |-> "inline", frag |-> <<"\"", "a", "\\", "U", "0", "0", "0", "0", "d", "f", "f", "f", "\"">>],
  [name |-> "escape-beyond-unicode", kind |-> "inline", frag |-> <<"\"", "\\", "U", "0", "0", "1", "1", "0", "0", "0", "0", "\"">>],
  [name |-> "alias-without-anchor", kind |-> "inline", frag |-> <<"*", "n", "o", "p", "e">>],
  [name |-> "undeclared-handle", kind |-> "inline", frag |-> <<"!", "z", "z", "!", "t", " ", "v">>],
  [name |-> "second-root-same-line", kind |-> "inline", frag |-> <<"\"", "a", "\"", " ", "\"", "b", "\"">>],
  [name |-> "second-root-after-flow", kind |-> "inline", frag |-> <<"[", "a", "]", " ", "[", "b", "]">>],
  [name |-> "second-root-after-map", kind |-> "inline", frag |-> <<"{", "a", ":", " ", "b", "}", " ", "c">>],
  [name |-> "tab-indentation", kind |-> "doc", frag |-> <<"k", ":", "\n", "\t", "j", ":", " ", "v", "\n">>],
  [name |-> "tab-indentation-seq", kind |-> "doc", frag |-> <<"k", ":", "\n", "\t", "-", " ", "v", "\n">>],
  [name |-> "entry-between-levels-seq", kind |-> "doc", frag |-> <<"k", ":", "\n", " ", " ", " ", " ", "-", " ", "a", "\n", " ", " ", "-", " ", "b", "\n">>],
  [name |-> "entry-between-levels-map", kind |-> "doc", frag |-> <<"k", ":", "\n", " ", " ", " ", " ", "a", ":", " ", "1", "\n", " ", " ", "b", ":", " ", "2", "\n">>],
  [name |-> "entry-between-levels-nested", kind |-> "doc", frag |-> <<"-", " ", "k", ":", "\n", " ", " ", " ", " ", " ", " ", "a", ":", " ", "1", "\n", " ", " ", " ", " ", "b", ":", " ", "2", "\n">>],
  [name |-> "flow-not-deeper-content", kind |-> "doc", frag |-> <<"k", ":", " ", "[", "a", ",", "\n", "b", "]", "\n">>],
  [name |-> "flow-not-deeper-nested", kind |-> "doc", frag |-> <<"k", ":", "\n", " ", " ", "j", ":", " ", "[", "a", ",", "\n", " ", " ", "b", "]", "\n">>],
  [name |-> "flow-not-deeper-map", kind |-> "doc", frag |-> <<"k", ":", " ", "{", "a", ":", " ", "1", ",", "\n", "b", ":", " ", "2", "}", "\n">>],
  [name |-> "flow-closer-not-deeper-quoted", kind |-> "doc", frag |-> <<"k", ":", " ", "[", "\"", "a", "\"", "\n", "]", "\n">>],
  [name |-> "flow-not-deeper-after-plain-nested-seq", kind |-> "doc", frag |-> <<"k", ":", " ", "[", "a", ",", "\n", "[", "b", "]", "]", "\n">>],
  [name |-> "flow-not-deeper-after-plain-quoted", kind |-> "doc", frag |-> <<"k", ":", " ", "[", "a", ",", "\n", "\"", "b", "\"", "]", "\n">>],
  [name |-> "flow-not-deeper-plain-continuation", kind |-> "doc", frag |-> <<"k", ":", " ", "[", "a", "\n", "b", "]", "\n">>],
  [name |-> "flow-not-deeper-comma", kind |-> "doc", frag |-> <<"k", ":", " ", "[", "a", "\n", ",", " ", "b", "]", "\n">>],
  [name |-> "flow-not-deeper-in-seq", kind |-> "doc", frag |-> <<"-", " ", "[", "a", ",", "\n", "{", "b", ":", " ", "c", "}", "]", "\n">>],
  [name |-> "flow-closer-not-deeper-plain", kind |-> "doc", frag |-> <<"k", ":", " ", "[", "a", "\n", "]", "\n">>],
  [name |-> "quoted-key-spanning-lines", kind |-> "doc", frag |-> <<"\"", "a", "\n", " ", "b", "\"", ":", " ", "v", "\n">>],
  [name |-> "single-quoted-key-spanning-lines", kind |-> "doc", frag |-> <<"'", "a", "\n", " ", "b", "'", ":", " ", "v", "\n">>],
  [name |-> "key-longer-than-1024", kind |-> "doc", frag |-> [i \in 1..1025 |-> "k"] \o <<":", " ", "v", "\n">>],
  [name |-> "second-root-next-line", kind |-> "doc", frag |-> <<"\"", "a", "\"", "\n", "\"", "b", "\"", "\n">>],
  [name |-> "second-root-block", kind |-> "doc", frag |-> <<"-", " ", "a", "\n", "b", "\n">>],
  [name |-> "repeated-yaml-directive", kind |-> "stream", frag |-> <<"%", "Y", "A", "M", "L", " ", "1", ".", "2", "\n", "%", "Y", "A", "M", "L", " ", "1", ".", "2", "\n", "-", "-", "-", " ", "a", "\n">>],
  [name |-> "directive-without-start", kind |-> "stream", frag |-> <<"%", "Y", "A", "M", "L", " ", "1", ".", "2", "\n", "a", "\n">>],
  [name |-> "tag-directive-without-start", kind |-> "stream", frag |-> <<"%", "T", "A", "G", " ", "!", "e", "!", " ", "t", "a", "g", ":", "e", ":", "\n", "a", ":", " ", "b", "\n">>],
  [name |-> "content-after-document-end", kind |-> "stream", frag |-> <<"-", "-", "-", " ", "a", "\n", ".", ".", ".", " ", "b", "\n">>],
  [name |-> "handle-of-previous-document-bare", kind |-> "stream", frag |-> <<"%", "T", "A", "G", " ", "!", "e", "!", " ", "t", "a", "g", ":", "e", ":", "\n", "-", "-", "-", " ", "!", "e", "!", "x", " ", "a", "\n", ".", ".", ".", "\n", "!", "e", "!", "y", " ", "b", "\n">>],
  [name |-> "handle-of-previous-document-explicit", kind |-> "stream", frag |-> <<"%", "T", "A", "G", " ", "!", "e", "!", " ", "t", "a", "g", ":", "e", ":", "\n", "-", "-", "-", " ", "a", "\n", "-", "-", "-", " ", "!", "e", "!", "y", " ", "b", "\n">>],
  [name |-> "flow-closer-not-deeper-anchored-entry", kind |-> "doc", frag |-> <<"-", " ", "&", "a", " ", "[", "x", ",", "\n", "]", "\n">>],
  [name |-> "flow-closer-not-deeper-tagged-entry", kind |-> "doc", frag |-> <<"-", " ", "!", "t", " ", "[", "x", ",", "\n", "]", "\n">>],
  [name |-> "flow-not-deeper-quoted-anchored-entry", kind |-> "doc", frag |-> <<"-", " ", "&", "a", " ", "{", "x", ":", " ", "1", ",", "\n", "\"", "y", "\"", ":", " ", "2", "}", "\n">>],
  [name |-> "flow-not-deeper-nested-anchored-entry", kind |-> "doc", frag |-> <<"-", " ", "&", "a", " ", "[", "x", ",", "\n", "[", "y", "]", "]", "\n">>],
  [name |-> "flow-closer-not-deeper-entry", kind |-> "doc", frag |-> <<"-", " ", "[", "x", ",", "\n", "]", "\n">>],
  [name |-> "flow-closer-not-deeper-explicit-key", kind |-> "doc", frag |-> <<"?", " ", "[", "a", ",", "\n", "]", "\n", ":", " ", "c", "\n">>],
  [name |-> "flow-not-deeper-quoted-explicit-key", kind |-> "doc", frag |-> <<"?", " ", "{", "a", ":", " ", "1", ",", "\n", "\"", "b", "\"", ":", " ", "2", "}", "\n", ":", " ", "c", "\n">>],
  [name |-> "flow-not-deeper-anchored-entry-nested", kind |-> "doc", frag |-> <<"k", ":", "\n", " ", " ", "-", " ", "&", "a", " ", "{", "x", ":", " ", "1", ",", "\n", " ", " ", "\"", "y", "\"", ":", " ", "2", "}", "\n">>],
  [name |-> "flow-closer-not-deeper-anchored-value", kind |-> "doc", frag |-> <<"k", ":", " ", "&", "a", " ", "[", "x", ",", "\n", "]", "\n">>],
  [name |-> "reserved-directive-without-start-flow", kind |-> "stream", frag |-> <<"%", "F", "O", "O", " ", "x", "\n", "[", "b", "]", "\n">>],
  [name |-> "reserved-directive-without-start-quoted", kind |-> "stream", frag |-> <<"%", "F", "O", "O", " ", "x", "\n", "\"", "s", "\"", "\n">>],
  [name |-> "reserved-directive-without-start-plain", kind |-> "stream", frag |-> <<"%", "F", "O", "O", " ", "x", "\n", "b", "\n">>],
  [name |-> "reserved-directive-without-start-blank-line", kind |-> "stream", frag |-> <<"%", "F", "O", "O", " ", "x", "\n", "\n", "a", ":", " ", "1", "\n">>],
  [name |-> "reserved-directive-without-start-comment", kind |-> "stream", frag |-> <<"%", "F", "O", "O", " ", "x", "\n", "#", " ", "c", "\n", "-", " ", "a", "\n">>],
  [name |-> "reserved-directive-without-start-empty", kind |-> "stream", frag |-> <<"%", "F", "O", "O", " ", "x", "\n">>],
  [name |-> "reserved-directive-without-start-later-document", kind |-> "stream", frag |-> <<"-", "-", "-", " ", "a", "\n", ".", ".", ".", "\n", "%", "F", "O", "O", " ", "x", "\n", "[", "b", "]", "\n">>],
  [name |-> "tab-before-compact-seq-in-seq", kind |-> "doc", frag |-> <<"-", "\t", "-", " ", "a", "\n">>],
  [name |-> "space-tab-before-compact-seq-in-seq", kind |-> "doc", frag |-> <<"-", " ", "\t", "-", " ", "a", "\n">>],
  [name |-> "tab-before-compact-seq-in-key", kind |-> "doc", frag |-> <<"?", "\t", "-", " ", "a", "\n">>],
  [name |-> "tab-before-compact-seq-in-value", kind |-> "doc", frag |-> <<"?", " ", "-", " ", "a", "\n", ":", "\t", "-", " ", "b", "\n">>],
  [name |-> "tab-before-compact-map-in-key", kind |-> "doc", frag |-> <<"?", "\t", "k", ":", " ", "v", "\n">>],
  [name |-> "tab-before-compact-map-in-value", kind |-> "doc", frag |-> <<"?", " ", "k", ":", " ", "v", "\n", ":", "\t", "j", ":", " ", "w", "\n">>],
  [name |-> "tab-before-compact-map-quoted-key-in-value", kind |-> "doc", frag |-> <<"?", " ", "k", "\n", ":", "\t", "\"", "j", "\"", ":", " ", "w", "\n">>],
  [name |-> "tab-before-nested-explicit-key", kind |-> "doc", frag |-> <<"?", "\t", "?", " ", "a", "\n">>],
  [name |-> "quoted-not-deeper-seq-entry", kind |-> "doc", frag |-> <<"-", " ", "\"", "a", "\n", "b", "\"", "\n">>],
  [name |-> "single-quoted-not-deeper-seq-entry", kind |-> "doc", frag |-> <<"-", " ", "'", "a", "\n", "b", "'", "\n">>],
  [name |-> "quoted-not-deeper-nested-seq-entry", kind |-> "doc", frag |-> <<"k", ":", "\n", " ", " ", "-", " ", "\"", "a", "\n", " ", " ", "b", "\"", "\n">>],
  [name |-> "quoted-not-deeper-value", kind |-> "doc", frag |-> <<"k", ":", " ", "\"", "a", "\n", "b", "\"", "\n">>],
  [name |-> "quoted-not-deeper-explicit-key", kind |-> "doc", frag |-> <<"?", " ", "\"", "a", "\n", "b", "\"", "\n", ":", " ", "v", "\n">>],
  [name |-> "quoted-not-deeper-anchored-entry", kind |-> "doc", frag |-> <<"-", " ", "&", "x", " ", "\"", "a", "\n", "b", "\"", "\n">>],
  [name |-> "quoted-not-deeper-in-flow-in-block", kind |-> "doc", frag |-> <<"k", ":", " ", "[", "\"", "a", "\n", "b", "\"", "]", "\n">>],
  [name |-> "quoted-not-deeper-compact-map-value", kind |-> "doc", frag |-> <<"-", " ", "j", ":", " ", "\"", "a", "\n", " ", " ", "b", "\"", "\n">>],
  [name |-> "quoted-not-deeper-entry-next-line", kind |-> "doc", frag |-> <<"-", "\n", " ", "\"", "a", "\n", "b", "\"", "\n">>],
  [name |-> "tab-led-plain-continuation-value", kind |-> "doc", frag |-> <<"k", ":", " ", "a", "\n", "\t", "b", "\n">>],
  [name |-> "tab-led-plain-continuation-entry", kind |-> "doc", frag |-> <<"-", " ", "a", "\n", "\t", "b", "\n">>],
  [name |-> "tab-led-plain-continuation-nested", kind |-> "doc", frag |-> <<"k", ":", "\n", " ", " ", "j", ":", " ", "a", "\n", " ", " ", "\t", "b", "\n">>],
  [name |-> "tab-led-plain-continuation-entry-like", kind |-> "doc", frag |-> <<"-", " ", "a", "\n", "\t", "-", " ", "b", "\n">>],
  [name |-> "tab-led-quoted-continuation-value", kind |-> "doc", frag |-> <<"k", ":", " ", "\"", "a", "\n", "\t", "b", "\"", "\n">>],
  [name |-> "tab-led-flow-entry-in-block", kind |-> "doc", frag |-> <<"k", ":", " ", "[", "a", ",", "\n", "\t", "b", "]", "\n">>],
  [name |-> "tab-led-plain-continuation-in-flow-in-block", kind |-> "doc", frag |-> <<"k", ":", " ", "[", "a", "\n", "\t", "b", "]", "\n">>],
  [name |-> "tab-before-compact-map-in-seq", kind |-> "doc", frag |-> <<"-", "\t", "k", ":", " ", "v", "\n">>],
  [name |-> "space-tab-before-compact-map-in-seq", kind |-> "doc", frag |-> <<"-", " ", "\t", "k", ":", " ", "v", "\n">>],
  [name |-> "tab-before-compact-map-quoted-key-in-seq", kind |-> "doc", frag |-> <<"-", "\t", "\"", "k", "\"", ":", " ", "v", "\n">>],
  [name |-> "tab-before-explicit-key-in-seq", kind |-> "doc", frag |-> <<"-", "\t", "?", " ", "k", "\n">>],
  [name |-> "tab-before-compact-map-in-nested-seq", kind |-> "doc", frag |-> <<"k", ":", "\n", "-", "\t", "j", ":", " ", "v", "\n">>],
  [name |-> "multiline-quoted-key-in-flow-seq", kind |-> "doc", frag |-> <<"[", "\"", "a", "\n", " ", "b", "\"", ":", " ", "c", "]", "\n">>],
  [name |-> "multiline-quoted-key-in-flow-seq-after-explicit-entry", kind |-> "doc", frag |-> <<"[", "?", " ", "x", " ", ":", " ", "y", ",", " ", "\"", "a", "\n", " ", "b", "\"", ":", " ", "c", "]", "\n">>],
  [name |-> "multiline-plain-key-in-flow-seq-after-explicit-entry", kind |-> "doc", frag |-> <<"[", "?", " ", "x", " ", ":", " ", "y", ",", " ", "a", "\n", " ", "b", ":", " ", "c", "]", "\n">>],
  [name |-> "multiline-quoted-key-in-flow-seq-after-empty-explicit-entry", kind |-> "doc", frag |-> <<"[", "?", " ", ",", " ", "\"", "a", "\n", " ", "b", "\"", ":", " ", "c", "]", "\n">>],
  [name |-> "multiline-quoted-key-in-flow-seq-after-pair", kind |-> "doc", frag |-> <<"[", "x", ":", " ", "y", ",", " ", "\"", "a", "\n", " ", "b", "\"", ":", " ", "c", "]", "\n">>],
  [name |-> "multiline-quoted-key-in-nested-flow-seq-after-explicit-entry", kind |-> "doc", frag |-> <<"[", "?", " ", "x", " ", ":", " ", "y", ",", " ", "[", "\"", "a", "\n", " ", "b", "\"", ":", " ", "c", "]", "]", "\n">>],
  [name |-> "content-after-document-end-2", kind |-> "stream", frag |-> <<"a", ":", " ", "b", "\n", ".", ".", ".", " ", "-", " ", "c", "\n">>] >>

\* base: a well-formed stream ending with a line break (its text). placement of an inline fragment: 0 = own document,
\* 1 = last entry of a block sequence in a mapping, 2 = mapping value, 3 = entry of a flow sequence after another entry,
\* 4 = the same after an explicit "? k : v" entry, 5 = value in a flow mapping nested in a block sequence
Damaged(base, op, placement) ==
  LET sep == IF base = <<>> THEN <<>> ELSE <<".", ".", ".", "\n">>       \* end the previous document explicitly
      D3 == <<"-", "-", "-", "\n">>
  IN IF op.kind = "stream" THEN base \o sep \o op.frag
     ELSE IF op.kind = "inline"
     THEN IF placement = 0 THEN base \o sep \o <<"-", "-", "-", " ">> \o op.frag \o <<"\n">>
          ELSE IF placement = 1 THEN base \o sep \o <<"-", "-", "-", "\n", "t", "o", "p", ":", "\n", " ", " ", "-", " ", "x", "\n", " ", " ", "-", " ">> \o op.frag \o <<"\n">>
          ELSE IF placement = 2 THEN base \o sep \o D3 \o <<"k", ":", " ">> \o op.frag \o <<"\n", "j", ":", " ", "w", "\n">>
          ELSE IF placement = 3 THEN base \o sep \o D3 \o <<"[", "x", ",", " ">> \o op.frag \o <<"]", "\n">>
          ELSE IF placement = 4 THEN base \o sep \o D3 \o <<"[", "?", " ", "k", " ", ":", " ", "v", ",", " ">> \o op.frag \o <<"]", "\n">>
          ELSE base \o sep \o D3 \o <<"-", " ", "{", "k", ":", " ">> \o op.frag \o <<"}", "\n">>
     ELSE base \o sep \o <<"-", "-", "-", "\n">> \o op.frag
=======================================================================
