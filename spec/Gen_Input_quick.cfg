CONSTANTS
  N = 3
INIT Init
NEXT Next
INVARIANT Out
CHECK_DEADLOCK FALSE
