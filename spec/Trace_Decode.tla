---------------------------- MODULE Trace_Decode ----------------------------
(* Judge of recorded decode cases (C18).  One NDJSON record per byte string:

     [fam |-> "text" | "bytes" | "rand" | "garbled" | "lead",
      blen |-> number of input bytes, hasb |-> BOOLEAN, b |-> <<bytes>> (<<>> if ~hasb),
      enc |-> "utf8" | "utf16le" | "utf16be" | "", bom |-> BOOLEAN,       (text family: how it was encoded)
      first |-> code point of the first character of the text, -1 if none / not a text,
      direct |-> "ok" | "scan" | "panic" | "none",                        (Yaml::load_from_str(text))
      runs |-> << [trap |-> "ignore" | "strict" | "replace" | "call" | "callbrk",
                   res |-> "ok" | "scan" | "decode" | "io" | "timeout" | "panic" | "abort",
                   same |-> BOOLEAN  (documents equal to those of the direct load),
                   cb |-> callback invocations,
                   its |-> << <<total, inlen, outlen, cap>>, ... >>  (the `dec` hook, one per loop head) ] >> ]

   Reasons printed as <<"REJECT", l, reason, trap>>:
     property (reference side):
       "timeout"  the watchdog expired          "panic"  the call panicked / the process died
       "docs"     in-scope text: documents differ from the direct load (or error kinds differ)
       "strict"   malformed input was not a decode error under the strict trap / a breaking callback
       "trapstop" ignore / replace / continuing callback ended in a decode error
     model (implementation-shaped side, reported as drift):
       "head" "step"  the hook log is not a behaviour of YDecode's loop
       "measure"      (input left, -capacity) did not decrease between two loop heads
       "contract"     the decoder made no progress although >= MinSpace bytes were spare
       "wfdecode"     well-formed input ended in a decode error
       "detect"       EncodingOf disagrees with the encoding the text was written in              *)
EXTENDS Naturals, Sequences, Json, IOUtils, TLC
D == INSTANCE YDecode WITH MaxUnits <- 0, GrowDiv <- 10, MinGrow <- 4, MinCap <- 0, MinSpace <- 4,
                           enc <- "utf8", inp <- <<>>, trap <- "strict", pos <- 0, outLen <- 0,
                           cap <- 0, done <- TRUE, result <- "ok"
Rec == ndJsonDeserialize(IOEnv.TRACE)
VARIABLE l

Fatal(x) == x.res \in {"timeout", "panic", "abort"}
InScope(r) == r.fam = "text" /\ (r.first = 65279 \/ (r.first >= 0 /\ r.first < 128))
DocsOk(r, x) == IF r.direct = "ok" THEN x.res = "ok" /\ x.same
                ELSE IF r.direct = "scan" THEN x.res = "scan"
                ELSE TRUE

Reasons(r, x, mal, wf) ==
  LET its == x.its
      n == Len(its)
      pairs == 1..(IF n = 0 THEN 0 ELSE n - 1)
  IN (IF x.res = "timeout" THEN {"timeout"} ELSE {})
     \cup (IF x.res \in {"panic", "abort"} THEN {"panic"} ELSE {})
     \cup (IF ~Fatal(x) /\ InScope(r) /\ ~DocsOk(r, x) THEN {"docs"} ELSE {})
     \cup (IF ~Fatal(x) /\ mal /\ x.trap \in {"strict", "callbrk"} /\ x.res # "decode" THEN {"strict"} ELSE {})
     \cup (IF x.trap \in {"ignore", "replace", "call"} /\ x.res = "decode" THEN {"trapstop"} ELSE {})
     \cup (IF ~Fatal(x) /\ x.res # "io" /\ (n = 0 \/ ~(D!FirstHeadOk(its[1], r.blen) /\ D!HeadOk(its[1]))) THEN {"head"} ELSE {})
     \cup (IF \E j \in pairs : ~D!StepAllowed(its[j], its[j + 1]) THEN {"step"} ELSE {})
     \cup (IF \E j \in pairs : ~D!TraceMeasure(its[j], its[j + 1]) THEN {"measure"} ELSE {})
     \cup (IF \E j \in pairs : ~D!ContractObserved(its[j], its[j + 1]) THEN {"contract"} ELSE {})
     \cup (IF wf /\ x.res = "decode" /\ x.trap # "callbrk" THEN {"wfdecode"} ELSE {})

Judge(r, idx) ==
  LET mal == r.hasb /\ D!Malformed(r.b)
      wf == IF r.hasb THEN D!WellFormed(r.b) ELSE r.fam = "text"
  IN /\ \A i \in 1..Len(r.runs) :
          \A why \in Reasons(r, r.runs[i], mal, wf) : PrintT(<<"REJECT", idx, why, r.runs[i].trap>>)
     /\ (r.fam = "text" /\ r.hasb /\ InScope(r) /\ D!EncodingOf(r.b) # r.enc) => PrintT(<<"REJECT", idx, "detect", "-">>)

Init == l = 1
Next == /\ l <= Len(Rec)
        /\ Judge(Rec[l], l)
        /\ l' = l + 1
AllJudged == (l = Len(Rec) + 1) => PrintT(<<"JUDGED", Len(Rec)>>)
=============================================================================
