----------------------------- MODULE MC_NodeLookup -----------------------------
(* C20, exhaustive small scope: a behaviour builds a mapping by inserting up to K keys from a pool
   (strings, an integer / null / Boolean / float whose text equals a string key, collections, an
   unresolved representation whose text equals a string key, BadValue), in every order. In every
   state, for every probe string (the key texts, type-like variants, absent strings):

     LookupLaw   the AS-CODED lookups of YNodeApi (hash of a synthetic string node + raw-entry
                 probe, for the plain and for the marked node types; the map's own lookup with an
                 explicitly built string node) return the REFERENCE answer "found exactly when
                 some key is a resolved string equal to k", for three lawful hash functions
                 (injective, by kind, constant);
     IntLaw      integer indexing of the mapping (key Integer(i)) and of the sequence of the same
                 nodes (position i) has the reference answer;
     HashLaw     Equal => same hash for the three hash functions;
     BareHashIsRef  (negative control, own configuration) with the needle hashed as a bare string
                 the as-coded lookup no longer is the reference: TLC must report a violation.

   Every state prints one REPLAY line: the mapping, the sequence, and the reference answer for
   every probe / index; the harness asks the real accessors of the four node types.             *)
EXTENDS YNodeApi, Json, TLC
CONSTANTS K

KeyPool == << StrN("a"), StrN("1"), StrN("null"), StrN("~"), StrN("true"), StrN("1.5"), StrN(""),
              IntN("1"), IntN("0"), NullN, BoolN(TRUE), FloatN("3ff8000000000000", "fin", "1.5"),
              SeqN(<<StrN("a")>>), MapN(<< <<StrN("a"), IntN("1")>> >>),
              ReprN("a", "plain", <<>>), BadN >>
Probes == <<"a", "1", "null", "~", "true", "1.5", "", "0", "b", "A", "01", "True", " a">>
Idx == 0..3

ASSUME \A i, j \in 1..Len(KeyPool) : i # j => ~Equal(KeyPool[i], KeyPool[j])

VARIABLE keys       \* sequence of pool indices, in insertion order
RECURSIVE PairsOf(_, _, _)
PairsOf(ks, i, acc) == IF i > Len(ks) THEN acc ELSE PairsOf(ks, i + 1, Append(acc, <<KeyPool[ks[i]], IntN(ToString(i))>>))
RECURSIVE ItemsOf(_, _, _)
ItemsOf(ks, i, acc) == IF i > Len(ks) THEN acc ELSE ItemsOf(ks, i + 1, Append(acc, KeyPool[ks[i]]))
TheMap == MapN(PairsOf(keys, 1, <<>>))
TheSeq == SeqN(ItemsOf(keys, 1, <<>>))

Init == keys = <<>>
Next == /\ Len(keys) < K
        /\ \E j \in 1..Len(KeyPool) :
             /\ \A i \in 1..Len(keys) : keys[i] # j
             /\ keys' = Append(keys, j)

LookupLawFor(m, k) ==
  LET ref == RefGetStr(m, k) IN
  /\ CodedGetStr(HashInj, m, k) = ref /\ CodedGetStr(HashKind, m, k) = ref /\ CodedGetStr(HashConst, m, k) = ref
  /\ CodedGetStrMarked(HashInj, m, k) = ref /\ CodedGetStrMarked(HashKind, m, k) = ref /\ CodedGetStrMarked(HashConst, m, k) = ref
  /\ CodedGetNode(HashInj, m, StrN(k)) = ref /\ CodedGetNode(HashKind, m, StrN(k)) = ref /\ CodedGetNode(HashConst, m, StrN(k)) = ref
  /\ RefGet(m, k) = ref /\ RefGetNode(m, StrN(k)) = ref
  /\ RefContains(m, k) = ref.found /\ RefIndexPanics(m, k) = ~ref.found
  /\ ref.found <=> (\E i \in 1..Len(m.pairs) : m.pairs[i][1].t = "str" /\ m.pairs[i][1].v = k)
LookupLaw == WellFormed(TheMap) /\ \A p \in 1..Len(Probes) : LookupLawFor(TheMap, Probes[p])
IntLaw ==
  \A i \in Idx :
    /\ RefIntIndex(TheMap, ToString(i), i) = CodedGetNode(HashKind, TheMap, IntN(ToString(i)))
    /\ RefIntIndex(TheSeq, ToString(i), i).found <=> (i < Len(keys))
    /\ RefIntIndex(TheSeq, ToString(i), i).found => RefIntIndex(TheSeq, ToString(i), i).val = KeyPool[keys[i + 1]]
    /\ RefIntIndex(StrN("a"), ToString(i), i) = Absent
HashLaw == \A i, j \in 1..Len(KeyPool) :
  Equal(KeyPool[i], KeyPool[j]) => (HashInj(KeyPool[i]) = HashInj(KeyPool[j]) /\ HashKind(KeyPool[i]) = HashKind(KeyPool[j]) /\ HashConst(KeyPool[i]) = HashConst(KeyPool[j]))
BareHashIsRef == \A p \in 1..Len(Probes) : CodedGetStrBareHash(TheMap, Probes[p]) = RefGetStr(TheMap, Probes[p])

RECURSIVE ProbeAns(_, _)
ProbeAns(i, acc) == IF i > Len(Probes) THEN acc ELSE ProbeAns(i + 1, Append(acc, [k |-> Probes[i], ans |-> RefGetStr(TheMap, Probes[i])]))
RECURSIVE IntAns(_, _)
IntAns(i, acc) == IF i > 3 THEN acc ELSE IntAns(i + 1, Append(acc, [idx |-> ToString(i), map |-> RefIntIndex(TheMap, ToString(i), i), seq |-> RefIntIndex(TheSeq, ToString(i), i)]))
Out == PrintT(<<"REPLAY", ToJson([map |-> TheMap, seq |-> TheSeq, probes |-> ProbeAns(1, <<>>), ints |-> IntAns(0, <<>>)])>>)
=============================================================================
