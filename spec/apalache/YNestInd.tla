---------------------------- MODULE YNestInd ----------------------------
(* Unbounded safety of the recursion bound of YNest (C11) with Apalache: IndInv is inductive
   (Init => IndInv at length 0; IndInv /\ Next => IndInv' at length 1) and implies Bounded, for an
   arbitrary input length -- the model checker TLC only covers MaxInput = 10^5.
   Run:  apalache-mc check --init=Init --inv=IndInv --length=0 YNestInd.tla
         apalache-mc check --init=IndInit --inv=IndInv --length=1 YNestInd.tla
         apalache-mc check --init=IndInit --inv=Bounded --length=0 YNestInd.tla                 *)
EXTENDS Integers
Limit == 1000
R == 1000
VARIABLES
  \* @type: Int;
  open,
  \* @type: Int;
  rec,
  \* @type: Bool;
  failed
Init == open = 0 /\ rec = 0 /\ failed = FALSE
Open == /\ ~failed
        /\ IF open + 1 > Limit THEN failed' = TRUE /\ UNCHANGED <<open, rec>>
           ELSE open' = open + 1 /\ rec' = rec + 1 /\ failed' = FALSE
Close == ~failed /\ open > 0 /\ open' = open - 1 /\ rec' = rec - 1 /\ UNCHANGED failed
Stutter == UNCHANGED <<open, rec, failed>>
Next == Open \/ Close \/ Stutter
IndInv == rec = open /\ open >= 0 /\ open <= Limit
IndInit == open \in Int /\ rec \in Int /\ failed \in BOOLEAN /\ IndInv
Bounded == rec <= R
=========================================================================
