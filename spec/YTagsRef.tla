---------------------------- MODULE YTagsRef ----------------------------
(* Reference module for C16: what tag a node carries, given the directives in force for its
   document (YAML 1.2.2 section 6.8.2 and 6.9.1), independent of how parser.rs is organised.

   A directive table is a sequence of <<handle, prefix>> (character sequences). A tag spelling is
     [form |-> "none"]                      no tag
     [form |-> "nonspecific"]               !
     [form |-> "verbatim", v |-> chars]     !<v>
     [form |-> "secondary", s |-> chars]    !!s
     [form |-> "named", h |-> chars, s]     !h!s       (h without the two '!')
     [form |-> "primary", s |-> chars]      !s
   Resolve yields [ok |-> TRUE, tag |-> <<prefix, suffix>>] or [ok |-> FALSE].                *)
EXTENDS YChars

YamlPrefix == <<"t", "a", "g", ":", "y", "a", "m", "l", ".", "o", "r", "g", ",", "2", "0", "0", "2", ":">>
RECURSIVE TLookup(_, _, _)
TLookup(tbl, h, i) == IF i > Len(tbl) THEN <<>> ELSE IF tbl[i][1] = h THEN <<tbl[i][2]>> ELSE TLookup(tbl, h, i + 1)
Bound(tbl, h) == TLookup(tbl, h, 1)
\* a handle may be declared only once per document
RECURSIVE NoDup(_, _)
NoDup(tbl, i) == IF i > Len(tbl) THEN TRUE ELSE Bound(SubSeq(tbl, 1, i - 1), tbl[i][1]) = <<>> /\ NoDup(tbl, i + 1)
DirectivesOK(tbl) == NoDup(tbl, 1)

\* percent-decoding of a suffix: each maximal run of %XX bytes is one UTF-8 sequence per character
PB(s, i) == HexVal(s[i + 1]) * 16 + HexVal(s[i + 2])        \* the byte written at s[i] = "%"
RECURSIVE PctDecode(_)
PctDecode(s) ==
  IF s = <<>> THEN <<>>
  ELSE IF s[1] # "%" THEN <<s[1]>> \o PctDecode(Tail(s))
  ELSE LET b == PB(s, 1) IN
       IF b < 128 THEN <<CharOfCode(b)>> \o PctDecode(SubSeq(s, 4, Len(s)))
       ELSE IF b \div 32 = 6 THEN <<CharOfCode((b % 32) * 64 + (PB(s, 4) % 64))>> \o PctDecode(SubSeq(s, 7, Len(s)))
       ELSE IF b \div 16 = 14 THEN <<CharOfCode(((b % 16) * 64 + (PB(s, 4) % 64)) * 64 + (PB(s, 7) % 64))>> \o PctDecode(SubSeq(s, 10, Len(s)))
       ELSE <<CharOfCode((((b % 8) * 64 + (PB(s, 4) % 64)) * 64 + (PB(s, 7) % 64)) * 64 + (PB(s, 10) % 64))>> \o PctDecode(SubSeq(s, 13, Len(s)))

Resolve(tbl, sp) ==
  IF sp.form = "none" THEN [ok |-> TRUE, tag |-> <<>>]
  ELSE IF sp.form = "nonspecific" THEN [ok |-> TRUE, tag |-> << <<>>, <<"!">> >>]
  ELSE IF sp.form = "verbatim" THEN [ok |-> TRUE, tag |-> << <<>>, sp.v >>]
  ELSE IF sp.form = "secondary"
  THEN [ok |-> TRUE, tag |-> << (IF Bound(tbl, <<"!", "!">>) # <<>> THEN Bound(tbl, <<"!", "!">>)[1] ELSE YamlPrefix), PctDecode(sp.s) >>]
  ELSE IF sp.form = "named"
  THEN LET h == <<"!">> \o sp.h \o <<"!">> IN
       IF Bound(tbl, h) # <<>> THEN [ok |-> TRUE, tag |-> << Bound(tbl, h)[1], PctDecode(sp.s) >>] ELSE [ok |-> FALSE, tag |-> <<>>]
  ELSE \* primary: a local tag "!s", unless "!" was given a prefix
       [ok |-> TRUE, tag |-> << (IF Bound(tbl, <<"!">>) # <<>> THEN Bound(tbl, <<"!">>)[1] ELSE <<"!">>), PctDecode(sp.s) >>]

\* spelling as text
Spell(sp) ==
  IF sp.form = "none" THEN <<>>
  ELSE IF sp.form = "nonspecific" THEN <<"!">>
  ELSE IF sp.form = "verbatim" THEN <<"!", "<">> \o sp.v \o <<">">>
  ELSE IF sp.form = "secondary" THEN <<"!", "!">> \o sp.s
  ELSE IF sp.form = "named" THEN <<"!">> \o sp.h \o <<"!">> \o sp.s
  ELSE <<"!">> \o sp.s
=========================================================================
