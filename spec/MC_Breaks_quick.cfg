CONSTANTS
  N = 4
INIT Init
NEXT Next
INVARIANT BreakInsensitive
CHECK_DEADLOCK FALSE
