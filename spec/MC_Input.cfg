CONSTANTS
  N = 4
  K = 5
  Depth = 8
INIT Init
NEXT Next
INVARIANT Refines
CHECK_DEADLOCK FALSE
