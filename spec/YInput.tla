---------------------------- MODULE YInput ----------------------------
(* The Input contract (parser/src/input.rs) as an abstract machine, and its two implementations
   as refinements: BufferedInput (ring buffer of capacity K over a char iterator, NUL padding at
   the end of the input, a break read past a line by raw_read_non_breakz_ch pushed back into the
   buffer) and StrInput (no buffer; `buflen` is the largest lookahead ever requested; the bulk
   operations are re-implemented on the UTF-8 bytes).

   Abstract state  [rest, buf]: the characters not yet consumed, and how many of them the caller
   may look at (loaded by lookahead, decreased by skip).
   Every operation has a precondition (what the *caller* -- the scanner -- must guarantee) and a
   result. MC_Input checks: under the preconditions, both implementations return what the abstract
   machine returns, the ring never overflows, no byte index is out of range.
   Deliberate deviation named here: StrInput.buflen never decreases, so buf_is_empty() can differ
   from the abstract `buf = 0` -- harmless because the scanner only uses it to choose between two
   equivalent ways of reading a block scalar line.                                              *)
EXTENDS YChars

NonAscii(c) == Len(c) > 1 /\ c # EOF_         \* "<uN>" names: a multi-byte character for StrInput
\* what StrInput sees when it looks at the first BYTE of the rest "as char"
FirstByte(rest) == IF rest = <<>> THEN NUL ELSE IF NonAscii(rest[1]) /\ rest[1] # NUL THEN "<byte>" ELSE rest[1]
ByteAt(rest, i) == IF i > Len(rest) THEN NUL ELSE IF NonAscii(rest[i]) /\ rest[i] # NUL THEN "<byte>" ELSE rest[i]
CharAt(rest, i) == IF i > Len(rest) THEN NUL ELSE rest[i]
IsZc(c) == c = NUL
IsBreakZc(c) == c \in Break \/ c = NUL
IsBlankZc(c) == c \in Blank \/ IsBreakZc(c)
Drop(rest, n) == IF n >= Len(rest) THEN <<>> ELSE SubSeq(rest, n + 1, Len(rest))

\* ------------------------------- abstract machine -------------------------------
AInit(text) == [rest |-> text, buf |-> 0]
ALookahead(a, n) == [a EXCEPT !.buf = IF @ > n THEN @ ELSE n]
APeekNth(a, n) == CharAt(a.rest, n + 1)                        \* pre: n < a.buf
ASkipN(a, n) == [rest |-> Drop(a.rest, n), buf |-> a.buf - n]   \* pre: n <= a.buf
\* raw_read_non_breakz_ch: pre: a.buf = 0.  returns <<a', "" | char>>
ARawRead(a) == IF a.rest = <<>> \/ IsBreakZc(a.rest[1]) THEN <<a, "">> ELSE <<[a EXCEPT !.rest = Tail(@)], a.rest[1]>>
\* bulk operations (default trait implementations, characters)
ADocInd(a, kinds) == IsBlankZc(CharAt(a.rest, 4)) /\ \E c \in kinds : CharAt(a.rest, 1) = c /\ CharAt(a.rest, 2) = c /\ CharAt(a.rest, 3) = c   \* pre: buf >= 4
ACanPlain(a, inflow) == LET c == CharAt(a.rest, 1) nc == CharAt(a.rest, 2) IN
                        ~((c = ":" /\ (IsBlankZc(nc) \/ (inflow /\ nc \in FlowC))) \/ (inflow /\ c \in FlowC))                                    \* pre: buf >= 2
RECURSIVE CountWhile(_, _, _)
CountWhile(rest, i, cls) == IF i <= Len(rest) /\ rest[i] \in cls THEN CountWhile(rest, i + 1, cls) ELSE i - 1
RECURSIVE CountNonBreakZ(_, _)
CountNonBreakZ(rest, i) == IF i <= Len(rest) /\ ~IsBreakZc(rest[i]) THEN CountNonBreakZ(rest, i + 1) ELSE i - 1
\* skip_ws_to_eol: returns [n (chars consumed), err, tabs, ws]
ASkipWs(a, tabsOK) ==
  LET cls == IF tabsOK THEN {" ", "\t"} ELSE {" "}
      nb == CountWhile(a.rest, 1, cls)
      ws == \E i \in 1..nb : a.rest[i] = " "
      tabs == \E i \in 1..nb : a.rest[i] = "\t"
      r1 == Drop(a.rest, nb)
  IN IF r1 # <<>> /\ r1[1] = "#"
     THEN IF nb = 0 THEN [n |-> 0, err |-> TRUE, tabs |-> FALSE, ws |-> FALSE]
          ELSE [n |-> nb + CountNonBreakZ(r1, 1), err |-> FALSE, tabs |-> tabs, ws |-> ws]
     ELSE [n |-> nb, err |-> FALSE, tabs |-> tabs, ws |-> ws]

\* ------------------------------- BufferedInput(K) -------------------------------
\* [it: iterator remainder, ring: buffered characters (front first)]
BInit(text) == [it |-> text, ring |-> <<>>, overflow |-> FALSE, pad |-> 0]      \* pad = NULs appended after the iterator ran dry
RECURSIVE BFill(_, _, _)
BFill(b, k, K) == IF k = 0 THEN b
                  ELSE LET c == IF b.it = <<>> THEN NUL ELSE b.it[1] IN
                       BFill([it |-> IF b.it = <<>> THEN <<>> ELSE Tail(b.it), ring |-> Append(b.ring, c), overflow |-> b.overflow \/ Len(b.ring) >= K,
                              pad |-> IF b.it = <<>> THEN b.pad + 1 ELSE b.pad], k - 1, K)
BLookahead(b, n, K) == IF Len(b.ring) >= n THEN b ELSE BFill(b, n - Len(b.ring), K)
BPeekNth(b, n) == IF n + 1 <= Len(b.ring) THEN b.ring[n + 1] ELSE "<index out of range>"
BSkipN(b, n) == LET r == Drop(b.ring, n) IN [b EXCEPT !.ring = r, !.pad = IF @ > Len(r) THEN Len(r) ELSE @]
BRawRead(b, K) == IF b.it = <<>> THEN <<b, "">>
                  ELSE IF IsBreakZc(b.it[1]) THEN <<[b EXCEPT !.it = Tail(@), !.ring = Append(@, b.it[1]), !.overflow = @ \/ Len(b.ring) >= K], "">>
                  ELSE <<[b EXCEPT !.it = Tail(@)], b.it[1]>>
\* refinement mapping: the characters not yet consumed (padding NULs at the very end are not characters)
BRest(b) == SubSeq(b.ring, 1, Len(b.ring) - b.pad) \o b.it

\* ------------------------------- StrInput -------------------------------
SInit(text) == [s |-> text, la |-> 0]
SLookahead(x, n) == [x EXCEPT !.la = IF @ > n THEN @ ELSE n]
SPeekNth(x, n) == CharAt(x.s, n + 1)
SSkipN(x, n) == [x EXCEPT !.s = Drop(@, n)]
SRawRead(x) == IF x.s = <<>> \/ IsBreakZc(x.s[1]) THEN <<x, "">> ELSE <<[x EXCEPT !.s = Tail(@)], x.s[1]>>
\* byte-level fast paths (input/str.rs). ByteLen is needed for `buffer.len() < 3` / `bytes.len() == 3`
RECURSIVE ByteLen(_)
ByteLen(q) == IF q = <<>> THEN 0 ELSE (IF NonAscii(q[1]) /\ q[1] # NUL THEN 2 ELSE 1) + ByteLen(Tail(q))
\* the k-th byte (1-based) of the rest, as a char; "<byte>" for any byte of a multi-byte character
RECURSIVE NthByte(_, _)
NthByte(q, k) == IF q = <<>> THEN "<index out of range>"
                 ELSE IF NonAscii(q[1]) /\ q[1] # NUL THEN (IF k <= 2 THEN "<byte>" ELSE NthByte(Tail(q), k - 2))
                 ELSE IF k = 1 THEN q[1] ELSE NthByte(Tail(q), k - 1)
SDocInd(x, kinds) == IF ByteLen(x.s) < 3 THEN FALSE
                     ELSE (ByteLen(x.s) = 3 \/ IsBlankZc(NthByte(x.s, 4))) /\ \E c \in kinds : NthByte(x.s, 1) = c /\ NthByte(x.s, 2) = c /\ NthByte(x.s, 3) = c
\* next_can_be_plain_scalar: indexes byte 0 unconditionally (ByteGuard: the caller guarantees a non-empty rest)
SCanPlain(x, inflow) ==
  IF x.s = <<>> THEN "<index out of range>"
  ELSE LET c == NthByte(x.s, 1) IN
       IF ByteLen(x.s) > 1
       THEN LET nc == NthByte(x.s, 2) IN ~((c = ":" /\ (IsBlankZc(nc) \/ (inflow /\ nc \in FlowC))) \/ (inflow /\ c \in FlowC))
       ELSE ~(c = ":" \/ (inflow /\ c \in FlowC))
\* skip_ws_to_eol override: strip_prefix loops, the number of blanks is the BYTE length difference,
\* the comment is then counted character by character
RECURSIVE StripBlanks(_, _)
StripBlanks(q, tabsOK) == IF q # <<>> /\ (q[1] = " " \/ (tabsOK /\ q[1] = "\t")) THEN StripBlanks(Tail(q), tabsOK) ELSE q
SSkipWs(x, tabsOK) ==
  LET r1 == StripBlanks(x.s, tabsOK)
      nb == ByteLen(x.s) - ByteLen(r1)
      stripped == SubSeq(x.s, 1, Len(x.s) - Len(r1))
      ws == \E i \in 1..Len(stripped) : stripped[i] = " "
      tabs == \E i \in 1..Len(stripped) : stripped[i] = "\t"
  IN IF r1 # <<>> /\ NthByte(r1, 1) = "#"
     THEN IF ~tabs /\ ~ws THEN [n |-> nb, err |-> TRUE, tabs |-> FALSE, ws |-> FALSE]
          ELSE [n |-> nb + CountNonBreakZ(r1, 1), err |-> FALSE, tabs |-> tabs, ws |-> ws]
     ELSE [n |-> nb, err |-> FALSE, tabs |-> tabs, ws |-> ws]
=======================================================================
