CONSTANTS
  N = 4
  AlphaName = "break"
INIT Init
NEXT Next
INVARIANTS PanicFree Grammar Linear Out
CHECK_DEADLOCK FALSE
