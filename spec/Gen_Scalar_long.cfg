CONSTANTS
  N = 0
  Budget = 0
  MaxChD = 1
  CiMax = 0
  Wide = FALSE
INIT InitLong
NEXT Next
INVARIANT Out
CHECK_DEADLOCK FALSE
