INIT Init
NEXT Next
INVARIANT AllJudged
CHECK_DEADLOCK FALSE
