CONSTANTS
  Limit = 0
  R = 1000
  MaxInput = 100000
INIT Init
NEXT Next
INVARIANT Bounded
CHECK_DEADLOCK FALSE
