---------------------------- MODULE YNestAlias ----------------------------
(* C01 through the loaders: depth composed through aliases (companion of YNest).
   YNest bounds the recursion caused by nesting that is written out: the parser refuses more than
   Limit open collections. The loaders (saphyr/src/loader.rs, Event::Alias arm) replace every alias
   by a copy of the completed anchored node, so a node can end up deeper in the loaded tree than
   anything is nested in the text:  - &a0 [x] / - &a1 [*a0] / - &a2 [*a1] ...  is nested one level
   deep and loads to a tree as deep as it has lines. Clone (taken for the next alias), Drop, Eq,
   Hash and the emitter recurse once per level of that tree.

   st       heights of the subtrees built so far under each open collection (doc_stack)
   anchors  heights of the completed anchored nodes (anchor_map)
   deepest  depth of the deepest node of any tree built so far = the recursion of Clone / Drop
   ExpLimit = 0 is the loader as it is: TreeBounded is violated for every R (MC_NestAlias.cfg: the
   open finding C01-alias-chain-aborts-loaders as a counterexample of the model). ExpLimit > 0 is the
   repair that was written and withdrawn (DESIGN.md 0.3): an expansion that would nest deeper than
   ExpLimit is refused with an error; then TreeBounded holds (MC_NestAlias_limit.cfg).            *)
EXTENDS Naturals, Sequences
CONSTANTS Limit, ExpLimit, R, MaxAnchors
VARIABLES st, anchors, deepest, refused
vars == <<st, anchors, deepest, refused>>
Max(a, b) == IF a > b THEN a ELSE b
Front(q) == SubSeq(q, 1, Len(q) - 1)
Init == st = <<>> /\ anchors = <<>> /\ deepest = 0 /\ refused = FALSE
\* a completed node of height h is inserted below the open collections s (insert_new_node)
Put(s, h) == IF s = <<>> THEN s ELSE [s EXCEPT ![Len(s)] = Max(@, h + 1)]
Open == /\ ~refused /\ Len(st) < Limit                      \* (beyond Limit the parser reports an error: YNest)
        /\ st' = Append(st, 0) /\ UNCHANGED <<anchors, deepest, refused>>
Scalar == /\ ~refused /\ st' = Put(st, 0) /\ deepest' = Max(deepest, Len(st))
          /\ UNCHANGED <<anchors, refused>>
Close(anchored) ==
  /\ ~refused /\ st # <<>>
  /\ LET h == st[Len(st)] IN
       /\ st' = Put(Front(st), h)
       /\ anchors' = IF anchored /\ Len(anchors) < MaxAnchors THEN Append(anchors, h) ELSE anchors
  /\ UNCHANGED <<deepest, refused>>
Alias(i) ==
  /\ ~refused /\ i \in 1..Len(anchors)
  /\ LET h == anchors[i] IN
       IF ExpLimit > 0 /\ h > 0 /\ Len(st) + h > ExpLimit
       THEN refused' = TRUE /\ UNCHANGED <<st, anchors, deepest>>
       ELSE st' = Put(st, h) /\ deepest' = Max(deepest, Len(st) + h) /\ UNCHANGED <<anchors, refused>>
Next == Open \/ Scalar \/ Close(TRUE) \/ Close(FALSE) \/ \E i \in 1..MaxAnchors : Alias(i)
TreeBounded == deepest <= R
\* exploration stops one level beyond the bound (the counterexample is found there)
Explore == deepest <= R + 1
===========================================================================
