---------------------------- MODULE YCoreSchema ----------------------------
(* REFERENCE module for property C08: the YAML 1.2.2 core schema (section 10.3.2, "Tag Resolution")
   written down as the regular expressions of the specification, the value each literal denotes,
   and what the property text allows a loader to return for a scalar (text, style, tag).

   A text is a sequence of one-character strings (YChars naming). Regular expressions are small
   abstract syntax trees interpreted by `Ends` (set-of-positions semantics), so each definition
   below can be compared with the table of the YAML specification symbol by symbol.

   Integer VALUES are exact (sign + canonical decimal digit sequence, YDigits). Floating-point
   VALUES cannot be computed by TLC: a float outcome names the decimal text whose IEEE-754 reading
   is meant (`fk = "text"`: the scalar text itself, which is then a decimal float literal;
   `fk = "dec"`: the canonical decimal text of an integer that widened) or one of the three
   non-finite values.                                                                           *)
EXTENDS YChars, YDigits

\* ------------------------------------------------------------------------------------------------
\* regular expressions
\* ------------------------------------------------------------------------------------------------
RSet(s) == [k |-> "set", s |-> s]                \* one character out of the set s
RLit(t) == [k |-> "lit", t |-> t]                \* the literal text t
RSeq(a, b) == [k |-> "seq", a |-> a, b |-> b]
RAlt(a, b) == [k |-> "alt", a |-> a, b |-> b]
ROpt(a) == [k |-> "opt", a |-> a]
RPlus(a) == [k |-> "plus", a |-> a]
RStar(a) == ROpt(RPlus(a))
RSeq3(a, b, c) == RSeq(a, RSeq(b, c))
RAlt3(a, b, c) == RAlt(a, RAlt(b, c))

\* Ends(re, t, S): the offsets at which a match of re can end when it starts at an offset in S
RECURSIVE Ends(_, _, _), Closure(_, _, _, _)
Ends(re, t, S) ==
  CASE re.k = "set"  -> {j + 1 : j \in {i \in S : i < Len(t) /\ t[i + 1] \in re.s}}
    [] re.k = "lit"  -> {j + Len(re.t) : j \in {i \in S : i + Len(re.t) <= Len(t) /\ SubSeq(t, i + 1, i + Len(re.t)) = re.t}}
    [] re.k = "seq"  -> Ends(re.b, t, Ends(re.a, t, S))
    [] re.k = "alt"  -> Ends(re.a, t, S) \cup Ends(re.b, t, S)
    [] re.k = "opt"  -> S \cup Ends(re.a, t, S)
    [] re.k = "plus" -> LET first == Ends(re.a, t, S) IN Closure(re.a, t, first, first)
Closure(a, t, acc, frontier) ==
  IF frontier = {} THEN acc
  ELSE LET new == Ends(a, t, frontier) \ acc IN Closure(a, t, acc \cup new, new)
Matches(re, t) == Len(t) \in Ends(re, t, {0})

\* ------------------------------------------------------------------------------------------------
\* YAML 1.2.2, 10.3.2: the core schema's tag resolution table
\* ------------------------------------------------------------------------------------------------
Sign == {"-", "+"}
OctDigit == {"0", "1", "2", "3", "4", "5", "6", "7"}
Digits1 == RPlus(RSet(Digit))                                   \* [0-9]+

\*  null | Null | NULL | ~
ReNull == RAlt(RAlt3(RLit(<<"n", "u", "l", "l">>), RLit(<<"N", "u", "l", "l">>), RLit(<<"N", "U", "L", "L">>)), RLit(<<"~">>))
\*  true | True | TRUE | false | False | FALSE
ReTrue == RAlt3(RLit(<<"t", "r", "u", "e">>), RLit(<<"T", "r", "u", "e">>), RLit(<<"T", "R", "U", "E">>))
ReFalse == RAlt3(RLit(<<"f", "a", "l", "s", "e">>), RLit(<<"F", "a", "l", "s", "e">>), RLit(<<"F", "A", "L", "S", "E">>))
\*  [-+]? [0-9]+
ReIntDec == RSeq(ROpt(RSet(Sign)), Digits1)
\*  0o [0-7]+
ReIntOct == RSeq(RLit(<<"0", "o">>), RPlus(RSet(OctDigit)))
\*  0x [0-9a-fA-F]+
ReIntHex == RSeq(RLit(<<"0", "x">>), RPlus(RSet(Hex)))
\*  [-+]? ( \. [0-9]+ | [0-9]+ ( \. [0-9]* )? ) ( [eE] [-+]? [0-9]+ )?
ReFloat == RSeq3(ROpt(RSet(Sign)),
                 RAlt(RSeq(RLit(<<".">>), Digits1), RSeq(Digits1, ROpt(RSeq(RLit(<<".">>), RStar(RSet(Digit)))))),
                 ROpt(RSeq3(RSet({"e", "E"}), ROpt(RSet(Sign)), Digits1)))
\*  [-+]? ( \.inf | \.Inf | \.INF )
ReInf == RSeq(ROpt(RSet(Sign)), RAlt3(RLit(<<".", "i", "n", "f">>), RLit(<<".", "I", "n", "f">>), RLit(<<".", "I", "N", "F">>)))
\*  \.nan | \.NaN | \.NAN
ReNan == RAlt3(RLit(<<".", "n", "a", "n">>), RLit(<<".", "N", "a", "N">>), RLit(<<".", "N", "A", "N">>))
\*  JSON (RFC 8259) number:  -? ( 0 | [1-9] [0-9]* ) ( \. [0-9]+ )? ( [eE] [-+]? [0-9]+ )?
ReJsonNumber == RSeq3(ROpt(RLit(<<"-">>)),
                      RAlt(RLit(<<"0">>), RSeq(RSet(Digit \ {"0"}), RStar(RSet(Digit)))),
                      RSeq(ROpt(RSeq(RLit(<<".">>), Digits1)), ROpt(RSeq3(RSet({"e", "E"}), ROpt(RSet(Sign)), Digits1))))

IsNull(t) == Matches(ReNull, t)
IsTrue(t) == Matches(ReTrue, t)
IsFalse(t) == Matches(ReFalse, t)
IsBool(t) == IsTrue(t) \/ IsFalse(t)
IsIntDec(t) == Matches(ReIntDec, t)
IsIntOct(t) == Matches(ReIntOct, t)
IsIntHex(t) == Matches(ReIntHex, t)
IsInt(t) == IsIntDec(t) \/ IsIntOct(t) \/ IsIntHex(t)
IsFloat(t) == Matches(ReFloat, t)          \* NB every decimal integer literal also matches this one
IsInf(t) == Matches(ReInf, t)
IsNan(t) == Matches(ReNan, t)
IsJsonNumber(t) == Matches(ReJsonNumber, t)
IsJsonLiteral(t) == t \in {<<"n", "u", "l", "l">>, <<"t", "r", "u", "e">>, <<"f", "a", "l", "s", "e">>} \/ IsJsonNumber(t)

\* ------------------------------------------------------------------------------------------------
\* values
\* ------------------------------------------------------------------------------------------------
RECURSIVE MapDigits(_), MapHex(_)
MapDigits(t) == IF t = <<>> THEN <<>> ELSE <<DigitVal(t[1])>> \o MapDigits(Tail(t))
MapHex(t) == IF t = <<>> THEN <<>> ELSE <<HexVal(t[1])>> \o MapHex(Tail(t))

\* integer literal -> [neg, mag]  (mag canonical; minus zero is zero); only for IsInt(t)
IntValueOf(t, oct, hex) ==
  IF oct THEN [neg |-> FALSE, mag |-> FromRadix(MapDigits(SubSeq(t, 3, Len(t))), 8)]
  ELSE IF hex THEN [neg |-> FALSE, mag |-> FromRadix(MapHex(SubSeq(t, 3, Len(t))), 16)]
  ELSE LET signed == t[1] \in Sign
           m == StripZeros(MapDigits(IF signed THEN Tail(t) ELSE t)) IN
       [neg |-> (t[1] = "-" /\ m # <<0>>), mag |-> m]
IntValue(t) == IntValueOf(t, IsIntOct(t), IsIntHex(t))

RECURSIVE MagChars(_)
MagChars(m) == IF m = <<>> THEN <<>> ELSE <<DigitSeq[m[1] + 1]>> \o MagChars(Tail(m))
\* the decimal text Rust's `i64::to_string` / `{}` prints for the value
IntChars(v) == (IF v.neg THEN <<"-">> ELSE <<>>) \o MagChars(v.mag)

\* ------------------------------------------------------------------------------------------------
\* Facts(t): everything the table says about one text, computed once (TLC does not memoise
\* operators; all rules below are stated on this record).
\*   ref  : the type the core schema resolves an untagged plain scalar to (the table is ordered:
\*          an integer literal is an integer although it also matches the float expression)
\*   must : "is so recognised" -- the type the property DEMANDS, or "none": every JSON literal,
\*          every decimal / 0x / 0o integer within 64 bits, decimal or exponent floats, the
\*          .inf / .nan spellings. (Null, True, TRUE, ~ ... may stay strings; integers beyond
\*          64 bits are not demanded, whether JSON or not.)
\* ------------------------------------------------------------------------------------------------
TextNull == <<"n", "u", "l", "l">>
TextTrue == <<"t", "r", "u", "e">>
TextFalse == <<"f", "a", "l", "s", "e">>
Facts(t) ==
  LET null == IsNull(t)   tru == IsTrue(t)   fal == IsFalse(t)
      dec == IsIntDec(t)  oct == IsIntOct(t) hex == IsIntHex(t)
      flt == IsFloat(t)   inf == IsInf(t)    nan == IsNan(t)
      int == dec \/ oct \/ hex
      val == IF int THEN IntValueOf(t, oct, hex) ELSE [neg |-> FALSE, mag |-> <<0>>]
      fits == int /\ FitsI64(val.neg, val.mag)
      ref == IF null THEN "null" ELSE IF tru \/ fal THEN "bool" ELSE IF int THEN "int"
             ELSE IF flt \/ inf \/ nan THEN "float" ELSE "str"
      must == IF t = TextNull THEN "null"
              ELSE IF t \in {TextTrue, TextFalse} THEN "bool"
              ELSE IF int THEN (IF fits THEN "int" ELSE "none")
              ELSE IF flt \/ inf \/ nan THEN "float"
              ELSE "none" IN
  [t |-> t, null |-> null, tru |-> tru, fal |-> fal, dec |-> dec, oct |-> oct, hex |-> hex, flt |-> flt,
   inf |-> inf, nan |-> nan, int |-> int, val |-> val, fits |-> fits, ref |-> ref, must |-> must]

RefType(t) == Facts(t).ref
MustType(t) == Facts(t).must
MustRecognise(t) == MustType(t) # "none"
IntFits(t) == Facts(t).fits

\* ------------------------------------------------------------------------------------------------
\* outcomes:  [ty, fk, v]
\*   ty = "null" | "bool" | "int" | "float" | "str" | "bad"       ("bad" = BadValue / None)
\*   v  = bool: the characters of true / false; int: the decimal text of the value;
\*        float: the decimal text whose IEEE reading is the value (fk = "text" | "dec"), or the
\*        characters of  inf / -inf / nan  (fk = "inf+" | "inf-" | "nan");  otherwise <<>>
\*   A "str" outcome always means: a string whose content is identical to the scalar text.
\* ------------------------------------------------------------------------------------------------
ONull == [ty |-> "null", fk |-> "", v |-> <<>>]
OBool(b) == [ty |-> "bool", fk |-> "", v |-> IF b THEN TextTrue ELSE TextFalse]
OInt(val) == [ty |-> "int", fk |-> "", v |-> IntChars(val)]
OFloatText(t) == [ty |-> "float", fk |-> "text", v |-> t]
OFloatDec(val) == [ty |-> "float", fk |-> "dec", v |-> IntChars(val)]
OInfPos == [ty |-> "float", fk |-> "inf+", v |-> <<"i", "n", "f">>]
OInfNeg == [ty |-> "float", fk |-> "inf-", v |-> <<"-", "i", "n", "f">>]
ONan == [ty |-> "float", fk |-> "nan", v |-> <<"n", "a", "n">>]
OStr == [ty |-> "str", fk |-> "", v |-> <<>>]
OBad == [ty |-> "bad", fk |-> "", v |-> <<>>]

\* the float a float / inf / nan literal denotes
FloatOutcome(F) == IF F.nan THEN ONan
                   ELSE IF F.inf THEN (IF F.t[1] = "-" THEN OInfNeg ELSE OInfPos)
                   ELSE OFloatText(F.t)

\* The typed readings the core schema admits for the text of an untagged plain scalar, as a set
\* (empty for a non-literal). An integer literal beyond 64 bits has no exact integer reading; if it
\* is decimal it is also a literal of the float expression and may be read as that float.
TypedReadings(F) ==
  IF F.ref = "null" THEN {ONull}
  ELSE IF F.ref = "bool" THEN {OBool(F.tru)}
  ELSE IF F.ref = "int" THEN (IF F.fits THEN {OInt(F.val)} ELSE IF F.dec THEN {OFloatText(F.t)} ELSE {})
  ELSE IF F.ref = "float" THEN {FloatOutcome(F)}
  ELSE {}

\* ------------------------------------------------------------------------------------------------
\* what the property allows
\* ------------------------------------------------------------------------------------------------
Styles == {"plain", "single", "double", "literal", "folded"}
\* tag classes: no tag; the four core-schema type tags; !!str; any other tag
Tags == {"none", "int", "float", "bool", "null", "str", "foreign"}
CoreTags == {"int", "float", "bool", "null"}

\* plain scalar under a core-schema tag: a value of exactly that type agreeing with the untagged
\* reading of the text (an integer may widen to a float), or BadValue; the own-tag literals that
\* are always accepted (decimal numbers, true/false, null/~) exclude BadValue.
TaggedAllowedF(F, tag) ==
  CASE tag = "int" ->
         (IF F.fits THEN {OInt(F.val)} ELSE {})
         \cup (IF F.dec /\ F.fits THEN {} ELSE {OBad})
    [] tag = "float" ->
         (IF F.ref = "float" THEN {FloatOutcome(F)}
          ELSE IF F.dec THEN {OFloatText(F.t)}                  \* decimal integer read as a float
          ELSE IF F.int THEN {OFloatDec(F.val)}                  \* 0x / 0o integer widened
          ELSE {})
         \cup (IF F.flt /\ ~F.dec THEN {} ELSE {OBad})
    [] tag = "bool" ->
         (IF F.ref = "bool" THEN {OBool(F.tru)} ELSE {})
         \cup (IF F.t \in {TextTrue, TextFalse} THEN {} ELSE {OBad})
    [] tag = "null" ->
         (IF F.null THEN {ONull} ELSE {})
         \cup (IF F.t \in {TextNull, <<"~">>} THEN {} ELSE {OBad})

\* The set of outcomes the property allows for a scalar with these facts, style and tag class.
AllowedF(F, style, tag) ==
  IF style = "plain" THEN
       (IF tag = "none" THEN TypedReadings(F) \cup (IF F.must # "none" THEN {} ELSE {OStr})
        ELSE IF tag \in CoreTags THEN TaggedAllowedF(F, tag)
        ELSE {OStr})
  ELSE \* "every quoted or block scalar loads as a string with identical content": whatever the tag
       \* (the tagged rule of the property speaks of plain scalars only)
       {OStr}
Allowed(t, style, tag) == AllowedF(Facts(t), style, tag)

\* the tagged rule of the property as a predicate on one result
TaggedOK(t, tag, result) == result \in Allowed(t, "plain", tag)

\* ------------------------------------------------------------------------------------------------
\* judging a RECORDED result (impl -> spec).  r = [ty, b, iv, s, fk, fbits, pbits]:
\*   b = "true"/"false"; iv = characters of the i64 printed in decimal; s = characters of the
\*   string content; fk = "fin" | "inf+" | "inf-" | "nan"; fbits = bit pattern of the float;
\*   pbits = bit pattern of Rust's own `parse::<f64>()` of the scalar text ("" if it does not parse)
\* ------------------------------------------------------------------------------------------------
RealMatches(o, r, t) ==
  /\ r.ty = o.ty
  /\ CASE o.ty = "bool" -> r.b = (IF o.v = <<"t", "r", "u", "e">> THEN "true" ELSE "false")
       [] o.ty = "int" -> r.iv = o.v
       [] o.ty = "str" -> r.s = t
       [] o.ty = "float" ->
            (CASE o.fk = "text" -> r.pbits # "" /\ r.fbits = r.pbits
               [] o.fk = "dec" -> TRUE     \* widened 0x/0o integer: value not judgeable here (see check's assumptions)
               [] OTHER -> r.fk = o.fk)
       [] OTHER -> TRUE
RealOKF(F, style, tag, r) == \E o \in AllowedF(F, style, tag) : RealMatches(o, r, F.t)
RealOK(t, style, tag, r) == RealOKF(Facts(t), style, tag, r)
=============================================================================
