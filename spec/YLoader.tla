---------------------------- MODULE YLoader ----------------------------
(* C07: loaded documents mirror the event stream.

   Events are records with  k (kind), aid (anchor id / alias id) and, for scalars,  res  = the node
   the scalar resolves to (resolution itself is C08's subject; the recorder fills `res` with the
   library's own resolver so that this module is about structure only).
   Nodes are records as the harness projects them:  [t |-> "seq", v |-> <<nodes>>],
   [t |-> "map", v |-> << <<key, value>>, ... >>], [t |-> "bad"], and scalar records.

   Compose  = REFERENCE: what the property says a sentence denotes.
   Load     = IMPLEMENTATION-SHAPED: saphyr/src/loader.rs (doc_stack, key_stack, anchor_map, docs),
              one operator per on_event arm. `sentinel = TRUE` is the code before the repair (a
              BadValue placeholder on the key stack), kept as a negative control.               *)
EXTENDS Naturals, Sequences, FiniteSets

Bad == [t |-> "bad"]
LOCAL Last(q) == q[Len(q)]
LOCAL Front(q) == SubSeq(q, 1, Len(q) - 1)

\* structural equality of nodes (guards on the node kind first: TLC refuses to compare values of
\* different types such as a sequence with a string)
RECURSIVE NodeEq(_, _)
NodeEq(a, b) ==
  IF a.t # b.t THEN FALSE
  ELSE IF a.t = "seq" THEN Len(a.v) = Len(b.v) /\ \A i \in 1..Len(a.v) : NodeEq(a.v[i], b.v[i])
  ELSE IF a.t = "map" THEN Len(a.v) = Len(b.v) /\ \A i \in 1..Len(a.v) : NodeEq(a.v[i][1], b.v[i][1]) /\ NodeEq(a.v[i][2], b.v[i][2])
  ELSE a = b
SeqEq(x, y) == Len(x) = Len(y) /\ \A i \in 1..Len(x) : NodeEq(x[i], y[i])

\* ---------------- reference ----------------
\* pairs of a mapping from the alternating key/value items, a later duplicate key wins
RECURSIVE PairUp(_, _, _)
PutPair(pairs, k, v) ==
  IF \E i \in 1..Len(pairs) : NodeEq(pairs[i][1], k)
  THEN \* later value wins; the entry moves to the back (position of a duplicated key is not asserted, see SameTree)
       SelectSeq(pairs, LAMBDA p : ~NodeEq(p[1], k)) \o << <<k, v>> >>
  ELSE Append(pairs, <<k, v>>)
PairUp(items, i, acc) == IF i + 1 > Len(items) THEN acc ELSE PairUp(items, i + 2, PutPair(acc, items[i], items[i + 1]))
HasDupKeys(items) == \E i, j \in 1..Len(items) : i < j /\ i % 2 = 1 /\ j % 2 = 1 /\ NodeEq(items[i], items[j])

\* state: [stack: frames [kind, items, aid], anchors: seq of <<id, node>>, docs, root: <<>> | <<node>>, dups: BOOLEAN]
CInit == [stack |-> <<>>, anchors |-> <<>>, docs |-> <<>>, root |-> <<>>, dups |-> FALSE]
RECURSIVE AFind(_, _, _)
AFind(m, id, i) == IF i = 0 THEN <<>> ELSE IF m[i][1] = id THEN <<m[i][2]>> ELSE AFind(m, id, i - 1)
CDone(c, node, aid) ==
  LET c1 == IF aid > 0 THEN [c EXCEPT !.anchors = Append(@, <<aid, node>>)] ELSE c IN
  IF c1.stack = <<>> THEN [c1 EXCEPT !.root = <<node>>]
  ELSE [c1 EXCEPT !.stack[Len(c1.stack)].items = Append(@, node)]
CStep(c, e) ==
  IF e.k = "Scalar" THEN CDone(c, e.res, e.aid)
  ELSE IF e.k = "Alias" THEN LET f == AFind(c.anchors, e.aid, Len(c.anchors)) IN CDone(c, IF f = <<>> THEN Bad ELSE f[1], 0)
  ELSE IF e.k = "SequenceStart" THEN [c EXCEPT !.stack = Append(@, [kind |-> "seq", items |-> <<>>, aid |-> e.aid])]
  ELSE IF e.k = "MappingStart" THEN [c EXCEPT !.stack = Append(@, [kind |-> "map", items |-> <<>>, aid |-> e.aid])]
  ELSE IF e.k = "SequenceEnd" THEN LET f == Last(c.stack) IN CDone([c EXCEPT !.stack = Front(@)], [t |-> "seq", v |-> f.items], f.aid)
  ELSE IF e.k = "MappingEnd" THEN LET f == Last(c.stack) IN
       CDone([c EXCEPT !.stack = Front(@), !.dups = @ \/ HasDupKeys(f.items)], [t |-> "map", v |-> PairUp(f.items, 1, <<>>)], f.aid)
  ELSE IF e.k = "DocumentEnd" THEN [c EXCEPT !.docs = Append(@, IF c.root = <<>> THEN Bad ELSE c.root[1]), !.root = <<>>]
  ELSE c          \* StreamStart, StreamEnd, DocumentStart
RECURSIVE CRun(_, _, _)
CRun(c, evs, i) == IF i > Len(evs) THEN c ELSE CRun(CStep(c, evs[i]), evs, i + 1)
Compose(evs) == CRun(CInit, evs, 1).docs
ComposeDups(evs) == CRun(CInit, evs, 1).dups

\* equality of trees where the position of entries in a mapping is ignored (used only when the
\* sentence contains a duplicated key, whose resulting position the property does not fix)
RECURSIVE SameUnordered(_, _)
SameUnordered(a, b) ==
  IF a.t # b.t THEN FALSE
  ELSE IF a.t = "seq" THEN Len(a.v) = Len(b.v) /\ \A i \in 1..Len(a.v) : SameUnordered(a.v[i], b.v[i])
  ELSE IF a.t = "map" THEN Len(a.v) = Len(b.v) /\ \A i \in 1..Len(a.v) : \E j \in 1..Len(b.v) : SameUnordered(a.v[i][1], b.v[j][1]) /\ SameUnordered(a.v[i][2], b.v[j][2])
  ELSE a = b
SameDocs(ref, real, dups) ==
  IF ~dups THEN SeqEq(ref, real)
  ELSE Len(ref) = Len(real) /\ \A i \in 1..Len(ref) : SameUnordered(ref[i], real[i])

\* ---------------- implementation-shaped ----------------
\* doc_stack: seq of [node, aid]; key_stack: seq of <<>> (no pending key) | <<node>>; anchor_map; docs
LInit == [ds |-> <<>>, ks |-> <<>>, am |-> <<>>, docs |-> <<>>]
NoKey(sentinel) == IF sentinel THEN <<Bad>> ELSE <<>>
IsNoKey(k, sentinel) == IF sentinel THEN k = <<Bad>> ELSE k = <<>>
\* hash.insert(key, value) of hashlink: replaces the value and moves the entry to the back
MapInsert(pairs, k, v) == PutPair(pairs, k, v)
InsertNew(l, node, aid, sentinel) ==
  LET l1 == IF aid > 0 THEN [l EXCEPT !.am = Append(@, <<aid, node>>)] ELSE l IN
  IF l1.ds = <<>> THEN [l1 EXCEPT !.ds = << [node |-> node, aid |-> aid] >>]
  ELSE LET parent == Last(l1.ds).node IN
       IF parent.t = "seq" THEN [l1 EXCEPT !.ds[Len(l1.ds)].node.v = Append(@, node)]
       ELSE IF parent.t = "map"
       THEN LET ck == Last(l1.ks) IN
            IF IsNoKey(ck, sentinel) THEN [l1 EXCEPT !.ks[Len(l1.ks)] = <<node>>]
            ELSE [l1 EXCEPT !.ds[Len(l1.ds)].node.v = MapInsert(@, ck[1], node), !.ks[Len(l1.ks)] = NoKey(sentinel)]
       ELSE l1      \* parent is a scalar: the node is dropped (cannot happen for a grammatical sentence)
LStep(l, e, sentinel) ==
  IF e.k = "DocumentEnd"
  THEN IF Len(l.ds) = 0 THEN [l EXCEPT !.docs = Append(@, Bad)]
       ELSE [l EXCEPT !.docs = Append(@, Last(l.ds).node), !.ds = Front(@)]      \* `_ => unreachable!()` when Len > 1
  ELSE IF e.k = "SequenceStart" THEN [l EXCEPT !.ds = Append(@, [node |-> [t |-> "seq", v |-> <<>>], aid |-> e.aid])]
  ELSE IF e.k = "MappingStart" THEN [l EXCEPT !.ds = Append(@, [node |-> [t |-> "map", v |-> <<>>], aid |-> e.aid]), !.ks = Append(@, NoKey(sentinel))]
  ELSE IF e.k = "SequenceEnd" THEN LET n == Last(l.ds) IN InsertNew([l EXCEPT !.ds = Front(@)], n.node, n.aid, sentinel)
  ELSE IF e.k = "MappingEnd" THEN LET n == Last(l.ds) IN InsertNew([l EXCEPT !.ds = Front(@), !.ks = Front(@)], n.node, n.aid, sentinel)
  ELSE IF e.k = "Scalar" THEN InsertNew(l, e.res, e.aid, sentinel)
  ELSE IF e.k = "Alias" THEN LET f == AFind(l.am, e.aid, Len(l.am)) IN InsertNew(l, IF f = <<>> THEN Bad ELSE f[1], 0, sentinel)
  ELSE l
\* panic sites of on_event: pop().unwrap() on SequenceEnd/MappingEnd, key_stack.pop().unwrap(), DocumentEnd with > 1 open nodes
LSafe(l, e) ==
  /\ (e.k \in {"SequenceEnd", "MappingEnd"}) => Len(l.ds) >= 1
  /\ (e.k = "MappingEnd") => Len(l.ks) >= 1
  /\ (e.k = "DocumentEnd") => Len(l.ds) <= 1
RECURSIVE LRun(_, _, _, _)
LRun(l, evs, i, sentinel) == IF i > Len(evs) THEN l ELSE LRun(LStep(l, evs[i], sentinel), evs, i + 1, sentinel)
Load(evs) == LRun(LInit, evs, 1, FALSE).docs
=======================================================================
