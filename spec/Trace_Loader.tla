---------------------------- MODULE Trace_Loader ----------------------------
(* Judge for C07. Every record: the events the real parser delivered (scalars carry the node they
   resolve to), whether the parser reported an error, whether loading failed, the documents
   loaded. Verdict by the reference Compose of YLoader: load fails exactly when the parser
   errs, and otherwise the documents are what the sentence denotes.                            *)
EXTENDS YLoader, Json, IOUtils, TLC
Rec == ndJsonDeserialize(IOEnv.TRACE)
VARIABLE l
Init == l = 1
Verdict(e) ==
  IF e.panic THEN "loader panicked"
  ELSE IF e.perr # e.failed THEN "load fails exactly when the parser reports an error: violated"
  ELSE IF e.perr THEN "ok"
  ELSE IF SameDocs(Compose(e.evs), e.docs, ComposeDups(e.evs)) THEN "ok"
  ELSE "loaded documents differ from what the event sentence denotes"
Next == /\ l <= Len(Rec)
        /\ LET v == Verdict(Rec[l]) IN IF v = "ok" THEN TRUE ELSE PrintT(<<"REJECT", l, v>>)
        /\ l' = l + 1
AllJudged == (l = Len(Rec) + 1) => PrintT(<<"JUDGED", Len(Rec)>>)
=============================================================================
