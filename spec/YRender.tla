---------------------------- MODULE YRender ----------------------------
(* REFERENCE module: a renderer from (abstract node tree, layout choices) to YAML text, written from
   the YAML 1.2.2 productions (DESIGN.md appendix A lists what it may emit), together with the
   events the tree denotes. It is deliberately NOT complete for the language; it is sound for it:
   every text it produces has exactly one reading.

   Both the tree and every layout choice are drawn from a *choice tape* (a sequence of naturals,
   0 past its end), consumed left to right. The renderer returns
       [txt  : text (sequence of characters),
        evs  : the denoted events as records [k, v, style, aid, tag],
        i    : next tape position,
        na   : next anchor id (anchors are numbered in order of appearance in the stream),
        av   : ids of the anchors of the current document whose node is complete (alias targets)]

   Contexts: `n` is the indentation of the enclosing block collection (-1 at top level): nested
   block content must be indented more than n; `d` bounds the nesting depth.                   *)
EXTENDS Naturals, Integers, Sequences, YRenderScalar, YRenderBlock

Cell(t, i) == IF i <= Len(t) THEN t[i] ELSE 0
Spaces(n) == [k \in 1..n |-> " "]
E(k, v, style, aid, tag) == [k |-> k, v |-> v, style |-> style, aid |-> aid, tag |-> tag]
E0(k) == E(k, <<>>, "", 0, <<>>)
Null == E("Scalar", <<"~">>, "plain", 0, <<>>)
R(txt, evs, st) == [txt |-> txt, evs |-> evs, i |-> st.i, na |-> st.na, av |-> st.av, sec |-> st.sec]
\* sec: the prefix the current document gave to the secondary handle "!!" with a %TAG directive (<<>> = the default)
St(i, na, av) == [i |-> i, na |-> na, av |-> av, sec |-> <<>>]
StOf(r) == [i |-> r.i, na |-> r.na, av |-> r.av, sec |-> r.sec]
Adv(st, k) == [st EXCEPT !.i = @ + k]

YamlTag == <<"t", "a", "g", ":", "y", "a", "m", "l", ".", "o", "r", "g", ",", "2", "0", "0", "2", ":">>
DigitCh(k) == <<"0", "1", "2", "3", "4", "5", "6", "7", "8", "9">>[(k % 10) + 1]
AnchorName(id) == IF id < 10 THEN <<"a", DigitCh(id)>> ELSE <<"a", DigitCh(id \div 10), DigitCh(id)>>

\* ---- scalar pool: presentation (one line), value, style; plain ones are safe in every context ----
ScalPool == <<
  [p |-> <<"a">>, v |-> <<"a">>, s |-> "plain"],
  [p |-> <<"b", " ", "c">>, v |-> <<"b", " ", "c">>, s |-> "plain"],
  [p |-> <<"x", "-", "1">>, v |-> <<"x", "-", "1">>, s |-> "plain"],
  [p |-> <<"d", ":", "e">>, v |-> <<"d", ":", "e">>, s |-> "plain"],
  [p |-> <<"'", "s", " ", "q", "'">>, v |-> <<"s", " ", "q">>, s |-> "single"],
  [p |-> <<"\"", "d", "\\", "t", "q", "\"">>, v |-> <<"d", "\t", "q">>, s |-> "double"],
  [p |-> <<"f", "#", "g">>, v |-> <<"f", "#", "g">>, s |-> "plain"],
  [p |-> <<"-", "h">>, v |-> <<"-", "h">>, s |-> "plain"],
  [p |-> <<"\"", "i", ":", " ", "j", "\"">>, v |-> <<"i", ":", " ", "j">>, s |-> "double"],
  [p |-> <<"'", "i", "t", "'", "'", "s", "'">>, v |-> <<"i", "t", "'", "s">>, s |-> "single"],
  [p |-> <<"1", "2">>, v |-> <<"1", "2">>, s |-> "plain"],
  [p |-> <<"?", "k">>, v |-> <<"?", "k">>, s |-> "plain"] >>
Scal(c) == ScalPool[(c % Len(ScalPool)) + 1]

\* end of line: optional trailing blanks / comment / following blank or comment lines
Eol(c) == LET k == c % 8 IN
  IF k = 1 THEN <<" ", "#", "c", "\n">>
  ELSE IF k = 2 THEN <<"\n", "\n">>
  ELSE IF k = 3 THEN <<" ", " ", "\n">>
  ELSE IF k = 4 THEN <<"\n", " ", " ", "#", " ", "c", "\n">>
  ELSE IF k = 5 THEN <<" ", "#", "\n", "\n">>
  ELSE IF k = 6 THEN <<"\t", "#", " ", "c", "\n">>          \* a tab separates the comment
  ELSE IF k = 7 THEN <<" ", "\t", "\n">>                     \* trailing blanks with a tab
  ELSE <<"\n">>

EolT(c, tabok) == IF tabok \/ (c % 8) \notin {6, 7} THEN Eol(c) ELSE <<"\n">>

SecPrefix == <<"t", "a", "g", ":", "x", ":">>
PriPrefix == <<"t", "a", "g", ":", "p", ":">>
\* ---- node properties: 0 none, 1 anchor, 2 tag !t, 3 tag !!str, 4 anchor then tag, 5 tag then anchor, 6 the non-specific tag ! ----
\* returns [txt (with a trailing space), aid, tag, st]
Props(t, st, allow) ==
  LET c == IF allow THEN (Cell(t, st.i) % 8) ELSE 0
      st1 == Adv(st, 1)
      an == <<"&">> \o AnchorName(st.na)
      tg1 == <<"!", "t">>  tv1 == << (IF st.sec = <<>> THEN <<"!">> ELSE PriPrefix), <<"t">> >>      \* a document that redefines "!!" also gives "!" a prefix
      tg2 == <<"!", "!", "s", "t", "r">>  tv2 == << (IF st.sec = <<>> THEN YamlTag ELSE st.sec), <<"s", "t", "r">> >>
  IN IF c = 1 THEN [txt |-> an \o <<" ">>, aid |-> st.na, tag |-> <<>>, st |-> [st1 EXCEPT !.na = @ + 1]]
     ELSE IF c = 2 THEN [txt |-> tg1 \o <<" ">>, aid |-> 0, tag |-> tv1, st |-> st1]
     ELSE IF c = 3 THEN [txt |-> tg2 \o <<" ">>, aid |-> 0, tag |-> tv2, st |-> st1]
     ELSE IF c = 4 THEN [txt |-> an \o <<" ">> \o tg1 \o <<" ">>, aid |-> st.na, tag |-> tv1, st |-> [st1 EXCEPT !.na = @ + 1]]
     ELSE IF c = 5 THEN [txt |-> tg2 \o <<" ", " ">> \o an \o <<" ">>, aid |-> st.na, tag |-> tv2, st |-> [st1 EXCEPT !.na = @ + 1]]
     ELSE IF c = 6 THEN [txt |-> <<"!", " ">>, aid |-> 0, tag |-> << <<>>, <<"!">> >>, st |-> st1]             \* the non-specific tag: never resolved through a handle
     ELSE [txt |-> <<>>, aid |-> 0, tag |-> <<>>, st |-> st1]
\* after the node carrying anchor `aid` is complete it may be the target of an alias
Done(st, aid) == IF aid > 0 THEN [st EXCEPT !.av = Append(@, aid)] ELSE st

\* ---- scalars that span lines, as the value after "-" or "key:" (cursor right after the indicator; the parent's
\*      entries are at column n). Block scalars come from YRenderBlock, multi-line flow scalars from YRenderScalar ----
BLinePool == << Ln(<<"t", "x">>, "text", 0), Ln(<<"#", " ", "n", "o">>, "text", 0), Ln(<<"-", " ", "e">>, "text", 0), Ln(<<"k", ":", " ", "v">>, "text", 0),
               Ln(<<" ", "m">>, "more", 0), Ln(<<>>, "empty", 0), Ln(<<"l", "a", "s", "t">>, "text", 0) >>
BLines(t, i, cnt) == [j \in 1..cnt |-> BLinePool[(Cell(t, i + j - 1) % Len(BLinePool)) + 1]]
BlockLeaf(t, st, n) ==
  LET pr == Props(t, st, TRUE)
      i == pr.st.i
      literal == (Cell(t, i) % 2) = 0
      chomp == <<"clip", "strip", "keep">>[((Cell(t, i) \div 2) % 3) + 1]
      cnt == (Cell(t, i + 1) % 3) + 1
      ls0 == BLines(t, i + 2, cnt)
      \* keep it unambiguous: the first line is a content line that does not start with a blank (no indentation indicator needed)
      ls == IF IsEmpty(ls0[1]) \/ IsMore(ls0[1]) THEN <<Ln(<<"f">>, "text", 0)>> \o ls0 ELSE ls0
      extra == Cell(t, i + 2 + cnt) % 3
      indent == n + 1 + extra
      comment == (Cell(t, i + 3 + cnt) % 4) = 3
      txt == <<" ">> \o pr.txt \o Header(literal, chomp, 0, 0, comment) \o <<"\n">> \o LinesText(ls, 1, indent, TRUE)
  IN R(txt, <<E("Scalar", BlockValue(ls, literal, chomp), IF literal THEN "literal" ELSE "folded", pr.aid, pr.tag)>>, Done(Adv(pr.st, 4 + cnt), pr.aid))
MLPool == << <<"w", " ", "x">>, <<"w", "\n", "x">>, <<"w", " ", "x", " ", "y">>, <<"w", "\n", "\n", "x">>, <<"w", ":", "x", " ", "y">> >>
MultiLeaf(t, st, n) ==
  LET pr == Props(t, st, TRUE)
      i == pr.st.i
      tg == MLPool[(Cell(t, i) % Len(MLPool)) + 1]
      style == <<"plain", "single", "double">>[(Cell(t, i + 1) % 3) + 1]
      ch == [j \in 1..Len(tg) |-> IF tg[j] = " " THEN 1 ELSE 0]            \* every foldable space is written as a line break
      eb == [j \in 1..Len(tg) |-> 0]
      ctx == [name |-> "value", key |-> FALSE, flow |-> FALSE, n |-> n]
      pres == Present(tg, style, ch, eb, ctx, Cell(t, i + 2) % 2, Cell(t, i + 3) % 2)
  IN R(<<" ">> \o pr.txt \o pres \o Eol(Cell(t, i + 4)), <<E("Scalar", tg, style, pr.aid, pr.tag)>>, Done(Adv(pr.st, 5), pr.aid))

RECURSIVE FlowNode(_, _, _, _), FlowSeqItems(_, _, _, _, _, _), FlowMapItems(_, _, _, _, _, _),
          BlockSeq(_, _, _, _, _, _), BlockMap(_, _, _, _, _, _), AfterDash(_, _, _, _, _), AfterColon(_, _, _, _), KeyNode(_, _, _, _, _), Pair(_, _, _, _, _)

\* a scalar or alias on the current line (no props): returns R
Leaf(t, st) ==
  LET c == Cell(t, st.i) IN
  IF st.av # <<>> /\ c % 16 = 15
  THEN LET id == st.av[(Cell(t, st.i + 1) % Len(st.av)) + 1] IN
       R(<<"*">> \o AnchorName(id), <<E("Alias", <<>>, "", id, <<>>)>>, Adv(st, 2))
  ELSE LET s == Scal(c) IN R(s.p, <<E("Scalar", s.v, s.s, 0, <<>>)>>, Adv(st, 1))
\* ':' is a legal anchor-name character, so an alias used as a key needs a blank before the ':'
KTxt(k) == IF k.evs[1].k = "Alias" THEN k.txt \o <<" ">> ELSE k.txt
\* a scalar with optional properties
PScalar(t, st) ==
  LET pr == Props(t, st, TRUE) s == Scal(Cell(t, pr.st.i)) IN
  R(pr.txt \o s.p, <<E("Scalar", s.v, s.s, pr.aid, pr.tag)>>, Done(Adv(pr.st, 1), pr.aid))

\* ---- flow collections. `n` = indentation of the enclosing block (continuation lines need > n);
\*      `ml` = may break lines; separators inside flow are spaces, or a break plus n+1.. spaces ----
NoML == -100      \* as `n`: the flow node must stay on one line (it is an implicit key)
\* (a line break may be preceded by a comment)
FSep(t, i, n, ml) == IF ml /\ (Cell(t, i) % 8) = 7 THEN <<" ", "#", " ", "c", "\n">> \o Spaces(n + 1 + ((Cell(t, i) \div 8) % 3))
                     ELSE IF ml /\ (Cell(t, i) % 4) = 3 THEN <<"\n">> \o Spaces(n + 1 + ((Cell(t, i) \div 4) % 3)) ELSE IF (Cell(t, i) % 2) = 1 THEN <<" ">> ELSE <<>>
FlowNode(t, st, n, d) ==
  LET c == (Cell(t, st.i) % 8) IN
  IF d > 0 /\ c = 6
  THEN LET pr == Props(t, Adv(st, 1), TRUE)
           cnt == (Cell(t, pr.st.i) % 4)
           ml == n # NoML /\ (Cell(t, pr.st.i + 1) % 2) = 1
           r == FlowSeqItems(t, Adv(pr.st, 2), n, d - 1, cnt, ml)
       IN R(pr.txt \o <<"[">> \o r.txt \o <<"]">>, <<E("SequenceStart", <<>>, "", pr.aid, pr.tag)>> \o r.evs \o <<E0("SequenceEnd")>>, Done(StOf(r), pr.aid))
  ELSE IF d > 0 /\ c = 7
  THEN LET pr == Props(t, Adv(st, 1), TRUE)
           cnt == (Cell(t, pr.st.i) % 4)
           ml == n # NoML /\ (Cell(t, pr.st.i + 1) % 2) = 1
           r == FlowMapItems(t, Adv(pr.st, 2), n, d - 1, cnt, ml)
       IN R(pr.txt \o <<"{">> \o r.txt \o <<"}">>, <<E("MappingStart", <<>>, "", pr.aid, pr.tag)>> \o r.evs \o <<E0("MappingEnd")>>, Done(StOf(r), pr.aid))
  ELSE IF c = 5 THEN Leaf(t, Adv(st, 1))
  ELSE PScalar(t, Adv(st, 1))
\* items of a flow sequence: a flow node, or a single pair  k: v | k: | : v | ? k : v
FlowSeqItems(t, st, n, d, cnt, ml) ==
  IF cnt = 0 THEN R(FSep(t, st.i, n, ml), <<>>, Adv(st, 1))
  ELSE LET c == (Cell(t, st.i) % 8)
           lead == FSep(t, st.i + 1, n, ml)
           st1 == Adv(st, 2)
           item == IF c = 1   \* k: v
                   THEN LET k == Leaf(t, st1) v == FlowNode(t, StOf(k), n, d) IN
                        R(KTxt(k) \o <<":", " ">> \o v.txt, <<E0("MappingStart")>> \o k.evs \o v.evs \o <<E0("MappingEnd")>>, StOf(v))
                   ELSE IF c = 2   \* k:   (empty value)
                   THEN LET k == Leaf(t, st1) IN R(KTxt(k) \o <<":">>, <<E0("MappingStart")>> \o k.evs \o <<Null, E0("MappingEnd")>>, StOf(k))
                   ELSE IF c = 3   \* : v  (empty key)
                   THEN LET v == FlowNode(t, st1, n, d) IN R(<<":", " ">> \o v.txt, <<E0("MappingStart"), Null>> \o v.evs \o <<E0("MappingEnd")>>, StOf(v))
                   ELSE IF c = 4   \* ? k : v   |  ? k :  (empty value)  |  ? k  (no value)  |  ?  (empty key and value)
                   THEN LET form == Cell(t, st1.i) % 4 IN
                        IF form = 3 THEN R(<<"?", " ">>, <<E0("MappingStart"), Null, Null, E0("MappingEnd")>>, Adv(st1, 1))
                        ELSE LET k == FlowNode(t, Adv(st1, 1), n, d) IN
                             IF form = 2 THEN R(<<"?", " ">> \o k.txt \o <<" ">>, <<E0("MappingStart")>> \o k.evs \o <<Null, E0("MappingEnd")>>, StOf(k))
                             ELSE IF form = 1 THEN R(<<"?", " ">> \o k.txt \o <<" ", ":", " ">>, <<E0("MappingStart")>> \o k.evs \o <<Null, E0("MappingEnd")>>, StOf(k))
                             ELSE LET v == FlowNode(t, StOf(k), n, d) IN
                                  R(<<"?", " ">> \o k.txt \o <<" ", ":", " ">> \o v.txt, <<E0("MappingStart")>> \o k.evs \o v.evs \o <<E0("MappingEnd")>>, StOf(v))
                   ELSE FlowNode(t, st1, n, d)
           trail == FSep(t, item.i, n, ml)
           sep == IF cnt > 1 THEN <<",">> ELSE IF (Cell(t, item.i + 1) % 4) = 3 THEN <<",">> \o FSep(t, item.i + 2, n, ml) ELSE <<>>
           rest == IF cnt > 1 THEN FlowSeqItems(t, Adv(StOf(item), 2), n, d, cnt - 1, ml) ELSE R(<<>>, <<>>, Adv(StOf(item), 3))
       IN R(lead \o item.txt \o trail \o sep \o rest.txt, item.evs \o rest.evs, StOf(rest))
\* entries of a flow mapping:  k: v | k | k: | ? k : v
FlowMapItems(t, st, n, d, cnt, ml) ==
  IF cnt = 0 THEN R(FSep(t, st.i, n, ml), <<>>, Adv(st, 1))
  ELSE LET c == (Cell(t, st.i) % 8)
           lead == FSep(t, st.i + 1, n, ml)
           st1 == Adv(st, 2)
           item == IF c = 1   \* k   (no value)
                   THEN LET k == Leaf(t, st1) IN R(k.txt, k.evs \o <<Null>>, StOf(k))
                   ELSE IF c = 2   \* k:
                   THEN LET k == Leaf(t, st1) IN R(KTxt(k) \o <<":">>, k.evs \o <<Null>>, StOf(k))
                   ELSE IF c = 3   \* ? k : v   |  ? k :  |  ? k
                   THEN LET form == Cell(t, st1.i) % 3
                            k == FlowNode(t, Adv(st1, 1), n, d) IN
                        IF form = 2 THEN R(<<"?", " ">> \o k.txt \o <<" ">>, k.evs \o <<Null>>, StOf(k))
                        ELSE IF form = 1 THEN R(<<"?", " ">> \o k.txt \o <<" ", ":", " ">>, k.evs \o <<Null>>, StOf(k))
                        ELSE LET v == FlowNode(t, StOf(k), n, d) IN
                             R(<<"?", " ">> \o k.txt \o <<" ", ":", " ">> \o v.txt, k.evs \o v.evs, StOf(v))
                   ELSE LET k == Leaf(t, st1) v == FlowNode(t, StOf(k), n, d) IN
                        R(KTxt(k) \o <<":", " ">> \o v.txt, k.evs \o v.evs, StOf(v))
           trail == FSep(t, item.i, n, ml)
           sep == IF cnt > 1 THEN <<",">> ELSE IF (Cell(t, item.i + 1) % 4) = 3 THEN <<",">> \o FSep(t, item.i + 2, n, ml) ELSE <<>>
           rest == IF cnt > 1 THEN FlowMapItems(t, Adv(StOf(item), 2), n, d, cnt - 1, ml) ELSE R(<<>>, <<>>, Adv(StOf(item), 3))
       IN R(lead \o item.txt \o trail \o sep \o rest.txt, item.evs \o rest.evs, StOf(rest))

\* ---- block collections ----
\* separation between an indicator ("-", "?", ":") and a node on the same line: blanks, tabs included
SepT(c) == LET k == c % 4 IN IF k = 1 THEN <<" ", " ">> ELSE IF k = 2 THEN <<"\t">> ELSE IF k = 3 THEN <<" ", "\t">> ELSE <<" ">>
\* what follows "-" (cursor right after the dash, entries of this sequence are at column n)
\* tabok: a tab may separate the indicator ("-" or "?") from a node on the same line and may precede a comment / the line
\* break after it (both callers pass TRUE since fix 42d18a3 made saphyr accept "?<TAB>k")
AfterDash(t, st, n, d, tabok) ==
  LET c == (Cell(t, st.i) % 16)  st1 == Adv(st, 1)  sp == Spaces(1 + ((Cell(t, st.i) \div 16) % 2))
      spT == IF tabok THEN SepT(Cell(t, st.i) \div 16) ELSE sp IN
  IF d = 0 \/ c \in {0, 1, 2}       \* scalar (with properties) or alias on the same line
  THEN LET r == IF c = 2 THEN Leaf(t, st1) ELSE PScalar(t, st1) IN R(spT \o r.txt \o Eol(Cell(t, r.i)), r.evs, Adv(StOf(r), 1))
  ELSE IF c = 3                      \* compact nested sequence  "- - a"
  THEN LET r == BlockSeq(t, st1, n + 1 + Len(sp), TRUE, d - 1, <<>>) IN R(sp \o r.txt, r.evs, StOf(r))
  ELSE IF c = 4                      \* compact nested mapping   "- k: v"
  THEN LET r == BlockMap(t, st1, n + 1 + Len(sp), TRUE, d - 1, <<>>) IN R(sp \o r.txt, r.evs, StOf(r))
  ELSE IF c \in {5, 6}               \* nested collection on the following lines, optionally with properties on the dash line
  THEN LET pr == Props(t, st1, TRUE)
           m == n + 1 + (Cell(t, pr.st.i) % 3)
           head == IF pr.txt = <<>> THEN <<>> ELSE <<" ">> \o SubSeq(pr.txt, 1, Len(pr.txt) - 1)
           r == IF c = 5 THEN BlockSeq(t, Adv(pr.st, 2), m, FALSE, d - 1, [aid |-> pr.aid, tag |-> pr.tag])
                ELSE BlockMap(t, Adv(pr.st, 2), m, FALSE, d - 1, [aid |-> pr.aid, tag |-> pr.tag])
       IN R(head \o EolT(Cell(t, pr.st.i + 1), tabok \/ head # <<>>) \o r.txt, r.evs, Done(StOf(r), pr.aid))
  ELSE IF c \in {7, 8}               \* flow collection
  THEN LET r == FlowNode(t, st1, n, 2) IN R(spT \o r.txt \o Eol(Cell(t, r.i)), r.evs, Adv(StOf(r), 1))
  ELSE IF c = 9                      \* empty entry
  THEN R(EolT(Cell(t, st1.i), tabok), <<Null>>, Adv(st1, 1))
  ELSE IF c = 10                     \* properties only: an empty node that carries them
  THEN LET pr == Props(t, st1, TRUE) IN
       IF pr.txt = <<>> THEN R(Eol(0), <<Null>>, pr.st)
       ELSE R(<<" ">> \o SubSeq(pr.txt, 1, Len(pr.txt) - 1) \o Eol(Cell(t, pr.st.i)), <<E("Scalar", <<>>, "plain", pr.aid, pr.tag)>>, Done(Adv(pr.st, 1), pr.aid))
  ELSE IF c = 13 THEN BlockLeaf(t, st1, n)      \* block scalar
  ELSE IF c = 14 THEN MultiLeaf(t, st1, n)      \* flow scalar continued over several lines
  ELSE                               \* scalar on the next line, indented deeper
       LET m == n + 1 + (Cell(t, st1.i) % 3) r == PScalar(t, Adv(st1, 1)) IN
       R(<<"\n">> \o Spaces(m) \o r.txt \o Eol(Cell(t, r.i)), r.evs, Adv(StOf(r), 1))

\* what follows "key:" (entries of this mapping are at column n)
AfterColon(t, st, n, d) ==
  LET c == (Cell(t, st.i) % 16)  st1 == Adv(st, 1)  sp == SepT(Cell(t, st.i) \div 16) IN
  IF d = 0 \/ c \in {0, 1, 2, 3}
  THEN LET r == IF c = 2 THEN Leaf(t, st1) ELSE PScalar(t, st1) IN R(sp \o r.txt \o Eol(Cell(t, r.i)), r.evs, Adv(StOf(r), 1))
  ELSE IF c \in {4, 5}               \* block sequence on the following lines; it may sit at the key's own indentation
  THEN LET pr == Props(t, st1, TRUE)
           m == n + (Cell(t, pr.st.i) % 3)
           head == IF pr.txt = <<>> THEN <<>> ELSE <<" ">> \o SubSeq(pr.txt, 1, Len(pr.txt) - 1)
           r == BlockSeq(t, Adv(pr.st, 2), m, FALSE, d - 1, [aid |-> pr.aid, tag |-> pr.tag])
       IN R(head \o Eol(Cell(t, pr.st.i + 1)) \o r.txt, r.evs, Done(StOf(r), pr.aid))
  ELSE IF c \in {6, 7}               \* block mapping on the following lines, indented deeper
  THEN LET pr == Props(t, st1, TRUE)
           m == n + 1 + (Cell(t, pr.st.i) % 3)
           head == IF pr.txt = <<>> THEN <<>> ELSE <<" ">> \o SubSeq(pr.txt, 1, Len(pr.txt) - 1)
           r == BlockMap(t, Adv(pr.st, 2), m, FALSE, d - 1, [aid |-> pr.aid, tag |-> pr.tag])
       IN R(head \o Eol(Cell(t, pr.st.i + 1)) \o r.txt, r.evs, Done(StOf(r), pr.aid))
  ELSE IF c \in {8, 9}
  THEN LET r == FlowNode(t, st1, n, 2) IN R(sp \o r.txt \o Eol(Cell(t, r.i)), r.evs, Adv(StOf(r), 1))
  ELSE IF c = 10 THEN R(Eol(Cell(t, st1.i)), <<Null>>, Adv(st1, 1))
  ELSE IF c = 11
  THEN LET pr == Props(t, st1, TRUE) IN
       IF pr.txt = <<>> THEN R(Eol(0), <<Null>>, pr.st)
       ELSE R(<<" ">> \o SubSeq(pr.txt, 1, Len(pr.txt) - 1) \o Eol(Cell(t, pr.st.i)), <<E("Scalar", <<>>, "plain", pr.aid, pr.tag)>>, Done(Adv(pr.st, 1), pr.aid))
  ELSE IF c = 13 THEN BlockLeaf(t, st1, n)
  ELSE IF c = 14 THEN MultiLeaf(t, st1, n)
  ELSE LET m == n + 1 + (Cell(t, st1.i) % 3) r == PScalar(t, Adv(st1, 1)) IN
       R(<<"\n">> \o Spaces(m) \o r.txt \o Eol(Cell(t, r.i)), r.evs, Adv(StOf(r), 1))

\* block sequence with entries at column n; `inl`: the first entry continues the current line
\* (the cursor already is at column n); `props` = <<>> or the properties that were written before it
BlockSeq(t, st, n, inl, d, props) ==
  LET cnt == 1 + (Cell(t, st.i) % 3)
      e1 == AfterDash(t, Adv(st, 1), n, d, TRUE)
      p1 == (IF inl THEN <<>> ELSE Spaces(n)) \o <<"-">> \o e1.txt
      e2 == IF cnt >= 2 THEN AfterDash(t, StOf(e1), n, d, TRUE) ELSE R(<<>>, <<>>, StOf(e1))
      p2 == IF cnt >= 2 THEN Spaces(n) \o <<"-">> \o e2.txt ELSE <<>>
      e3 == IF cnt >= 3 THEN AfterDash(t, StOf(e2), n, d, TRUE) ELSE R(<<>>, <<>>, StOf(e2))
      p3 == IF cnt >= 3 THEN Spaces(n) \o <<"-">> \o e3.txt ELSE <<>>
      aid == IF props = <<>> THEN 0 ELSE props.aid
      tag == IF props = <<>> THEN <<>> ELSE props.tag
  IN R(p1 \o p2 \o p3, <<E("SequenceStart", <<>>, "", aid, tag)>> \o e1.evs \o e2.evs \o e3.evs \o <<E0("SequenceEnd")>>, StOf(e3))

\* one key of a block mapping: implicit key (scalar / alias, one line) or explicit "? " key
\* returns R whose txt is everything up to and including ":" (implicit) or the "? key" line(s) plus ":" line start
\* noEmpty: the previous pair was an explicit key without a ":" line, so a ":" here would be read as its value
KeyNode(t, st, n, d, noEmpty) ==
  LET c == (Cell(t, st.i) % 8) IN
  IF c = 7 /\ d > 0     \* explicit key: "? " then a node, then ":" at column n
  THEN LET k == AfterDash(t, Adv(st, 1), n, d - 1, TRUE) IN
       R(<<"?">> \o k.txt \o Spaces(n) \o <<":">>, k.evs, StOf(k))
  ELSE IF c = 6 /\ ~noEmpty        \* empty key ": v"
  THEN R(<<":">>, <<Null>>, Adv(st, 1))
  ELSE IF c = 4 /\ d > 0     \* a flow collection (or flow scalar) on one line as implicit key: "[a, b]: v"
  THEN LET k == FlowNode(t, Adv(st, 1), NoML, 1)
           gap == IF (Cell(t, k.i) % 4) = 3 \/ k.evs[1].k = "Alias" THEN <<" ">> ELSE <<>>
       IN R(k.txt \o gap \o <<":">>, k.evs, Adv(StOf(k), 1))
  ELSE LET k == IF c = 5 THEN Leaf(t, Adv(st, 1)) ELSE PScalar(t, Adv(st, 1))
           gap == IF (Cell(t, k.i) % 4) = 3 \/ k.evs[1].k = "Alias" THEN <<" ">> ELSE <<>>
       IN R(k.txt \o gap \o <<":">>, k.evs, Adv(StOf(k), 1))

\* one pair of a block mapping (cursor at column n): "key: value", or an explicit key with no ":" line at all (null value)
NoValuePair(t, st, d) == (Cell(t, st.i) % 8) = 7 /\ d > 0 /\ (Cell(t, st.i + 1) % 4) = 3
Pair(t, st, n, d, noEmpty) ==
  IF NoValuePair(t, st, d)
  THEN LET k == AfterDash(t, Adv(st, 2), n, d - 1, TRUE) IN R(<<"?">> \o k.txt, k.evs \o <<Null>>, StOf(k))
  ELSE LET k == KeyNode(t, st, n, d, noEmpty) v == AfterColon(t, StOf(k), n, d) IN R(k.txt \o v.txt, k.evs \o v.evs, StOf(v))
BlockMap(t, st, n, inl, d, props) ==
  LET cnt == 1 + (Cell(t, st.i) % 3)
      d1 == IF inl THEN 0 ELSE d
      e1 == Pair(t, Adv(st, 1), n, d1, FALSE)
      p1 == (IF inl THEN <<>> ELSE Spaces(n)) \o e1.txt
      e2 == IF cnt >= 2 THEN Pair(t, StOf(e1), n, d, NoValuePair(t, Adv(st, 1), d1)) ELSE R(<<>>, <<>>, StOf(e1))
      p2 == IF cnt >= 2 THEN Spaces(n) \o e2.txt ELSE <<>>
      e3 == IF cnt >= 3 THEN Pair(t, StOf(e2), n, d, cnt >= 2 /\ NoValuePair(t, StOf(e1), d)) ELSE R(<<>>, <<>>, StOf(e2))
      p3 == IF cnt >= 3 THEN Spaces(n) \o e3.txt ELSE <<>>
      aid == IF props = <<>> THEN 0 ELSE props.aid
      tag == IF props = <<>> THEN <<>> ELSE props.tag
  IN R(p1 \o p2 \o p3, <<E("MappingStart", <<>>, "", aid, tag)>> \o e1.evs \o e2.evs \o e3.evs \o <<E0("MappingEnd")>>, StOf(e3))

\* ---- documents ----
\* one document: returns R; `first` = it is the first document of the stream (may be bare)
Doc(t, st, D, first, prevOpen) ==
  LET c == (Cell(t, st.i) % 8)
      explicit == ~first \/ c >= 4 \/ prevOpen
      yamlDir == explicit /\ ~prevOpen /\ (Cell(t, st.i + 1) % 4) = 3
      tagDir == explicit /\ ~prevOpen /\ ((Cell(t, st.i + 1) \div 4) % 4) = 2          \* %TAG !! tag:x: -- for this document only
      st1 == [Adv(st, 2) EXCEPT !.av = <<>>, !.sec = IF tagDir THEN SecPrefix ELSE <<>>]
      kind == (Cell(t, st1.i) % 8)
      body == IF kind \in {0, 1} THEN BlockSeq(t, Adv(st1, 1), 0, FALSE, D, <<>>)
              ELSE IF kind \in {2, 3} THEN BlockMap(t, Adv(st1, 1), 0, FALSE, D, <<>>)
              ELSE IF kind = 4 THEN LET f == FlowNode(t, Adv(st1, 1), -1, 2) IN R(f.txt \o Eol(Cell(t, f.i)), f.evs, Adv(StOf(f), 1))
              ELSE IF kind = 5 THEN LET s == PScalar(t, Adv(st1, 1)) IN R(s.txt \o Eol(Cell(t, s.i)), s.evs, Adv(StOf(s), 1))
              ELSE IF kind = 6 /\ explicit THEN R(<<>>, <<Null>>, Adv(st1, 1))     \* "---" with nothing: a null document
              ELSE IF kind = 7 /\ explicit /\ (Cell(t, st1.i + 1) % 2) = 1 THEN BlockLeaf(t, Adv(st1, 2), 0)     \* "--- |" : a block scalar as the root (content at column >= 1)
              ELSE LET s == Leaf(t, Adv(st1, 1)) IN R(s.txt \o Eol(Cell(t, s.i)), s.evs, Adv(StOf(s), 1))
      rootBlock == kind = 7 /\ explicit /\ (Cell(t, st1.i + 1) % 2) = 1
      sameLine == explicit /\ kind \in {4, 5, 7} /\ (Cell(t, body.i) % 2) = 1      \* "--- node" on the marker line
      head == (IF yamlDir THEN <<"%", "Y", "A", "M", "L", " ", "1", ".", "2", "\n">> ELSE <<>>)
              \o (IF tagDir THEN <<"%", "T", "A", "G", " ", "!", "!", " ">> \o SecPrefix \o <<"\n", "%", "T", "A", "G", " ", "!", " ">> \o PriPrefix \o <<"\n">> ELSE <<>>)
              \o (IF explicit THEN <<"-", "-", "-">> \o (IF rootBlock THEN <<>> ELSE IF sameLine THEN <<" ">> ELSE Eol(Cell(t, body.i + 1))) ELSE <<>>)
      endMark == (Cell(t, body.i + 2) % 4) = 3
      tail == IF endMark THEN <<".", ".", ".">> \o Eol(Cell(t, body.i + 3)) ELSE <<>>
  IN [txt |-> head \o body.txt \o tail,
      evs |-> <<E("DocumentStart", <<>>, IF explicit THEN "explicit" ELSE "implicit", 0, <<>>)>> \o body.evs \o <<E0("DocumentEnd")>>,
      i |-> body.i + 4, na |-> body.na, av |-> <<>>, ended |-> endMark, yaml |-> yamlDir]

\* a stream of 1..3 documents. A document that declared %YAML needs "..." before the next directive;
\* the renderer simply ends every document that is followed by a %YAML document with "..."
RECURSIVE Docs(_, _, _, _, _)
Docs(t, st, D, k, first) ==
  IF k = 0 THEN [txt |-> <<>>, evs |-> <<>>, i |-> st.i]
  ELSE LET d == Doc(t, st, D, first, FALSE)
           rest == Docs(t, St(d.i, d.na, <<>>), D, k - 1, d.ended)        \* after "..." the next document may be bare
           needEnd == k > 1 /\ ~d.ended /\ Len(rest.txt) > 0 /\ rest.txt[1] = "%"
       IN [txt |-> d.txt \o (IF needEnd THEN <<".", ".", ".", "\n">> ELSE <<>>) \o rest.txt, evs |-> d.evs \o rest.evs, i |-> rest.i]
Stream(t, D) ==
  LET k == 1 + (IF (Cell(t, 1) % 8) = 7 THEN 1 + (Cell(t, 2) % 2) ELSE 0)
      lead == IF (Cell(t, 2) % 8) = 5 THEN <<"#", " ", "c", "\n">> ELSE IF (Cell(t, 2) % 8) = 6 THEN <<"\n">> ELSE <<>>
      ds == Docs(t, St(3, 1, <<>>), D, k, TRUE)
  IN [txt |-> lead \o ds.txt, evs |-> <<E0("StreamStart")>> \o ds.evs \o <<E0("StreamEnd")>>, used |-> ds.i - 1]
=======================================================================
