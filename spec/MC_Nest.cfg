CONSTANTS
  Limit = 1000
  R = 1000
  MaxInput = 100000
INIT Init
NEXT Next
INVARIANT Bounded
CHECK_DEADLOCK FALSE
