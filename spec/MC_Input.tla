---------------------------- MODULE MC_Input ----------------------------
(* All contract-respecting operation sequences on every text of at most N characters: the ring
   buffer of capacity K and the string input answer every operation as the abstract input does. *)
EXTENDS YInput, TLC
CONSTANTS N, K, Depth
Sigma == {"a", " ", "\n", "\r", "<u233>", "#", "-", ".", ":", "\t", "<u0>"}
VARIABLES text, a, b, x, ok, steps
vars == <<text, a, b, x, ok, steps>>
Init == text \in UNION {[1..n -> Sigma] : n \in 0..N} /\ a = AInit(text) /\ b = BInit(text) /\ x = SInit(text) /\ ok = TRUE /\ steps = 0
Bump == steps < Depth /\ steps' = steps + 1 /\ UNCHANGED text
Lookahead == \E n \in 1..K : Bump /\ a' = ALookahead(a, n) /\ b' = BLookahead(b, n, K) /\ x' = SLookahead(x, n) /\ ok' = ok
PeekNth == \E n \in 0..(K - 1) : n < a.buf /\ Bump /\ UNCHANGED <<a, b, x>>
             /\ ok' = (ok /\ BPeekNth(b, n) = APeekNth(a, n) /\ SPeekNth(x, n) = APeekNth(a, n))
SkipN == \E n \in 1..3 : n <= a.buf /\ Bump /\ a' = ASkipN(a, n) /\ b' = BSkipN(b, n) /\ x' = SSkipN(x, n) /\ ok' = ok
RawRead == a.buf = 0 /\ Len(b.ring) = 0 /\ Bump
           /\ LET ra == ARawRead(a) rb == BRawRead(b, K) rx == SRawRead(x) IN
              a' = ra[1] /\ b' = rb[1] /\ x' = rx[1] /\ ok' = (ok /\ ra[2] = rb[2] /\ ra[2] = rx[2])
DocInd == a.buf >= 4 /\ Bump /\ UNCHANGED <<a, b, x>>
          /\ ok' = (ok /\ \A ks \in {{"-"}, {"."}, {"-", "."}} : SDocInd(x, ks) = ADocInd(a, ks))
CanPlain == a.buf >= 2 /\ ~IsBlankZc(CharAt(a.rest, 1)) /\ Bump /\ UNCHANGED <<a, b, x>>
            /\ ok' = (ok /\ \A f \in BOOLEAN : SCanPlain(x, f) = ACanPlain(a, f))
SkipWs == \E t \in BOOLEAN : Bump /\ UNCHANGED <<a, b, x>> /\ ok' = (ok /\ ASkipWs(a, t) = SSkipWs(x, t))
Next == Lookahead \/ PeekNth \/ SkipN \/ RawRead \/ DocInd \/ CanPlain \/ SkipWs
\* refinement: same remaining characters; the ring holds at least what the contract promises; no overflow
Refines == ok /\ BRest(b) = a.rest /\ x.s = a.rest /\ ~b.overflow /\ Len(b.ring) >= a.buf /\ x.la >= a.buf
=========================================================================
