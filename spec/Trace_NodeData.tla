---------------------------- MODULE Trace_NodeData ----------------------------
(* Judge of C19 recordings. One record per distinct outcome of loading one input text in every
   configuration the property names (vh c19):

     eager  : groups [l |-> labels, o |-> outcome] of the eager loads through load_from_str, 4 node
              types, grouped by byte-identical outcome; marked types are recorded WITH spans
     eager2 : the same through load_from_parser on the string input
     lazy0  : the same for early_parse(false), nothing resolved yet (no spans)
     post   : outcomes after resolution calls (no spans)
                Ty/lazy+prr      deferred load, parse_representation_recursive on every root
                Ty/lazy+node     deferred load, parse_representation on every node bottom-up
                Ty/lazy+prr+prr  ... and parse_representation_recursive once more
                Ty/eager+prr, Ty/eager+node, Ty/eager+pr   the calls on eagerly loaded documents
     eqh    : marked documents compared / hashed against a copy with every span reset
     sc     : <<borrowed scalar, into_owned(), as_scalar()>> for every scalar
     res    : << <<representation, value>> >> from the real eager resolver (C08 owns its content)

   outcome = [k |-> "docs", docs |-> <<node,...>>] | [k |-> "err", msg, at] | [k |-> "panic", msg]

   Verdicts (YNodeApi relations); a rejection is printed as <<"REJECT", l, code, i>> and judging
   continues:
     types        every eager outcome of one entry point is the first one up to spans (same error
                  when it fails); types2 for the second entry point; a difference BETWEEN the
                  entry points is drift:entry-points (the input back-ends are C10's)
     lazy0        the unresolved trees agree across node types; a failing input fails the same way
     post         every resolution outcome is the eager documents  (post-badkey: the same, when
                  the difference has the shape of the recorded C07 defect: the reference
                  resolution of the deferred tree has a BadValue mapping key, the real resolution
                  outcome IS that reference resolution, and only the eager documents differ.
                  Whether the eager documents are exactly what the loader's "BadValue means no
                  key yet" rule makes of the deferred tree (QuirkRec below) is checked too; it
                  cannot be reconstructed when the mapping also had duplicate keys, in which
                  case drift:badkey-beyond-loader-rule is printed)
     eqh          equality and hash of marked nodes ignore spans
     scalar       into_owned / as_scalar round trip
     drift:*      the REFERENCE resolution of the recorded deferred tree is not the eager tree
                  (model/code disagreement, not a violation by itself)                          *)
EXTENDS YNodeApi, Json, IOUtils, TLC
Rec == ndJsonDeserialize(IOEnv.TRACE)
VARIABLE l

SameOutcome(a, b) ==
  IF a.k # b.k THEN FALSE
  ELSE IF a.k = "docs" THEN SameDocsUpToSpans(a.docs, b.docs)
  ELSE IF a.k = "err" THEN a.msg = b.msg /\ a.at = b.at
  ELSE FALSE

RECURSIVE StripDocs(_, _, _)
StripDocs(d, i, acc) == IF i > Len(d) THEN acc ELSE StripDocs(d, i + 1, Append(acc, Strip(d[i])))

RECURSIVE HasBadKey(_)
HasBadKey(n) ==
  \/ n.t = "seq" /\ \E i \in 1..Len(n.items) : HasBadKey(n.items[i])
  \/ n.t = "map" /\ \E i \in 1..Len(n.pairs) : n.pairs[i][1].t = "bad" \/ HasBadKey(n.pairs[i][1]) \/ HasBadKey(n.pairs[i][2])
RECURSIVE HasUnknown(_)
HasUnknown(n) ==
  \/ n.t = "unresolved"
  \/ n.t = "seq" /\ \E i \in 1..Len(n.items) : HasUnknown(n.items[i])
  \/ n.t = "map" /\ \E i \in 1..Len(n.pairs) : HasUnknown(n.pairs[i][1]) \/ HasUnknown(n.pairs[i][2])

\* The eager loader's key_stack rule (saphyr/src/loader.rs insert_new_node), the root cause of the
\* C07 finding: the nodes of a mapping arrive one by one; while the pending key is BadValue the
\* next node becomes the key (so a key that IS BadValue is forgotten and the roles shift).
RECURSIVE QuirkRec(_, _)
RECURSIVE QuirkItems(_, _, _, _)
RECURSIVE QuirkFlat(_, _, _, _)
RECURSIVE QuirkFeed(_, _, _, _)
QuirkItems(res, s, i, acc) == IF i > Len(s) THEN acc ELSE QuirkItems(res, s, i + 1, Append(acc, QuirkRec(res, s[i])))
QuirkFlat(res, s, i, acc) == IF i > Len(s) THEN acc ELSE QuirkFlat(res, s, i + 1, acc \o <<QuirkRec(res, s[i][1]), QuirkRec(res, s[i][2])>>)
QuirkFeed(nodes, i, key, acc) ==
  IF i > Len(nodes) THEN acc
  ELSE IF key.t = "bad" THEN QuirkFeed(nodes, i + 1, nodes[i], acc)
  ELSE QuirkFeed(nodes, i + 1, BadN, MapInsert(acc, key, nodes[i]))
QuirkRec(res, n) ==
  IF n.t = "seq" THEN [n EXCEPT !.items = QuirkItems(res, n.items, 1, <<>>)]
  ELSE IF n.t = "map" THEN [n EXCEPT !.pairs = QuirkFeed(QuirkFlat(res, n.pairs, 1, <<>>), 1, BadN, <<>>)]
  ELSE Resolve(res, n)
RECURSIVE QuirkDocs(_, _, _, _)
QuirkDocs(res, docs, i, acc) == IF i > Len(docs) THEN acc ELSE QuirkDocs(res, docs, i + 1, Append(acc, QuirkRec(res, docs[i])))

Rej(code, i) == PrintT(<<"REJECT", l, code, i>>)

\* (every J* is an ordinary Boolean expression that is always TRUE; IF/THEN/ELSE rather than
\*  disjunction, and `= TRUE` in Next, keep TLC from reading them as nondeterministic actions)
JTypesOf(E, code) ==
  /\ IF E[1].o.k = "panic" THEN Rej("panic", 1) ELSE TRUE
  /\ \A g \in 2..Len(E) : IF SameOutcome(E[g].o, E[1].o) THEN TRUE ELSE Rej(code, g)
JTypes(r) ==
  /\ JTypesOf(r.eager, "types")
  /\ JTypesOf(r.eager2, "types2")
  /\ IF SameOutcome(r.eager2[1].o, r.eager[1].o) \/ r.eager[1].o.k = "panic" \/ r.eager2[1].o.k = "panic" THEN TRUE ELSE Rej("drift:entry-points", 0)

JLazy0(r) ==
  LET L == r.lazy0 IN
  /\ \A g \in 2..Len(L) : IF L[g].o = L[1].o THEN TRUE ELSE Rej("lazy0", g)
  /\ IF r.eager[1].o.k = "err" /\ ~SameOutcome(L[1].o, r.eager[1].o) THEN Rej("lazyerr", 1) ELSE TRUE
  /\ IF r.eager[1].o.k = "docs" /\ L[1].o.k # "docs" THEN Rej("lazyerr", 1) ELSE TRUE

JPost(r) ==
  IF r.eager[1].o.k = "docs" /\ r.lazy0[1].o.k = "docs" THEN
    LET eagerDocs == StripDocs(r.eager[1].o.docs, 1, <<>>)
        model == ResolveDocs(r.res, r.lazy0[1].o.docs, 1, <<>>)
        badkey == \E i \in 1..Len(model) : HasBadKey(model[i])
        c07 == badkey /\ model # eagerDocs
    IN
    /\ \A g \in 1..Len(r.post) :
         IF r.post[g].o.k = "docs" /\ r.post[g].o.docs = eagerDocs THEN TRUE
         ELSE Rej(IF c07 /\ r.post[g].o.k = "docs" /\ r.post[g].o.docs = model THEN "post-badkey" ELSE "post", g)
    /\ IF \E i \in 1..Len(model) : HasUnknown(model[i]) THEN Rej("drift:table", 0)
       ELSE IF model = eagerDocs THEN TRUE
       ELSE IF c07 THEN (IF QuirkDocs(r.res, r.lazy0[1].o.docs, 1, <<>>) = eagerDocs THEN TRUE ELSE Rej("drift:badkey-beyond-loader-rule", 0))
       ELSE Rej("drift:resolve-model", 0)
  ELSE TRUE

JEqh(r) == \A g \in 1..Len(r.eqh) :
  LET o == r.eqh[g].o IN IF o.k = "eqh" /\ o.eq = "true" /\ o.h1 = o.h2 THEN TRUE ELSE Rej("eqh", g)

JScalar(r) == \A i \in 1..Len(r.sc) :
  IF ScalarRoundTrip(r.sc[i][1], r.sc[i][3]) /\ r.sc[i][1] = r.sc[i][2] THEN TRUE ELSE Rej("scalar", i)

Judge(r) == JTypes(r) /\ JLazy0(r) /\ JPost(r) /\ JEqh(r) /\ JScalar(r)

Init == l = 1
Next == /\ l <= Len(Rec)
        /\ Judge(Rec[l]) = TRUE
        /\ l' = l + 1
AllJudged == (l = Len(Rec) + 1) => PrintT(<<"JUDGED", Len(Rec)>>)
=============================================================================
