---------------------------- MODULE YParser ----------------------------
(* Implementation-shaped model of parser/src/parser.rs: the push-down automaton.
   Parser record:
     sc        the token source (scanner record of YScanner, or a token feed, see PNextToken)
     state     current State          states   stack of states to return to (Vec<State>)
     tok       one-token look-ahead   smark    the Markers carried by the FlowSequenceEntryMappingEnd states (a stack: they nest)
     anchors   name -> id (sequence of <<name, id>>, later entries override)
     nextAid   anchor_id_count        tags     handle -> prefix (sequence of <<handle, prefix>>)
     keepTags  keep_tags option
   Errors are latched in sc.err / sc.errmark (a ScanError is returned and iteration stops).
   One operator per State variant; Parse(t, p) returns <<p', event>>.                          *)
EXTENDS YScanner

Ev(k, a, b, v, style, aid, tag) == [k |-> k, a |-> a, b |-> b, v |-> v, style |-> style, aid |-> aid, tag |-> tag]
Ev0(k, a, b) == Ev(k, a, b, <<>>, "", 0, <<>>)
NoEv == Ev0("None", <<0, 0, 0>>, <<0, 0, 0>>)
EmptyScalar(a, b) == Ev("Scalar", a, b, <<"~">>, "plain", 0, <<>>)
MaxNestingLevel == 1000
DefaultSecondary == <<"t", "a", "g", ":", "y", "a", "m", "l", ".", "o", "r", "g", ",", "2", "0", "0", "2", ":">>

PInit(keep) == [sc |-> ScanInit, state |-> "StreamStart", states |-> <<>>, tok |-> NoneTok, smark |-> <<>>,
                anchors |-> <<>>, nextAid |-> 1, tags |-> <<>>, keepTags |-> keep]

\* token source: the scanner, or (feed mode, used by MC_ParserPDA) the "text" is a sequence of tokens
PNextToken(t, sc) ==
  IF "feed" \in DOMAIN sc
  THEN IF sc.pos < Len(t) THEN <<[sc EXCEPT !.pos = @ + 1], t[sc.pos + 1]>> ELSE <<sc, NoneTok>>
  ELSE NextToken(t, sc)

\* peek_token / scan_next_token
PeekTok(t, p) ==
  IF p.tok.k # "None" \/ p.sc.err # "" THEN p
  ELSE LET r == PNextToken(t, p.sc) IN
       IF r[2].k = "None"
       THEN [p EXCEPT !.sc = IF r[1].err # "" THEN r[1] ELSE Fail(r[1], "unexpected eof")]
       ELSE [p EXCEPT !.sc = r[1], !.tok = r[2]]
Skip(p) == [p EXCEPT !.tok = NoneTok]
PErr(p, msg, m) == [p EXCEPT !.sc = FailAt(p.sc, msg, m)]
\* pop_state: states.pop().unwrap() -- the panic site guarded by StackNonEmptyAtPop
Pop(p) == IF p.states = <<>> THEN PErr(p, "PANIC: pop_state on an empty stack", <<0, 0, 0>>)
          ELSE [p EXCEPT !.state = Last(p.states), !.states = Front(@)]
PushS(p, st) == [p EXCEPT !.states = Append(@, st)]
Ret(p, ev) == <<p, ev>>
Bad(p) == Ret(p, NoEv)

\* ---- anchors and tags ----
RECURSIVE Lookup(_, _, _)
Lookup(m, key, i) == IF i = 0 THEN <<>> ELSE IF m[i][1] = key THEN <<m[i][2]>> ELSE Lookup(m, key, i - 1)
Get(m, key) == Lookup(m, key, Len(m))          \* <<>> = absent, <<v>> = present
HasKey(m, key) == Get(m, key) # <<>>
RegisterAnchor(p, name) == [p EXCEPT !.anchors = Append(@, <<name, p.nextAid>>), !.nextAid = @ + 1]

\* resolve_tag: returns <<ok, tag>>
ResolveTag(p, handle, suffix) ==
  IF handle = <<"!", "!">> THEN <<TRUE, <<IF HasKey(p.tags, handle) THEN Get(p.tags, handle)[1] ELSE DefaultSecondary, suffix>>>>
  ELSE IF handle = <<>> /\ suffix = <<"!">> THEN <<TRUE, <<IF HasKey(p.tags, <<>>) THEN Get(p.tags, <<>>)[1] ELSE <<>>, suffix>>>>
  ELSE IF HasKey(p.tags, handle) THEN <<TRUE, <<Get(p.tags, handle)[1], suffix>>>>
  ELSE IF Len(handle) >= 2 /\ handle[1] = "!" /\ Last(handle) = "!" THEN <<FALSE, <<>>>>
  ELSE <<TRUE, <<handle, suffix>>>>

\* ---- parse_node ----
\* properties: returns [p, aid, tag]; p.sc.err set on failure
NodeProps(t, p) ==
  IF p.tok.k = "Anchor"
  THEN LET am == p.tok.a
           p1 == RegisterAnchor(Skip(p), p.tok.v)
           aid == p.nextAid
           q == PeekTok(t, p1) IN
       IF q.sc.err # "" THEN [p |-> q, aid |-> aid, tag |-> <<>>]
       ELSE IF q.tok.k = "Tag"
       THEN LET r == ResolveTag(q, q.tok.v, q.tok.x) IN
            IF r[1] THEN [p |-> Skip(q), aid |-> aid, tag |-> r[2]]
            ELSE [p |-> PErr(Skip(q), "the handle wasn't declared", am), aid |-> aid, tag |-> <<>>]
       ELSE [p |-> q, aid |-> aid, tag |-> <<>>]
  ELSE IF p.tok.k = "Tag"
  THEN LET r == ResolveTag(p, p.tok.v, p.tok.x) IN
       IF ~r[1] THEN [p |-> PErr(Skip(p), "the handle wasn't declared", p.tok.a), aid |-> 0, tag |-> <<>>]
       ELSE LET q == PeekTok(t, Skip(p)) IN
            IF q.sc.err # "" THEN [p |-> q, aid |-> 0, tag |-> r[2]]
            ELSE IF q.tok.k = "Anchor" THEN [p |-> RegisterAnchor(Skip(q), q.tok.v), aid |-> q.nextAid, tag |-> r[2]]
            ELSE [p |-> q, aid |-> 0, tag |-> r[2]]
  ELSE [p |-> p, aid |-> 0, tag |-> <<>>]

ParseNode(t, p0, block, indentless) ==
  LET p == PeekTok(t, p0) IN
  IF p.sc.err # "" THEN Bad(p)
  ELSE IF p.tok.k = "Alias"
  THEN LET q == Skip(Pop(p)) IN
       IF q.sc.err # "" THEN Bad(q)
       ELSE IF HasKey(p.anchors, p.tok.v) THEN Ret(q, Ev("Alias", p.tok.a, p.tok.b, <<>>, "", Get(p.anchors, p.tok.v)[1], <<>>))
       ELSE Bad(PErr(q, "while parsing node, found unknown anchor", p.tok.a))
  ELSE LET np == NodeProps(t, p) IN
  IF np.p.sc.err # "" THEN Bad(np.p) ELSE
  LET q == PeekTok(t, np.p) IN
  IF q.sc.err # "" THEN Bad(q) ELSE
  LET k == q.tok.k a == q.tok.a b == q.tok.b aid == np.aid tag == np.tag IN
  IF k = "BlockEntry" /\ indentless THEN Ret([q EXCEPT !.state = "IndentlessSequenceEntry"], Ev("SequenceStart", a, b, <<>>, "", aid, tag))
  ELSE IF k = "Scalar" THEN LET r == Skip(Pop(q)) IN IF r.sc.err # "" THEN Bad(r) ELSE Ret(r, Ev("Scalar", a, b, q.tok.v, q.tok.x, aid, tag))
  ELSE IF k = "FlowSequenceStart" THEN Ret([q EXCEPT !.state = "FlowSequenceFirstEntry"], Ev("SequenceStart", a, b, <<>>, "", aid, tag))
  ELSE IF k = "FlowMappingStart" THEN Ret([q EXCEPT !.state = "FlowMappingFirstKey"], Ev("MappingStart", a, b, <<>>, "", aid, tag))
  ELSE IF k = "BlockSequenceStart" /\ block THEN Ret([q EXCEPT !.state = "BlockSequenceFirstEntry"], Ev("SequenceStart", a, b, <<>>, "", aid, tag))
  ELSE IF k = "BlockMappingStart" /\ block THEN Ret([q EXCEPT !.state = "BlockMappingFirstKey"], Ev("MappingStart", a, b, <<>>, "", aid, tag))
  ELSE IF tag # <<>> \/ aid > 0 THEN LET r == Pop(q) IN IF r.sc.err # "" THEN Bad(r) ELSE Ret(r, Ev("Scalar", a, b, <<>>, "plain", aid, tag))
  ELSE Bad(PErr(q, "while parsing a node, did not find expected node content", a))

\* ---- stream and documents ----
StreamStartS(t, p0) ==
  LET p == PeekTok(t, p0) IN IF p.sc.err # "" THEN Bad(p) ELSE
  IF p.tok.k = "StreamStart" THEN Ret(Skip([p EXCEPT !.state = "ImplicitDocumentStart"]), Ev0("StreamStart", p.tok.a, p.tok.b))
  ELSE Bad(PErr(p, "did not find expected <stream-start>", p.tok.a))

\* parser_process_directives: acc = [p, ver (version seen), tg (table being built), any]
RECURSIVE Directives(_, _)
Directives(t, a) ==
  LET p == PeekTok(t, a.p) IN
  IF p.sc.err # "" THEN [a EXCEPT !.p = p]
  ELSE IF p.tok.k = "VersionDirective"
  THEN IF a.ver THEN [a EXCEPT !.p = PErr(p, "duplicate version directive", p.tok.a)]
       ELSE Directives(t, [a EXCEPT !.p = Skip(p), !.ver = TRUE])
  ELSE IF p.tok.k = "TagDirective"
  THEN IF p.tok.v = <<>> THEN Directives(t, [a EXCEPT !.p = Skip(p)])         \* reserved directive placeholder
       ELSE IF HasKey(a.tg, p.tok.v) THEN [a EXCEPT !.p = PErr(p, "the TAG directive must only be given at most once per handle in the same document", p.tok.a)]
       ELSE Directives(t, [a EXCEPT !.p = Skip(p), !.tg = Append(@, <<p.tok.v, p.tok.x>>), !.any = TRUE])
  ELSE [a EXCEPT !.p = p]
ProcessDirectives(t, p) ==
  LET a == Directives(t, [p |-> p, ver |-> FALSE, tg |-> <<>>, any |-> FALSE]) IN
  IF a.p.sc.err # "" THEN a.p ELSE IF a.any THEN [a.p EXCEPT !.tags = a.tg] ELSE a.p

ExplicitDocStart(t, p0) ==
  LET p1 == ProcessDirectives(t, p0) IN IF p1.sc.err # "" THEN Bad(p1) ELSE
  LET p == PeekTok(t, p1) IN IF p.sc.err # "" THEN Bad(p) ELSE
  IF p.tok.k = "DocumentStart" THEN Ret(Skip([PushS(p, "DocumentEnd") EXCEPT !.state = "DocumentContent"]), Ev("DocumentStart", p.tok.a, p.tok.b, <<>>, "explicit", 0, <<>>))
  ELSE Bad(PErr(p, "did not find expected <document start>", p.tok.a))

RECURSIVE SkipDocEnds(_, _)
SkipDocEnds(t, p0) == LET p == PeekTok(t, p0) IN IF p.sc.err = "" /\ p.tok.k = "DocumentEnd" THEN SkipDocEnds(t, Skip(p)) ELSE p

DocumentStartS(t, p0, implicit) ==
  LET p == SkipDocEnds(t, p0) IN IF p.sc.err # "" THEN Bad(p) ELSE
  IF p.tok.k = "StreamEnd" THEN Ret(Skip([p EXCEPT !.state = "End"]), Ev0("StreamEnd", p.tok.a, p.tok.b))
  ELSE IF p.tok.k \in {"VersionDirective", "TagDirective", "DocumentStart"} THEN ExplicitDocStart(t, p)
  ELSE IF implicit
  THEN LET p1 == ProcessDirectives(t, p) IN
       IF p1.sc.err # "" THEN Bad(p1)
       ELSE Ret([PushS(p1, "DocumentEnd") EXCEPT !.state = "BlockNode"], Ev("DocumentStart", p.tok.a, p.tok.b, <<>>, "implicit", 0, <<>>))
  ELSE ExplicitDocStart(t, p)

DocumentContentS(t, p0) ==
  LET p == PeekTok(t, p0) IN IF p.sc.err # "" THEN Bad(p) ELSE
  IF p.tok.k \in {"VersionDirective", "TagDirective", "DocumentStart", "DocumentEnd", "StreamEnd"}
  THEN LET r == Pop(p) IN IF r.sc.err # "" THEN Bad(r) ELSE Ret(r, EmptyScalar(p.tok.a, p.tok.b))
  ELSE ParseNode(t, p, TRUE, FALSE)

DocumentEndS(t, p0) ==
  LET p == PeekTok(t, p0) IN IF p.sc.err # "" THEN Bad(p) ELSE
  LET explicit == p.tok.k = "DocumentEnd"
      a == p.tok.a b == p.tok.b
      p1 == IF explicit THEN Skip(p) ELSE p
      p2 == [(IF p1.keepTags THEN p1 ELSE [p1 EXCEPT !.tags = <<>>]) EXCEPT !.anchors = <<>>]   \* anchors end with their document
  IN IF explicit THEN Ret([p2 EXCEPT !.state = "ImplicitDocumentStart"], Ev0("DocumentEnd", a, b))
     ELSE IF p2.tok.k \in {"VersionDirective", "TagDirective"} THEN Bad(PErr(p2, "missing explicit document end marker before directive", a))
     ELSE Ret([p2 EXCEPT !.state = "DocumentStart"], Ev0("DocumentEnd", a, b))

\* ---- block collections ----
BlockMappingKeyS(t, p00, first) ==
  LET pf == IF first THEN PeekTok(t, p00) ELSE p00 IN
  IF pf.sc.err # "" THEN Bad(pf) ELSE
  LET p0 == IF first THEN Skip(pf) ELSE pf
      p == PeekTok(t, p0) IN IF p.sc.err # "" THEN Bad(p) ELSE
  IF p.tok.k = "Key"
  THEN LET q == PeekTok(t, Skip(p)) IN IF q.sc.err # "" THEN Bad(q) ELSE
       IF q.tok.k \in {"Key", "Value", "BlockEnd"} THEN Ret([q EXCEPT !.state = "BlockMappingValue"], EmptyScalar(q.tok.a, q.tok.b))
       ELSE ParseNode(t, PushS(q, "BlockMappingValue"), TRUE, TRUE)
  ELSE IF p.tok.k = "Value" THEN Ret([p EXCEPT !.state = "BlockMappingValue"], EmptyScalar(p.tok.a, p.tok.b))
  ELSE IF p.tok.k = "BlockEnd" THEN LET r == Skip(Pop(p)) IN IF r.sc.err # "" THEN Bad(r) ELSE Ret(r, Ev0("MappingEnd", p.tok.a, p.tok.b))
  ELSE Bad(PErr(p, "while parsing a block mapping, did not find expected key", p.tok.a))

BlockMappingValueS(t, p0) ==
  LET p == PeekTok(t, p0) IN IF p.sc.err # "" THEN Bad(p) ELSE
  IF p.tok.k = "Value"
  THEN LET q == PeekTok(t, Skip(p)) IN IF q.sc.err # "" THEN Bad(q) ELSE
       IF q.tok.k \in {"Key", "Value", "BlockEnd"} THEN Ret([q EXCEPT !.state = "BlockMappingKey"], EmptyScalar(q.tok.a, q.tok.b))
       ELSE ParseNode(t, PushS(q, "BlockMappingKey"), TRUE, TRUE)
  ELSE Ret([p EXCEPT !.state = "BlockMappingKey"], EmptyScalar(p.tok.a, p.tok.b))

IndentlessS(t, p0) ==
  LET p == PeekTok(t, p0) IN IF p.sc.err # "" THEN Bad(p) ELSE
  IF p.tok.k # "BlockEntry" THEN LET r == Pop(p) IN IF r.sc.err # "" THEN Bad(r) ELSE Ret(r, Ev0("SequenceEnd", p.tok.a, p.tok.b))
  ELSE LET q == PeekTok(t, Skip(p)) IN IF q.sc.err # "" THEN Bad(q) ELSE
       IF q.tok.k \in {"BlockEntry", "Key", "Value", "BlockEnd"} THEN Ret([q EXCEPT !.state = "IndentlessSequenceEntry"], EmptyScalar(q.tok.a, q.tok.b))
       ELSE ParseNode(t, PushS(q, "IndentlessSequenceEntry"), TRUE, FALSE)

BlockSequenceEntryS(t, p00, first) ==
  LET pf == IF first THEN PeekTok(t, p00) ELSE p00 IN
  IF pf.sc.err # "" THEN Bad(pf) ELSE
  LET p0 == IF first THEN Skip(pf) ELSE pf
      p == PeekTok(t, p0) IN IF p.sc.err # "" THEN Bad(p) ELSE
  IF p.tok.k = "BlockEnd" THEN LET r == Skip(Pop(p)) IN IF r.sc.err # "" THEN Bad(r) ELSE Ret(r, Ev0("SequenceEnd", p.tok.a, p.tok.b))
  ELSE IF p.tok.k = "BlockEntry"
  THEN LET q == PeekTok(t, Skip(p)) IN IF q.sc.err # "" THEN Bad(q) ELSE
       IF q.tok.k \in {"BlockEntry", "BlockEnd"} THEN Ret([q EXCEPT !.state = "BlockSequenceEntry"], EmptyScalar(q.tok.a, q.tok.b))
       ELSE ParseNode(t, PushS(q, "BlockSequenceEntry"), TRUE, FALSE)
  ELSE Bad(PErr(p, "while parsing a block collection, did not find expected '-' indicator", p.tok.a))

\* ---- flow collections ----
FlowMappingKeyS(t, p00, first) ==
  LET pf == IF first THEN PeekTok(t, p00) ELSE p00 IN
  IF pf.sc.err # "" THEN Bad(pf) ELSE
  LET p0 == IF first THEN Skip(pf) ELSE pf
      p == PeekTok(t, p0) IN IF p.sc.err # "" THEN Bad(p) ELSE
  IF p.tok.k = "FlowMappingEnd" THEN LET r == Skip(Pop(p)) IN IF r.sc.err # "" THEN Bad(r) ELSE Ret(r, Ev0("MappingEnd", p.tok.a, p.tok.b))
  ELSE LET mark == p.tok
           p1 == IF ~first THEN (IF p.tok.k = "FlowEntry" THEN Skip(p) ELSE PErr(p, "while parsing a flow mapping, did not find expected ',' or '}'", p.tok.a)) ELSE p
       IN IF p1.sc.err # "" THEN Bad(p1) ELSE
          LET q == PeekTok(t, p1) IN IF q.sc.err # "" THEN Bad(q) ELSE
          IF q.tok.k = "Key"
          THEN LET r == PeekTok(t, Skip(q)) IN IF r.sc.err # "" THEN Bad(r) ELSE
               IF r.tok.k \in {"Value", "FlowEntry", "FlowMappingEnd"} THEN Ret([r EXCEPT !.state = "FlowMappingValue"], EmptyScalar(r.tok.a, r.tok.b))
               ELSE ParseNode(t, PushS(r, "FlowMappingValue"), FALSE, FALSE)
          ELSE IF q.tok.k = "Value" THEN Ret([q EXCEPT !.state = "FlowMappingValue"], EmptyScalar(q.tok.a, q.tok.b))
          ELSE IF q.tok.k = "FlowMappingEnd" THEN LET r == Skip(Pop(q)) IN IF r.sc.err # "" THEN Bad(r) ELSE Ret(r, Ev0("MappingEnd", mark.a, mark.b))
          ELSE ParseNode(t, PushS(q, "FlowMappingEmptyValue"), FALSE, FALSE)

FlowMappingValueS(t, p0, empty) ==
  LET p == PeekTok(t, p0) IN IF p.sc.err # "" THEN Bad(p) ELSE
  IF empty THEN Ret([p EXCEPT !.state = "FlowMappingKey"], EmptyScalar(p.tok.a, p.tok.b))
  ELSE IF p.tok.k = "Value"
  THEN LET q == PeekTok(t, Skip(p)) IN IF q.sc.err # "" THEN Bad(q) ELSE
       IF q.tok.k \in {"FlowEntry", "FlowMappingEnd"} THEN Ret([q EXCEPT !.state = "FlowMappingKey"], EmptyScalar(p.tok.a, p.tok.b))
       ELSE ParseNode(t, PushS(q, "FlowMappingKey"), FALSE, FALSE)
  ELSE Ret([p EXCEPT !.state = "FlowMappingKey"], EmptyScalar(p.tok.a, p.tok.b))

FlowSequenceEntryS(t, p00, first) ==
  LET pf == IF first THEN PeekTok(t, p00) ELSE p00 IN
  IF pf.sc.err # "" THEN Bad(pf) ELSE
  LET p0 == IF first THEN Skip(pf) ELSE pf
      p == PeekTok(t, p0) IN IF p.sc.err # "" THEN Bad(p) ELSE
  IF p.tok.k = "FlowSequenceEnd" THEN LET r == Skip(Pop(p)) IN IF r.sc.err # "" THEN Bad(r) ELSE Ret(r, Ev0("SequenceEnd", p.tok.a, p.tok.b))
  ELSE LET p1 == IF ~first THEN (IF p.tok.k = "FlowEntry" THEN Skip(p) ELSE PErr(p, "while parsing a flow sequence, expected ',' or ']'", p.tok.a)) ELSE p
       IN IF p1.sc.err # "" THEN Bad(p1) ELSE
          LET q == PeekTok(t, p1) IN IF q.sc.err # "" THEN Bad(q) ELSE
          IF q.tok.k = "FlowSequenceEnd" THEN LET r == Skip(Pop(q)) IN IF r.sc.err # "" THEN Bad(r) ELSE Ret(r, Ev0("SequenceEnd", q.tok.a, q.tok.b))
          ELSE IF q.tok.k = "Key" THEN Ret(Skip([q EXCEPT !.state = "FlowSequenceEntryMappingKey"]), Ev0("MappingStart", q.tok.a, q.tok.b))
          ELSE ParseNode(t, PushS(q, "FlowSequenceEntry"), FALSE, FALSE)

FSEMappingKeyS(t, p0) ==
  LET p == PeekTok(t, p0) IN IF p.sc.err # "" THEN Bad(p) ELSE
  IF p.tok.k \in {"Value", "FlowEntry", "FlowSequenceEnd"} THEN Ret([p EXCEPT !.state = "FlowSequenceEntryMappingValue"], EmptyScalar(p.tok.a, p.tok.b))     \* the token is left for the next states
  ELSE ParseNode(t, PushS(p, "FlowSequenceEntryMappingValue"), FALSE, FALSE)

FSEMappingValueS(t, p0) ==
  LET p == PeekTok(t, p0) IN IF p.sc.err # "" THEN Bad(p) ELSE
  IF p.tok.k = "Value"
  THEN LET q == PeekTok(t, Skip(p)) IN IF q.sc.err # "" THEN Bad(q) ELSE
       IF q.tok.k \in {"FlowEntry", "FlowSequenceEnd"} THEN Ret([q EXCEPT !.state = "FlowSequenceEntryMappingEnd", !.smark = Append(@, q.tok.b)], EmptyScalar(q.tok.a, q.tok.b))
       ELSE ParseNode(t, [PushS(q, "FlowSequenceEntryMappingEnd") EXCEPT !.smark = Append(@, q.tok.b)], FALSE, FALSE)
  ELSE Ret([p EXCEPT !.state = "FlowSequenceEntryMappingEnd", !.smark = Append(@, p.tok.b)], EmptyScalar(p.tok.a, p.tok.b))

\* parse(): one event
Parse(t, p) ==
  LET st == p.state IN
  IF st = "End" THEN Ret(p, Ev0("StreamEnd", Mark(p.sc), Mark(p.sc)))
  ELSE IF Len(p.states) > MaxNestingLevel THEN Bad(PErr(p, "recursion limit exceeded", Mark(p.sc)))     \* one state per open collection
  ELSE IF st = "StreamStart" THEN StreamStartS(t, p)
  ELSE IF st = "ImplicitDocumentStart" THEN DocumentStartS(t, p, TRUE)
  ELSE IF st = "DocumentStart" THEN DocumentStartS(t, p, FALSE)
  ELSE IF st = "DocumentContent" THEN DocumentContentS(t, p)
  ELSE IF st = "DocumentEnd" THEN DocumentEndS(t, p)
  ELSE IF st = "BlockNode" THEN ParseNode(t, p, TRUE, FALSE)
  ELSE IF st = "BlockMappingFirstKey" THEN BlockMappingKeyS(t, p, TRUE)
  ELSE IF st = "BlockMappingKey" THEN BlockMappingKeyS(t, p, FALSE)
  ELSE IF st = "BlockMappingValue" THEN BlockMappingValueS(t, p)
  ELSE IF st = "BlockSequenceFirstEntry" THEN BlockSequenceEntryS(t, p, TRUE)
  ELSE IF st = "BlockSequenceEntry" THEN BlockSequenceEntryS(t, p, FALSE)
  ELSE IF st = "FlowSequenceFirstEntry" THEN FlowSequenceEntryS(t, p, TRUE)
  ELSE IF st = "FlowSequenceEntry" THEN FlowSequenceEntryS(t, p, FALSE)
  ELSE IF st = "FlowMappingFirstKey" THEN FlowMappingKeyS(t, p, TRUE)
  ELSE IF st = "FlowMappingKey" THEN FlowMappingKeyS(t, p, FALSE)
  ELSE IF st = "FlowMappingValue" THEN FlowMappingValueS(t, p, FALSE)
  ELSE IF st = "FlowMappingEmptyValue" THEN FlowMappingValueS(t, p, TRUE)
  ELSE IF st = "IndentlessSequenceEntry" THEN IndentlessS(t, p)
  ELSE IF st = "FlowSequenceEntryMappingKey" THEN FSEMappingKeyS(t, p)
  ELSE IF st = "FlowSequenceEntryMappingValue" THEN FSEMappingValueS(t, p)
  ELSE IF st = "FlowSequenceEntryMappingEnd" THEN Ret([p EXCEPT !.state = "FlowSequenceEntry", !.smark = SubSeq(@, 1, Len(@) - 1)], Ev0("MappingEnd", Last(p.smark), Last(p.smark)))
  ELSE Bad(PErr(p, "PANIC: unreachable state", <<0, 0, 0>>))

\* run to completion: [evs, err, errmark]
RECURSIVE RunAll(_, _, _)
RunAll(t, p, acc) ==
  LET r == Parse(t, p) IN
  IF r[1].sc.err # "" THEN [evs |-> acc, err |-> r[1].sc.err, errmark |-> r[1].sc.errmark]
  ELSE IF r[2].k = "StreamEnd" THEN [evs |-> Append(acc, r[2]), err |-> "", errmark |-> <<0, 0, 0>>]
  ELSE RunAll(t, r[1], Append(acc, r[2]))
=========================================================================
