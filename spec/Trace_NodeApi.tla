---------------------------- MODULE Trace_NodeApi ----------------------------
(* Judge of C20 recordings (vh c20): answers of the real accessors on constructed mappings /
   sequences beyond the bounds of MC_NodeLookup and on the mappings / sequences found in loaded
   pool documents. Records (identical records of several node types / forms are written once,
   field l lists them):

     STR   map, probes = << [key, a = <<5 answers>>, c = <<2 containment answers>>] >>
           a = as_mapping_get, Index<&str>, as_mapping_get_mut, IndexMut<&str>,
               Mapping::get(&explicitly built string node);  an Index panic is recorded as absent
           c = contains_mapping_key, Mapping::contains_key(&string node)   ("true" | "false")
     INT   node (sequence or mapping), probes = << [idx (decimal text), n (value or -1), a] >>
           a = Index<usize>, IndexMut<usize>, as_sequence_get(_mut) | Mapping::get(&Integer(idx))
     HASH  x, y (marked nodes with spans), eq = x == y, hx, hy = std Hash with a fixed hasher

   answer = [found |-> FALSE] | [found |-> TRUE, val |-> node]

   Verdicts (YNodeApi): every answer of a STR probe is RefGetStr(map, key) — found exactly when
   some key is a resolved string equal to it; every answer of an INT probe is RefIntIndex;
   EqHashLaw for HASH. A rejection is printed as <<"REJECT", l, code, i>>, judging continues.  *)
EXTENDS YNodeApi, Json, IOUtils, TLC
Rec == ndJsonDeserialize(IOEnv.TRACE)
VARIABLE l

Rej(code, i) == PrintT(<<"REJECT", l, code, i>>)
TF(b) == IF b THEN "true" ELSE "false"

JStr(r) ==
  LET m == Strip(r.map) IN
  /\ IF WellFormed(m) THEN TRUE ELSE Rej("keys-not-unique", 0)
  /\ \A i \in 1..Len(r.probes) :
       LET p == r.probes[i]
           ref == RefGetStr(m, p.key)
       IN IF /\ \A j \in 1..Len(p.a) : p.a[j] = ref
             /\ \A j \in 1..Len(p.c) : p.c[j] = TF(ref.found)
             /\ RefGetNode(m, StrN(p.key)) = ref
          THEN TRUE ELSE Rej("str", i)

JInt(r) ==
  LET n == Strip(r.node) IN
  \A i \in 1..Len(r.probes) :
    LET p == r.probes[i]
        ref == RefIntIndex(n, p.idx, p.n)
    IN IF \A j \in 1..Len(p.a) : p.a[j] = ref THEN TRUE ELSE Rej("int", i)

JHash(r) == IF EqHashLaw(r.x, r.y, r.eq = "true", r.hx, r.hy) THEN TRUE ELSE Rej("hash", 0)

Judge(r) ==
  IF r.k = "STR" THEN JStr(r)
  ELSE IF r.k = "INT" THEN JInt(r)
  ELSE IF r.k = "HASH" THEN JHash(r)
  ELSE Rej("unknown record kind", 0)

Init == l = 1
Next == /\ l <= Len(Rec)
        /\ Judge(Rec[l]) = TRUE
        /\ l' = l + 1
AllJudged == (l = Len(Rec) + 1) => PrintT(<<"JUDGED", Len(Rec)>>)
=============================================================================
