------------------------------ MODULE MC_Decode ------------------------------
(* Exhaustive small-scope configurations of YDecode (C18).

     MC_Decode_quick.cfg   repaired growth rule (MinGrow = 4), MaxUnits = 6, MinCap = 0 (contract only)
     MC_Decode.cfg         the same with MaxUnits = 8 (thorough tier)
     MC_Decode_pinned.cfg  NEGATIVE CONTROL: the growth rule of the pinned code (MinGrow = 0), MinCap = 8
                           as std allocates; TLC must report that Termination is violated -- the
                           lasso OutputFull -> reserve(0) -> OutputFull.  bin/checks/c18.py turns the
                           input of that counterexample into bytes and replays it on the real code.
     MC_Decode_div100.cfg  negative control for "a step that is too small in general":
                           reserve(len / 100) without a floor.

   DetectsAll is checked once, at start-up (ASSUME): every in-scope text of <= 3 characters over
   a code-point alphabet with ASCII, Latin-1, CJK, astral and BOM members is, in each of the six
   encodings, well-formed and recognised as that encoding by EncodingOf.                        *)
EXTENDS YDecode, TLC

CodePoints == {10, 45, 65, 228, 20013, 65279, 128512}
Texts == UNION {[1..n -> CodePoints] : n \in 1..3}
Encs == {"utf8", "utf16le", "utf16be"}

DetectsAll == \A t \in Texts : InScope(t) =>
                \A e \in Encs, bom \in BOOLEAN :
                   LET b == Encode(t, e, bom) IN EncodingOf(b) = e /\ WellFormed(b) /\ ~Malformed(b)
ASSUME DetectsAll

\* the caveat the scope of C18 avoids: a NUL as second character makes UTF-8 look like UTF-16
ASSUME EncodingOf(Encode(<<65, 0>>, "utf8", FALSE)) = "utf16le"
\* well-formedness operators: spot checks (overlong, surrogate, truncated, lone low surrogate, odd length)
ASSUME /\ Utf8Bad(<<192, 128>>, 1) /\ Utf8Bad(<<237, 160, 128>>, 1) /\ Utf8Bad(<<228, 184>>, 1)
       /\ ~Utf8Bad(<<240, 159, 152, 128>>, 1) /\ Utf8Bad(<<244, 144, 128, 128>>, 1)
       /\ Utf16Bad(<<0, 220>>, 1, TRUE) /\ Utf16Bad(<<65, 0, 66>>, 1, TRUE)
       /\ ~Utf16Bad(<<61, 216, 0, 222>>, 1, TRUE) /\ Utf16Bad(<<61, 216, 65, 0>>, 1, TRUE)
=============================================================================
