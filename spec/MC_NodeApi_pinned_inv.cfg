CONSTANTS
  N = 3
  PoolName = "full"
  D = 1
  Variant = "pinned"
INIT Init
NEXT Next
INVARIANTS CodedIsRef
CHECK_DEADLOCK FALSE
