---------------------------- MODULE YRenderScalar ----------------------------
(* REFERENCE module for C04 (and the scalar part of C05's contexts): the ways YAML 1.2.2 allows a
   target string to be *presented* as a plain, single-quoted or double-quoted scalar, and the
   contexts it may stand in. Written from the productions (DESIGN.md appendix A.6, A.7), not from
   the scanner.

   A presentation is driven by one choice per target character (`ch[i]`), one "escaped line break
   before this character" flag (`eb[i]`, double-quoted only), the continuation indentation `ci`
   (extra spaces beyond the minimum) and the trailing padding `pad` (blanks written before a
   line break, which folding discards).

   Line folding (flow scalars): a run of k >= 1 line feeds in the target is written as k+1 line
   breaks; one space between two non-blank characters may be written as a single line break;
   blanks before a break and indentation after it are not content.                              *)
EXTENDS Naturals, Integers, Sequences

Blank_ == {" ", "\t"}
IsBlank(c) == c \in Blank_
IsNl(c) == c = "\n"
Spc(n) == [k \in 1..n |-> " "]
HexD == <<"0", "1", "2", "3", "4", "5", "6", "7", "8", "9", "a", "b", "c", "d", "e", "f">>
HexU == <<"0", "1", "2", "3", "4", "5", "6", "7", "8", "9", "A", "B", "C", "D", "E", "F">>
RECURSIVE HexN(_, _), HexNU(_, _)
HexN(v, n) == IF n = 0 THEN <<>> ELSE HexN(v \div 16, n - 1) \o <<HexD[(v % 16) + 1]>>
\* hexadecimal digits are case-insensitive: \x escapes are written in lower case, \u and \U escapes in upper case
HexNU(v, n) == IF n = 0 THEN <<>> ELSE HexNU(v \div 16, n - 1) \o <<HexU[(v % 16) + 1]>>

\* the target alphabet and the code point of each character (for hex escapes)
Ascii == <<" ", "!", "\"", "#", "$", "%", "&", "'", "(", ")", "*", "+", ",", "-", ".", "/", "0", "1", "2", "3", "4", "5", "6", "7", "8", "9", ":", ";", "<", "=", ">", "?", "@", "A", "B", "C", "D", "E", "F", "G", "H", "I", "J", "K", "L", "M", "N", "O", "P", "Q", "R", "S", "T", "U", "V", "W", "X", "Y", "Z", "[", "\\", "]", "^", "_", "`", "a", "b", "c", "d", "e", "f", "g", "h", "i", "j", "k", "l", "m", "n", "o", "p", "q", "r", "s", "t", "u", "v", "w", "x", "y", "z", "{", "|", "}", "~">>
RECURSIVE AsciiIdx(_, _)
AsciiIdx(c, i) == IF i > Len(Ascii) THEN 0 ELSE IF Ascii[i] = c THEN i ELSE AsciiIdx(c, i + 1)
Code(c) == IF c = "\n" THEN 10 ELSE IF c = "\t" THEN 9 ELSE IF c = "<u233>" THEN 233 ELSE IF c = "<u128512>" THEN 128512
           ELSE IF c = "<u133>" THEN 133 ELSE IF c = "<u0>" THEN 0 ELSE IF c = "<u27>" THEN 27
           ELSE IF c = "<u7>" THEN 7 ELSE IF c = "<u8>" THEN 8 ELSE IF c = "<u11>" THEN 11 ELSE IF c = "<u12>" THEN 12 ELSE IF c = "\r" THEN 13
           ELSE IF c = "<u160>" THEN 160 ELSE IF c = "<u8232>" THEN 8232 ELSE IF c = "<u8233>" THEN 8233
           ELSE IF c = "<u288>" THEN 288 ELSE IF c = "<u19977>" THEN 19977
           ELSE 31 + AsciiIdx(c, 1)            \* printable ASCII

\* contexts: [name, key (must stay on one line), flow (flow indicators end a plain scalar), n (indentation of the parent block)]
Ctx(name) ==
  IF name = "top" THEN [name |-> name, key |-> FALSE, flow |-> FALSE, n |-> -1]
  ELSE IF name = "blockkey" THEN [name |-> name, key |-> TRUE, flow |-> FALSE, n |-> -1]
  ELSE IF name = "blockvalue" THEN [name |-> name, key |-> FALSE, flow |-> FALSE, n |-> 0]
  ELSE IF name = "seqentry" THEN [name |-> name, key |-> FALSE, flow |-> FALSE, n |-> 0]
  ELSE IF name = "flowseq" THEN [name |-> name, key |-> FALSE, flow |-> TRUE, n |-> -1]
  ELSE IF name = "flowkey" THEN [name |-> name, key |-> TRUE, flow |-> TRUE, n |-> -1]
  ELSE IF name = "flowvalue" THEN [name |-> name, key |-> FALSE, flow |-> TRUE, n |-> -1]
  ELSE IF name = "nestedvalue" THEN [name |-> name, key |-> FALSE, flow |-> FALSE, n |-> 2]
  ELSE IF name = "afterblank" THEN [name |-> name, key |-> FALSE, flow |-> FALSE, n |-> 0]       \* a sequence entry after a plain scalar and an empty line
  ELSE [name |-> "explicitkey", key |-> FALSE, flow |-> FALSE, n |-> 0]
CtxNames == {"top", "blockkey", "blockvalue", "seqentry", "flowseq", "flowkey", "flowvalue", "nestedvalue", "explicitkey", "afterblank"}

\* text around the scalar and the events of the whole stream, given the scalar's presentation and event
E_(k, v, style) == [k |-> k, v |-> v, style |-> style, aid |-> 0, tag |-> <<>>]
PlainEv(v) == E_("Scalar", v, "plain")
Wrap(ctxname, pres, ev) ==
  LET SS == E_("StreamStart", <<>>, "") SE == E_("StreamEnd", <<>>, "") DS == E_("DocumentStart", <<>>, "implicit") DE == E_("DocumentEnd", <<>>, "")
      MS == E_("MappingStart", <<>>, "") ME == E_("MappingEnd", <<>>, "") QS == E_("SequenceStart", <<>>, "") QE == E_("SequenceEnd", <<>>, "")
      K == PlainEv(<<"k">>) V == PlainEv(<<"v">>) X == PlainEv(<<"x">>)
  IN IF ctxname = "top" THEN [txt |-> pres \o <<"\n">>, evs |-> <<SS, DS, ev, DE, SE>>]
     ELSE IF ctxname = "blockkey" THEN [txt |-> pres \o <<":", " ", "v", "\n">>, evs |-> <<SS, DS, MS, ev, V, ME, DE, SE>>]
     ELSE IF ctxname = "blockvalue" THEN [txt |-> <<"k", ":", " ">> \o pres \o <<"\n">>, evs |-> <<SS, DS, MS, K, ev, ME, DE, SE>>]
     ELSE IF ctxname = "seqentry" THEN [txt |-> <<"-", " ">> \o pres \o <<"\n">>, evs |-> <<SS, DS, QS, ev, QE, DE, SE>>]
     ELSE IF ctxname = "flowseq" THEN [txt |-> <<"[">> \o pres \o <<",", " ", "x", "]", "\n">>, evs |-> <<SS, DS, QS, ev, X, QE, DE, SE>>]
     ELSE IF ctxname = "flowkey" THEN [txt |-> <<"{">> \o pres \o <<":", " ", "v", "}", "\n">>, evs |-> <<SS, DS, MS, ev, V, ME, DE, SE>>]
     ELSE IF ctxname = "flowvalue" THEN [txt |-> <<"{", "k", ":", " ">> \o pres \o <<"}", "\n">>, evs |-> <<SS, DS, MS, K, ev, ME, DE, SE>>]
     ELSE IF ctxname = "afterblank" THEN [txt |-> <<"-", " ", "x", "\n", "\n", "-", " ">> \o pres \o <<"\n">>, evs |-> <<SS, DS, QS, X, ev, QE, DE, SE>>]
     ELSE IF ctxname = "nestedvalue" THEN [txt |-> <<"k", ":", "\n", " ", " ", "j", ":", " ">> \o pres \o <<"\n">>, evs |-> <<SS, DS, MS, K, MS, PlainEv(<<"j">>), ev, ME, ME, DE, SE>>]
     ELSE [txt |-> <<"?", " ">> \o pres \o <<"\n", ":", " ", "v", "\n">>, evs |-> <<SS, DS, MS, ev, V, ME, DE, SE>>]

\* ---- which targets are representable how ----
NlRunStart(t, i) == IsNl(t[i]) /\ (i = 1 \/ ~IsNl(t[i - 1]))
\* a space that may be written as one line break: both neighbours exist and are neither blank nor line feed
Foldable(t, i) == t[i] = " " /\ i > 1 /\ i < Len(t) /\ ~IsBlank(t[i - 1]) /\ ~IsNl(t[i - 1]) /\ ~IsBlank(t[i + 1]) /\ ~IsNl(t[i + 1])
\* line feeds can only be written as real breaks when no blank touches the run (folding drops such blanks)
\* inside double quotes a blank written as an escape is content like any other character: a fold may stand next to it
EscBlank(t, ch, j) == (t[j] = " " /\ ch[j] \in {2, 3}) \/ (t[j] = "\t" /\ ch[j] \in {1, 2, 3})
FoldableDQ(t, i, ch) == t[i] = " " /\ i > 1 /\ i < Len(t) /\ ~IsNl(t[i - 1]) /\ ~IsNl(t[i + 1])
                        /\ (~IsBlank(t[i - 1]) \/ EscBlank(t, ch, i - 1)) /\ (~IsBlank(t[i + 1]) \/ EscBlank(t, ch, i + 1))
NlPlainOK(t) == \A i \in 1..Len(t) : IsNl(t[i]) => ((i = 1 \/ ~IsBlank(t[i - 1])) /\ (i = Len(t) \/ ~IsBlank(t[i + 1])))
Indicators == {"-", "?", ":", ",", "[", "]", "{", "}", "#", "&", "*", "!", "|", ">", "'", "\"", "%", "@", "`"}
FlowInd == {",", "[", "]", "{", "}"}
Printable(c) == c \notin {"\n", "<u0>", "<u27>", "<u133>", "<u7>", "<u8>", "<u11>", "<u12>", "\r"}      \* may be written literally inside quotes
PlainOK(t, ctx) ==
  /\ t # <<>>
  /\ ~IsBlank(t[1]) /\ ~IsNl(t[1]) /\ ~IsBlank(t[Len(t)]) /\ ~IsNl(t[Len(t)])
  /\ \A i \in 1..Len(t) : Printable(t[i]) \/ IsNl(t[i])
  /\ (t[1] \in Indicators => (t[1] \in {"-", "?", ":"} /\ Len(t) > 1 /\ ~IsBlank(t[2]) /\ ~IsNl(t[2]) /\ (ctx.flow => t[2] \notin FlowInd)))
  /\ \A i \in 1..Len(t) : t[i] = ":" => (i < Len(t) /\ ~IsBlank(t[i + 1]) /\ ~IsNl(t[i + 1]))
  /\ \A i \in 2..Len(t) : t[i] = "#" => (~IsBlank(t[i - 1]) /\ ~IsNl(t[i - 1]))
  /\ (ctx.flow => \A i \in 1..Len(t) : t[i] \notin FlowInd)
  /\ (ctx.key => \A i \in 1..Len(t) : ~IsNl(t[i]))
  /\ NlPlainOK(t)
  /\ \A i \in 2..Len(t) : IsNl(t[i - 1]) /\ ~IsNl(t[i]) => t[i] \notin Indicators       \* no continuation line starts with an indicator
  /\ ~(Len(t) >= 3 /\ t[1] = "-" /\ t[2] = "-" /\ t[3] = "-") /\ ~(Len(t) >= 3 /\ t[1] = "." /\ t[2] = "." /\ t[3] = ".")
SingleOK(t, ctx) ==
  /\ \A i \in 1..Len(t) : Printable(t[i]) \/ IsNl(t[i])
  /\ (ctx.key => \A i \in 1..Len(t) : ~IsNl(t[i]))
  /\ NlPlainOK(t)

\* ---- writing ----
\* a line break inside a multi-line flow scalar: padding (discarded), the break, continuation indentation
Brk(ctx, ci, pad) == Spc(pad) \o <<"\n">> \o Spc(ctx.n + 1 + ci)
\* a run of k line feeds starting at i: k + 1 breaks (only the last one is followed by the indentation)
RECURSIVE NlRun(_, _)
NlRun(t, i) == IF i <= Len(t) /\ IsNl(t[i]) THEN 1 + NlRun(t, i + 1) ELSE 0
Breaks(k, ctx, ci, pad) == Spc(pad) \o [j \in 1..(k + 1) |-> "\n"] \o Spc(ctx.n + 1 + ci)

\* double-quoted escape forms of a character: 1 = short (the complete table of section 5.7), 2 = \x (or \u when > 255), 3 = \u (or \U), 4 = \U
Short(c) == IF c = "\t" THEN <<"\\", "t">> ELSE IF c = "\n" THEN <<"\\", "n">> ELSE IF c = "\"" THEN <<"\\", "\"">> ELSE IF c = "\\" THEN <<"\\", "\\">>
            ELSE IF c = " " THEN <<"\\", " ">> ELSE IF c = "<u0>" THEN <<"\\", "0">> ELSE IF c = "<u27>" THEN <<"\\", "e">> ELSE IF c = "<u133>" THEN <<"\\", "N">>
            ELSE IF c = "<u7>" THEN <<"\\", "a">> ELSE IF c = "<u8>" THEN <<"\\", "b">> ELSE IF c = "<u11>" THEN <<"\\", "v">> ELSE IF c = "<u12>" THEN <<"\\", "f">>
            ELSE IF c = "\r" THEN <<"\\", "r">> ELSE IF c = "/" THEN <<"\\", "/">> ELSE IF c = "<u160>" THEN <<"\\", "_">>
            ELSE IF c = "<u8232>" THEN <<"\\", "L">> ELSE IF c = "<u8233>" THEN <<"\\", "P">>
            ELSE IF c = "a" THEN <<"\\", "x", "6", "1">> ELSE <<>>
Esc(c, form) ==
  LET v == Code(c) IN
  IF form = 1 /\ Short(c) # <<>> THEN Short(c)
  ELSE IF form = 4 /\ c = "\t" THEN <<"\\", "\t">>                   \* the second short form of a tab: backslash, literal tab
  ELSE IF form <= 2 /\ v < 256 THEN <<"\\", "x">> \o HexN(v, 2)
  ELSE IF form <= 3 /\ v < 65536 THEN <<"\\", "u">> \o HexNU(v, 4)
  ELSE <<"\\", "U">> \o HexNU(v, 8)
MustEscapeDQ(c) == c \in {"\"", "\\"} \/ ~Printable(c)

\* body of the presentation from position i (ch[i]: 0 literal / as real breaks, 1.. see above; multi = line breaks allowed)
RECURSIVE Body(_, _, _, _, _, _, _, _)
Body(t, i, style, ch, eb, ctx, ci, pad) ==
  IF i > Len(t) THEN <<>>
  ELSE LET c == t[i]
           multi == ~ctx.key
           \* an escaped line break joins the lines with nothing; blanks at the start of the continuation line are
           \* not content, so it is only placed before a character that is neither blank nor line feed
           ebk == IF style = "double" /\ multi /\ eb[i] = 1 /\ ~IsBlank(c) /\ ~IsNl(c) THEN <<"\\", "\n">> \o Spc(ctx.n + 1 + ci) ELSE <<>>
       IN IF IsNl(c) /\ NlRunStart(t, i) /\ multi /\ NlPlainOK(t) /\ (style # "double" \/ ch[i] = 0)
          THEN LET k == NlRun(t, i) IN Breaks(k, ctx, ci, pad) \o Body(t, i + k, style, ch, eb, ctx, ci, pad)
          \* double quotes: an escaped line break followed by k empty lines also denotes k line feeds (the empty
          \* lines after an escaped break are content); the next character must not be a literal blank
          ELSE IF IsNl(c) /\ NlRunStart(t, i) /\ multi /\ style = "double" /\ ch[i] = 2
                  /\ i + NlRun(t, i) <= Len(t) /\ ~IsBlank(t[i + NlRun(t, i)])
          THEN LET k == NlRun(t, i) IN <<"\\", "\n">> \o [j \in 1..k |-> "\n"] \o Spc(ctx.n + 1 + ci) \o Body(t, i + k, style, ch, eb, ctx, ci, pad)
          \* (a plain continuation line must not start with an indicator; inside quotes every character is content)
          ELSE IF c = " " /\ (Foldable(t, i) \/ (style = "double" /\ FoldableDQ(t, i, ch))) /\ multi /\ ch[i] = 1 /\ (style # "plain" \/ ~(t[i + 1] \in Indicators))
          THEN Brk(ctx, ci, pad) \o Body(t, i + 1, style, ch, eb, ctx, ci, pad)
          ELSE LET one == IF style = "double"
                          THEN (IF MustEscapeDQ(c) \/ IsNl(c) THEN Esc(c, IF ch[i] = 0 THEN 1 ELSE ch[i])
                                ELSE IF c = " " THEN (IF ch[i] = 2 THEN Short(c) ELSE IF ch[i] = 3 THEN Esc(c, 2) ELSE <<c>>)
                                ELSE IF ch[i] >= 1 THEN Esc(c, ch[i]) ELSE <<c>>)
                          ELSE IF style = "single" /\ c = "'" THEN <<"'", "'">> ELSE <<c>>
               IN ebk \o one \o Body(t, i + 1, style, ch, eb, ctx, ci, pad)

\* "---" or "..." somewhere in the target: at column 0 of a continuation line it would be a document marker even inside quotes
MarkerLike(t) == \E i \in 1..(Len(t) - 2) : t[i] = t[i + 1] /\ t[i + 1] = t[i + 2] /\ t[i] \in {"-", "."}
Present(t, style, ch, eb, ctx, ci0, pad) ==
  LET ci == IF ctx.n = -1 /\ (style = "plain" \/ MarkerLike(t)) THEN ci0 + 1 ELSE ci0       \* a top-level plain scalar is continued at column >= 1
      b == Body(t, 1, style, ch, eb, ctx, ci, pad) IN
  IF style = "double" THEN <<"\"">> \o b \o <<"\"">> ELSE IF style = "single" THEN <<"'">> \o b \o <<"'">> ELSE b
Representable(t, style, ctx) ==
  IF style = "plain" THEN PlainOK(t, ctx) ELSE IF style = "single" THEN SingleOK(t, ctx) ELSE TRUE
==============================================================================
