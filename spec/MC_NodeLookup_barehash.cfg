CONSTANTS
  K = 2
INIT Init
NEXT Next
INVARIANTS BareHashIsRef
CHECK_DEADLOCK FALSE
