CONSTANTS
  N = 3
  PoolName = "full"
  D = 2
  Variant = "repaired"
INIT Init
NEXT Next
INVARIANTS RefTheorems CodedIsRef Out
CHECK_DEADLOCK FALSE
