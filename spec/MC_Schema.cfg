CONSTANTS
  N = 4
  AlphaName = "num"
  Fixed = TRUE
INIT Init
NEXT Next
INVARIANT Inv
CHECK_DEADLOCK FALSE
