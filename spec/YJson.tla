---------------------------- MODULE YJson ----------------------------
(* REFERENCE module for C13: JSON values (RFC 8259) drawn from a choice tape, their serialisations
   with insignificant white space (nothing, space, tab, line feed, CR LF, line feed + indentation)
   around every token, and the data a JSON parser produces for them, in the node shape the harness
   projects loaded YAML to:  [t |-> "null"], [t |-> "bool", v], [t |-> "int", v |-> decimal digits],
   [t |-> "float", lit |-> the literal] (float values are compared by the harness with an independent
   JSON parser: TLC has no reals), [t |-> "str", v |-> characters], [t |-> "seq", v], [t |-> "map",
   v |-> << <<key, value>>, ... >>] (object members in order, keys distinct).
   Hostile strings: every JSON escape, YAML indicators inside strings, type-like strings, empty and
   blank-edged strings, NUL, astral and line-separator characters. No surrogate escapes.        *)
EXTENDS Naturals, Integers, Sequences

JCell(t, i) == IF i <= Len(t) THEN t[i] ELSE 0
JStrs == <<
  [j |-> <<"\"", "a", "\"">>, v |-> <<"a">>],
  [j |-> <<"\"", "\"">>, v |-> <<>>],
  [j |-> <<"\"", "a", " ", "b", "\"">>, v |-> <<"a", " ", "b">>],
  [j |-> <<"\"", "\\", "\"", "q", "\\", "\"", "\"">>, v |-> <<"\"", "q", "\"">>],
  [j |-> <<"\"", "\\", "\\", "\"">>, v |-> <<"\\">>],
  [j |-> <<"\"", "\\", "/", "\"">>, v |-> <<"/">>],
  [j |-> <<"\"", "\\", "b", "\\", "f", "\\", "n", "\\", "r", "\\", "t", "\"">>, v |-> <<"<u8>", "<u12>", "\n", "\r", "\t">>],
  [j |-> <<"\"", "\\", "u", "0", "0", "e", "9", "\"">>, v |-> <<"<u233>">>],
  [j |-> <<"\"", "<u233>", "z", "\"">>, v |-> <<"<u233>", "z">>],
  [j |-> <<"\"", "a", ":", " ", "b", "\"">>, v |-> <<"a", ":", " ", "b">>],
  [j |-> <<"\"", "#", " ", "c", "\"">>, v |-> <<"#", " ", "c">>],
  [j |-> <<"\"", "[", "x", "]", "\"">>, v |-> <<"[", "x", "]">>],
  [j |-> <<"\"", "{", "y", "}", "\"">>, v |-> <<"{", "y", "}">>],
  [j |-> <<"\"", "a", ",", "b", "\"">>, v |-> <<"a", ",", "b">>],
  [j |-> <<"\"", "n", "u", "l", "l", "\"">>, v |-> <<"n", "u", "l", "l">>],
  [j |-> <<"\"", "1", "2", "3", "\"">>, v |-> <<"1", "2", "3">>],
  [j |-> <<"\"", "-", " ", "x", "\"">>, v |-> <<"-", " ", "x">>],
  [j |-> <<"\"", "'", "\"">>, v |-> <<"'">>],
  [j |-> <<"\"", "*", "a", "\"">>, v |-> <<"*", "a">>],
  [j |-> <<"\"", "&", "b", "\"">>, v |-> <<"&", "b">>],
  [j |-> <<"\"", "!", "t", "\"">>, v |-> <<"!", "t">>],
  [j |-> <<"\"", "%", "d", "\"">>, v |-> <<"%", "d">>],
  [j |-> <<"\"", "\\", "u", "0", "0", "0", "0", "\"">>, v |-> <<"<u0>">>],
  [j |-> <<"\"", "<u128512>", "\"">>, v |-> <<"<u128512>">>],
  [j |-> <<"\"", "\\", "u", "2", "0", "2", "8", "\"">>, v |-> <<"<u8232>">>],
  [j |-> <<"\"", " ", "l", "e", "a", "d", "\"">>, v |-> <<" ", "l", "e", "a", "d">>],
  [j |-> <<"\"", "t", "r", "a", "i", "l", " ", "\"">>, v |-> <<"t", "r", "a", "i", "l", " ">>],
  [j |-> <<"\"", "a", "\\", "t", "b", "\"">>, v |-> <<"a", "\t", "b">>],
  [j |-> <<"\"", "-", "-", "-", "\"">>, v |-> <<"-", "-", "-">>],
  [j |-> <<"\"", "\\", "u", "0", "0", "4", "1", "\\", "u", "0", "0", "D", "F", "\"">>, v |-> <<"A", "<u223>">>],
  [j |-> <<"\"", "k", "\"">>, v |-> <<"k">>],
  [j |-> <<"\"", "~", "\"">>, v |-> <<"~">>],
  [j |-> <<"\"", "t", "r", "u", "e", "\"">>, v |-> <<"t", "r", "u", "e">>],
  [j |-> <<"\"", ":", "\"">>, v |-> <<":">>],
  [j |-> <<"\"", "?", "\"">>, v |-> <<"?">>],
  [j |-> <<"\"", "|", "\"">>, v |-> <<"|">>] >>
JNums == <<
  [j |-> <<"0">>, n |-> [t |-> "int", v |-> <<"0">>]],
  [j |-> <<"-", "0">>, n |-> [t |-> "int", v |-> <<"0">>]],
  [j |-> <<"1">>, n |-> [t |-> "int", v |-> <<"1">>]],
  [j |-> <<"-", "1">>, n |-> [t |-> "int", v |-> <<"-", "1">>]],
  [j |-> <<"1", "2", "3">>, n |-> [t |-> "int", v |-> <<"1", "2", "3">>]],
  [j |-> <<"9", "2", "2", "3", "3", "7", "2", "0", "3", "6", "8", "5", "4", "7", "7", "5", "8", "0", "7">>, n |-> [t |-> "int", v |-> <<"9", "2", "2", "3", "3", "7", "2", "0", "3", "6", "8", "5", "4", "7", "7", "5", "8", "0", "7">>]],
  [j |-> <<"-", "9", "2", "2", "3", "3", "7", "2", "0", "3", "6", "8", "5", "4", "7", "7", "5", "8", "0", "8">>, n |-> [t |-> "int", v |-> <<"-", "9", "2", "2", "3", "3", "7", "2", "0", "3", "6", "8", "5", "4", "7", "7", "5", "8", "0", "8">>]],
  [j |-> <<"1", ".", "5">>, n |-> [t |-> "float", lit |-> <<"1", ".", "5">>]],
  [j |-> <<"-", "2", ".", "5", "e", "3">>, n |-> [t |-> "float", lit |-> <<"-", "2", ".", "5", "e", "3">>]],
  [j |-> <<"1", "E", "2">>, n |-> [t |-> "float", lit |-> <<"1", "E", "2">>]],
  [j |-> <<"1", "e", "-", "2">>, n |-> [t |-> "float", lit |-> <<"1", "e", "-", "2">>]],
  [j |-> <<"0", ".", "0">>, n |-> [t |-> "float", lit |-> <<"0", ".", "0">>]],
  [j |-> <<"-", "0", ".", "0">>, n |-> [t |-> "float", lit |-> <<"-", "0", ".", "0">>]],
  [j |-> <<"1", "e", "+", "1", "0">>, n |-> [t |-> "float", lit |-> <<"1", "e", "+", "1", "0">>]],
  [j |-> <<"1", "2", ".", "3", "7", "5", "E", "-", "1">>, n |-> [t |-> "float", lit |-> <<"1", "2", ".", "3", "7", "5", "E", "-", "1">>]],
  [j |-> <<"1", ".", "0">>, n |-> [t |-> "float", lit |-> <<"1", ".", "0">>]] >>
WsTab == << <<>>, <<" ">>, <<"\t">>, <<"\n">>, <<"\r", "\n">>, <<"\n", " ", " ">>, <<" ", " ">>, <<"\n", "\t">> >>
Ws(c) == WsTab[(c % Len(WsTab)) + 1]
JR(txt, node, i) == [txt |-> txt, node |-> node, i |-> i]

RECURSIVE JVal(_, _, _), JItems(_, _, _, _), JMembers(_, _, _, _, _)
JVal(t, i, d) ==
  LET c == JCell(t, i) % 8 IN
  IF c = 0 THEN JR(<<"n", "u", "l", "l">>, [t |-> "null"], i + 1)
  ELSE IF c = 1 THEN JR(<<"t", "r", "u", "e">>, [t |-> "bool", v |-> TRUE], i + 1)
  ELSE IF c = 2 THEN JR(<<"f", "a", "l", "s", "e">>, [t |-> "bool", v |-> FALSE], i + 1)
  ELSE IF c = 3 THEN LET n == JNums[(JCell(t, i + 1) % Len(JNums)) + 1] IN JR(n.j, n.n, i + 2)
  ELSE IF c = 4 \/ d = 0 THEN LET s == JStrs[(JCell(t, i + 1) % Len(JStrs)) + 1] IN JR(s.j, [t |-> "str", v |-> s.v], i + 2)
  ELSE IF c \in {5, 6}
  THEN LET n == JCell(t, i + 1) % 4
           r == JItems(t, i + 2, d - 1, n)
       IN JR(<<"[">> \o r.txt \o <<"]">>, [t |-> "seq", v |-> r.node], r.i)
  ELSE LET n == JCell(t, i + 1) % 4
           r == JMembers(t, i + 3, d - 1, n, JCell(t, i + 2))
       IN JR(<<"{">> \o r.txt \o <<"}">>, [t |-> "map", v |-> r.node], r.i)
JItems(t, i, d, n) ==
  IF n = 0 THEN JR(Ws(JCell(t, i)), <<>>, i + 1)
  ELSE LET v == JVal(t, i + 1, d)
           rest == IF n > 1 THEN JItems(t, v.i + 1, d, n - 1) ELSE JR(<<>>, <<>>, v.i + 1)
       IN JR(Ws(JCell(t, i)) \o v.txt \o Ws(JCell(t, v.i)) \o (IF n > 1 THEN <<",">> ELSE <<>>) \o rest.txt, <<v.node>> \o rest.node, rest.i)
\* members: keys JStrs[k0], JStrs[k0 + 1], ... are distinct
JMembers(t, i, d, n, k0) ==
  IF n = 0 THEN JR(Ws(JCell(t, i)), <<>>, i + 1)
  ELSE LET k == JStrs[(k0 % Len(JStrs)) + 1]
           v == JVal(t, i + 3, d)
           rest == IF n > 1 THEN JMembers(t, v.i + 1, d, n - 1, k0 + 1) ELSE JR(<<>>, <<>>, v.i + 1)
       IN JR(Ws(JCell(t, i)) \o k.j \o Ws(JCell(t, i + 1)) \o <<":">> \o Ws(JCell(t, i + 2)) \o v.txt \o Ws(JCell(t, v.i)) \o (IF n > 1 THEN <<",">> ELSE <<>>) \o rest.txt,
             << <<[t |-> "str", v |-> k.v], v.node>> >> \o rest.node, rest.i)
\* a JSON text: optional white space, a value, optional white space
JText(t, d) == LET v == JVal(t, 2, d) IN
               [txt |-> Ws(JCell(t, 1)) \o v.txt \o Ws(JCell(t, v.i)), node |-> v.node, used |-> v.i]
======================================================================
