---------------------------- MODULE YNest ----------------------------
(* C11: nesting depth cannot crash the process.
   Abstract machine of the recursion that nesting causes: `open` = number of collections open in
   the event stream so far. Parser::load recurses once per open collection (load_node ->
   load_sequence / load_mapping -> load_node), and Drop / Clone / Eq / Hash / the emitter recurse
   once per level of the loaded tree. The parser keeps one state per open collection and refuses to
   go on ("recursion limit exceeded") when more than MaxNest are open, the scanner refuses flow
   nesting beyond 255. Hence every recursion is bounded by a constant that does not depend on the
   input: Bounded. Limit = 0 models the code before the repair (no bound: TLC finds Bounded
   violated for any given R).                                                                   *)
EXTENDS Naturals
CONSTANTS Limit, R, MaxInput
VARIABLES open, rec, failed
Init == open = 0 /\ rec = 0 /\ failed = FALSE
\* the input opens one more collection (the parser pushes a state, the consumer recurses)
Open == /\ ~failed /\ open < MaxInput
        /\ IF Limit > 0 /\ open + 1 > Limit THEN failed' = TRUE /\ UNCHANGED <<open, rec>>
           ELSE open' = open + 1 /\ rec' = rec + 1 /\ failed' = FALSE
Close == ~failed /\ open > 0 /\ open' = open - 1 /\ rec' = rec - 1 /\ UNCHANGED failed
Next == Open \/ Close
Bounded == rec <= R
\* what a recorded scenario must satisfy: the process survived; the recursion observed through the
\* `load` hook stays within the constant bound whatever the requested depth
ScenarioOK(died, maxstates, bound) == ~died /\ maxstates <= bound
======================================================================
