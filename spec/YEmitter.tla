---------------------------- MODULE YEmitter ----------------------------
(* Implementation-shaped model of saphyr/src/emitter.rs (and char_traits.rs): the DECISIONS the
   emitter takes on a string -- need_quotes as the decision list it is, Rust's str::parse::<i64>
   and str::parse::<f64> accepted languages written out, is_valid_literal_block_scalar, the choice
   literal block / double-quoted / plain of emit_node, the escape table of escape_str -- and the
   layout skeleton (emit_node / emit_val / emit_sequence / emit_mapping / emit_literal_block with
   `level`, `compact`, `multiline_strings`, best_indent = 2).

   This is a model OF THE CODE: a disagreement with the real emitter is drift, never a violation.
   It describes the REPAIRED decisions (fixes/C09a .. C09e); the pinned decisions are kept
   next to them (suffix Pinned) for the record.

   Values: a node is a record  [t |-> "null"] | [t |-> "bool", v |-> BOOLEAN] |
   [t |-> "int", v |-> Text (decimal digits, optional "-")] | [t |-> "float", v |-> name] |
   [t |-> "str", v |-> Text] | [t |-> "seq", v |-> <<node...>>] | [t |-> "map", v |-> <<<<k, v>>...>>].
   Text is a sequence of characters in the naming of YChars. TLC has no reals: a float is a
   symbolic name from FloatNames; FloatText gives what `{}` (Display) prints for it.            *)
EXTENDS YChars, FiniteSets

\* ---------------------------------------------------------------------------------------------
\* small text helpers
\* ---------------------------------------------------------------------------------------------
StartsWith(s, p) == Len(s) >= Len(p) /\ SubSeq(s, 1, Len(p)) = p
EndsWith(s, p) == Len(s) >= Len(p) /\ SubSeq(s, Len(s) - Len(p) + 1, Len(s)) = p
ContainsAny(s, C) == \E i \in 1..Len(s) : s[i] \in C
AllIn(s, C) == \A i \in 1..Len(s) : s[i] \in C
Drop(s, n) == SubSeq(s, n + 1, Len(s))
RECURSIVE Cat(_)
Cat(ss) == IF ss = <<>> THEN <<>> ELSE Head(ss) \o Cat(Tail(ss))

UpperSeq == <<"A", "B", "C", "D", "E", "F", "G", "H", "I", "J", "K", "L", "M", "N", "O", "P", "Q", "R", "S", "T", "U", "V", "W", "X", "Y", "Z">>
LowerSeq == <<"a", "b", "c", "d", "e", "f", "g", "h", "i", "j", "k", "l", "m", "n", "o", "p", "q", "r", "s", "t", "u", "v", "w", "x", "y", "z">>
ToLower(c) == IF c \in Upper THEN LowerSeq[CHOOSE i \in 1..26 : UpperSeq[i] = c] ELSE c
LowerText(s) == [i \in 1..Len(s) |-> ToLower(s[i])]

\* Code point of a character, for the characters a model run can contain (ASCII, tab, LF, CR and
\* the non-ASCII characters listed in KnownCodes); evaluated once by TLC (constant definition).
KnownCodes == (0..8) \cup (11..12) \cup (14..31) \cup (127..160) \cup
              {233, 8232, 8233, 55295, 57344, 65279, 65533, 65534, 65535, 65536, 128512, 884735, 884736, 1114111}
CodeTab == [n \in (32..126) \cup {9, 10, 13} \cup KnownCodes |-> CharOfCode(n)]
CodeOf(c) == CHOOSE n \in DOMAIN CodeTab : CodeTab[n] = c
Ctl(n) == CharOfCode(n)

\* ---------------------------------------------------------------------------------------------
\* Rust's accepted languages
\* ---------------------------------------------------------------------------------------------
\* digit-sequence comparison (TLC integers are 32-bit)
RECURSIVE StripZeros(_)
StripZeros(d) == IF Len(d) > 1 /\ d[1] = "0" THEN StripZeros(Tail(d)) ELSE d
RECURSIVE LexLeq(_, _)
LexLeq(a, b) == \* same length, digits
  IF a = <<>> THEN TRUE
  ELSE IF DigitVal(a[1]) < DigitVal(b[1]) THEN TRUE
  ELSE IF DigitVal(a[1]) > DigitVal(b[1]) THEN FALSE
  ELSE LexLeq(Tail(a), Tail(b))
I64MaxAbs == <<"9", "2", "2", "3", "3", "7", "2", "0", "3", "6", "8", "5", "4", "7", "7", "5", "8", "0", "7">>
I64MinAbs == <<"9", "2", "2", "3", "3", "7", "2", "0", "3", "6", "8", "5", "4", "7", "7", "5", "8", "0", "8">>
FitsI64(digits, neg) ==
  LET z == StripZeros(digits) IN
  Len(z) < 19 \/ (Len(z) = 19 /\ LexLeq(z, IF neg THEN I64MinAbs ELSE I64MaxAbs))

\* str::parse::<i64>(): one optional sign ('+' or '-'), at least one decimal digit, no overflow
RustI64(s) ==
  /\ s # <<>>
  /\ LET signed == s[1] \in {"+", "-"}
         body == IF signed THEN Tail(s) ELSE s IN
     /\ body # <<>>
     /\ AllIn(body, Digit)
     /\ FitsI64(body, s[1] = "-")

\* str::parse::<f64>() (core::num::dec2flt):
\*   Float  ::= Sign? ( 'inf' | 'infinity' | 'nan' | Number )      -- the words in any case
\*   Number ::= ( Digit+ | Digit+ '.' Digit* | Digit* '.' Digit+ ) Exp?
\*   Exp    ::= ('e' | 'E') Sign? Digit+
FirstExp(r) == IF \E i \in 1..Len(r) : r[i] \in {"e", "E"} THEN CHOOSE i \in 1..Len(r) : r[i] \in {"e", "E"} /\ \A j \in 1..(i - 1) : r[j] \notin {"e", "E"} ELSE 0
RustMantissa(m) ==
  /\ m # <<>>
  /\ AllIn(m, Digit \cup {"."})
  /\ Cardinality({i \in 1..Len(m) : m[i] = "."}) <= 1
  /\ \E i \in 1..Len(m) : m[i] \in Digit
RustExponent(e) ==
  LET body == IF e # <<>> /\ e[1] \in {"+", "-"} THEN Tail(e) ELSE e IN body # <<>> /\ AllIn(body, Digit)
RustNumber(r) ==
  LET i == FirstExp(r) IN
  IF i = 0 THEN RustMantissa(r)
  ELSE RustMantissa(SubSeq(r, 1, i - 1)) /\ RustExponent(Drop(r, i))
RustF64(s) ==
  /\ s # <<>>
  /\ LET r == IF s[1] \in {"+", "-"} THEN Tail(s) ELSE s IN
     \/ LowerText(r) \in {<<"i", "n", "f">>, <<"i", "n", "f", "i", "n", "i", "t", "y">>, <<"n", "a", "n">>}
     \/ RustNumber(r)

\* ---------------------------------------------------------------------------------------------
\* need_quotes, clause by clause
\* ---------------------------------------------------------------------------------------------
NQFirst == {"&", "*", "?", "|", "-", "<", ">", "=", "!", "%", "@"}
NQContainsPinned == {":", "{", "}", "[", "]", ",", "#", "`", "\"", "'", "\\", "\t", "\n", "\r"}
                    \cup {Ctl(n) : n \in (0..6) \cup (14..26) \cup (28..31)}
\* repaired (C09d): every character outside YAML's printable set (spec 5.1: C0 except tab/LF/CR,
\* DEL, C1 except NEL, U+FFFE, U+FFFF) and the byte order mark (not an nb-char) force the
\* double-quoted form, where they are escaped
NonPrintableCode(n) == (n <= 31 /\ n \notin {9, 10, 13}) \/ (n >= 127 /\ n <= 159 /\ n # 133) \/ n \in {65279, 65534, 65535}
NQContains == NQContainsPinned \cup {Ctl(n) : n \in {m \in KnownCodes : NonPrintableCode(m)}}
NQWordsPinned == {
  <<"y", "e", "s">>, <<"Y", "e", "s">>, <<"Y", "E", "S">>, <<"n", "o">>, <<"N", "o">>, <<"N", "O">>,
  <<"T", "r", "u", "e">>, <<"T", "R", "U", "E">>, <<"t", "r", "u", "e">>,
  <<"F", "a", "l", "s", "e">>, <<"F", "A", "L", "S", "E">>, <<"f", "a", "l", "s", "e">>,
  <<"o", "n">>, <<"O", "n">>, <<"O", "N">>, <<"o", "f", "f">>, <<"O", "f", "f">>, <<"O", "F", "F">>,
  <<"n", "u", "l", "l">>, <<"N", "u", "l", "l">>, <<"N", "U", "L", "L">>, <<"~">>}
\* repaired (C09c): the loader also reads +.inf / +.Inf / +.INF as a float
NQWords == NQWordsPinned \cup {<<"+", ".", "i", "n", "f">>, <<"+", ".", "I", "n", "f">>, <<"+", ".", "I", "N", "F">>}

NeedQuotesPinned(s) ==
  \/ s = <<>>
  \/ s[1] = " " \/ s[Len(s)] = " "
  \/ s[1] \in NQFirst
  \/ ContainsAny(s, NQContainsPinned)
  \/ s \in NQWordsPinned
  \/ s[1] = "."
  \/ StartsWith(s, <<"0", "x">>)
  \/ RustI64(s)
  \/ RustF64(s)

NeedQuotes(s) ==
  \/ s = <<>>
  \/ s[1] = " " \/ s[Len(s)] = " "
  \/ s[1] \in NQFirst
  \/ ContainsAny(s, NQContains)
  \/ s \in NQWords
  \/ s[1] = "."
  \/ StartsWith(s, <<"0", "x">>)
  \/ StartsWith(s, <<"0", "o">>)      \* repaired (C09c): the loader reads 0o17 as an integer
  \/ RustI64(s)
  \/ RustF64(s)

\* ---------------------------------------------------------------------------------------------
\* char_traits::is_valid_literal_block_scalar  (the upper bound d7fff is the code's, not YAML's)
\* ---------------------------------------------------------------------------------------------
LitCodePinned(n) == n \in {9, 10} \/ (n >= 32 /\ n <= 126) \/ n = 133 \/ (n >= 160 /\ n <= 884735)
LitSetPinned == {CodeTab[n] : n \in {m \in DOMAIN CodeTab : LitCodePinned(m)}}
IsValidLiteralBlockPinned(s) == \A i \in 1..Len(s) : s[i] \in LitSetPinned
\* repaired (C09d): YAML's printable set minus CR (kept out because str::lines would eat it) and
\* minus the byte order mark
LitCode(n) == n \in {9, 10} \/ (n >= 32 /\ n <= 126) \/ n = 133 \/ (n >= 160 /\ n <= 55295)
              \/ (n >= 57344 /\ n <= 65533 /\ n # 65279) \/ (n >= 65536 /\ n <= 1114111)
LitSet == {CodeTab[n] : n \in {m \in DOMAIN CodeTab : LitCode(m)}}
IsValidLiteralBlock(s) == \A i \in 1..Len(s) : s[i] \in LitSet

\* str::lines(): split at LF; a final empty piece is dropped (CR LF cannot occur: CR is not valid)
RECURSIVE SplitLF(_, _)
SplitLF(s, cur) ==
  IF s = <<>> THEN <<cur>>
  ELSE IF s[1] = "\n" THEN <<cur>> \o SplitLF(Tail(s), <<>>)
  ELSE SplitLF(Tail(s), Append(cur, s[1]))
RustLines(s) == LET p == SplitLF(s, <<>>) IN IF p[Len(p)] = <<>> THEN SubSeq(p, 1, Len(p) - 1) ELSE p

\* repaired (C09b): the literal form `|` / `|-` with auto-detected indentation is only used when
\* it can represent the string: not for keys, first line not blank-led and not empty (an
\* indentation indicator would be needed), at most one trailing line break (`|+` would be needed),
\* no line that reads as a document marker
MarkerLine(l) == (StartsWith(l, <<"-", "-", "-">>) \/ StartsWith(l, <<".", ".", ".">>)) /\ (Len(l) = 3 \/ l[4] \in Blank)
LiteralFaithful(s) ==
  /\ s[1] \notin {" ", "\n", "\t"}
  /\ ~EndsWith(s, <<"\n", "\n">>)
  /\ \A i \in 1..Len(RustLines(s)) : ~MarkerLine(RustLines(s)[i])

\* the choice in emit_node (Scalar::String arm); cfg = [compact |-> BOOLEAN, multiline |-> BOOLEAN]
StylePinned(cfg, s, isKey) ==
  IF cfg.multiline /\ ContainsAny(s, {"\n"}) /\ IsValidLiteralBlockPinned(s) THEN "literal"
  ELSE IF NeedQuotesPinned(s) THEN "double" ELSE "plain"
Style(cfg, s, isKey) ==
  IF cfg.multiline /\ ~isKey /\ ContainsAny(s, {"\n"}) /\ IsValidLiteralBlock(s) /\ LiteralFaithful(s) THEN "literal"
  ELSE IF NeedQuotes(s) THEN "double" ELSE "plain"

\* ---------------------------------------------------------------------------------------------
\* escape_str
\* ---------------------------------------------------------------------------------------------
HexSeq == <<"0", "1", "2", "3", "4", "5", "6", "7", "8", "9", "a", "b", "c", "d", "e", "f">>
U4(n) == <<"\\", "u", HexSeq[((n \div 4096) % 16) + 1], HexSeq[((n \div 256) % 16) + 1], HexSeq[((n \div 16) % 16) + 1], HexSeq[(n % 16) + 1]>>
EscCode(n) ==   \* rows of the table for control characters
  CASE n = 8 -> <<"\\", "b">> [] n = 9 -> <<"\\", "t">> [] n = 10 -> <<"\\", "n">>
    [] n = 12 -> <<"\\", "f">> [] n = 13 -> <<"\\", "r">> [] OTHER -> U4(n)
EscapedSetPinned == {"\"", "\\", "\t", "\n", "\r"} \cup {Ctl(n) : n \in (0..31) \cup {127}}
EscapedSet == {"\"", "\\", "\t", "\n", "\r"} \cup {Ctl(n) : n \in {m \in KnownCodes : NonPrintableCode(m)}}
Escaped(c) == c \in EscapedSet
EscChar(c) ==
  IF c = "\"" THEN <<"\\", "\"">>
  ELSE IF c = "\\" THEN <<"\\", "\\">>
  ELSE IF Escaped(c) THEN EscCode(CodeOf(c))
  ELSE <<c>>
EscapeStr(s) == <<"\"">> \o Cat([i \in 1..Len(s) |-> EscChar(s[i])]) \o <<"\"">>

\* ---------------------------------------------------------------------------------------------
\* floats: what Display prints for the symbolic names (repaired, C09a: a finite float whose
\* Display text has no '.', is given ".0"); "<?>" = not predicted (hundreds of digits)
\* ---------------------------------------------------------------------------------------------
FloatNames == <<"1.0", "-0.0", "0.1", "1e16", "123456789.125", "-2.5", "1e300", "5e-324", "inf", "-inf", "NaN">>
FloatText(name) ==
  CASE name = "1.0" -> <<"1", ".", "0">>
    [] name = "-0.0" -> <<"-", "0", ".", "0">>
    [] name = "0.1" -> <<"0", ".", "1">>
    [] name = "1e16" -> <<"1", "0", "0", "0", "0", "0", "0", "0", "0", "0", "0", "0", "0", "0", "0", "0", "0", ".", "0">>
    [] name = "123456789.125" -> <<"1", "2", "3", "4", "5", "6", "7", "8", "9", ".", "1", "2", "5">>
    [] name = "-2.5" -> <<"-", "2", ".", "5">>
    [] name = "inf" -> <<".", "i", "n", "f">>            \* non-finite floats are written in their core-schema spelling
    [] name = "-inf" -> <<"-", ".", "i", "n", "f">>
    [] name = "NaN" -> <<".", "n", "a", "n">>
    [] OTHER -> <<"<?>">>

\* ---------------------------------------------------------------------------------------------
\* layout skeleton
\* ---------------------------------------------------------------------------------------------
Spaces(n) == [i \in 1..n |-> " "]
WriteIndent(level) == IF level <= 0 THEN <<>> ELSE Spaces(2 * level)
NL == <<"\n">>

\* emit_literal_block at `level`
LiteralBlock(level, s) ==
  LET ls == RustLines(s) IN
  (IF s[Len(s)] = "\n" THEN <<"|">> ELSE <<"|", "-">>)
  \o Cat([i \in 1..Len(ls) |-> NL \o WriteIndent(level + 1) \o ls[i]])

EmitStr(cfg, level, s, isKey) ==
  LET st == Style(cfg, s, isKey) IN
  IF st = "literal" THEN LiteralBlock(level, s) ELSE IF st = "double" THEN EscapeStr(s) ELSE s

IsColl(n) == n.t \in {"seq", "map"}
\* str::len(): length in UTF-8 bytes
Utf8Len1(n) == IF n < 128 THEN 1 ELSE IF n < 2048 THEN 2 ELSE IF n < 65536 THEN 3 ELSE 4
RECURSIVE Utf8Len(_)
Utf8Len(s) == IF s = <<>> THEN 0 ELSE Utf8Len1(CodeOf(Head(s))) + Utf8Len(Tail(s))
\* emit_mapping: a key is written with "?" when it is a collection or (repaired, C09e) a string of
\* more than 128 bytes -- implicit keys are limited to 1024 characters
ExplicitKeyPinned(k) == IsColl(k)
ExplicitKey(k) == IsColl(k) \/ (k.t = "str" /\ Len(k.v) > 32 /\ Utf8Len(k.v) > 128)

RECURSIVE EmitNode(_, _, _, _), EmitSeqItems(_, _, _, _), EmitMapPairs(_, _, _, _), EmitVal(_, _, _, _)
\* emit_node with self.level = level; isKey: called for a scalar key from emit_mapping
EmitNode(cfg, level, n, isKey) ==
  CASE n.t = "seq" -> IF n.v = <<>> THEN <<"[", "]">> ELSE EmitSeqItems(cfg, level + 1, n.v, 1)
    [] n.t = "map" -> IF n.v = <<>> THEN <<"{", "}">> ELSE EmitMapPairs(cfg, level + 1, n.v, 1)
    [] n.t = "str" -> EmitStr(cfg, level, n.v, isKey)
    [] n.t = "bool" -> IF n.v THEN <<"t", "r", "u", "e">> ELSE <<"f", "a", "l", "s", "e">>
    [] n.t = "int" -> n.v
    [] n.t = "float" -> FloatText(n.v)
    [] n.t = "null" -> <<"~">>
\* the loop of emit_sequence, self.level already incremented
EmitSeqItems(cfg, level, items, i) ==
  IF i > Len(items) THEN <<>>
  ELSE (IF i > 1 THEN NL \o WriteIndent(level) ELSE <<>>) \o <<"-">> \o EmitVal(cfg, level, TRUE, items[i])
       \o EmitSeqItems(cfg, level, items, i + 1)
\* the loop of emit_mapping, self.level already incremented
EmitMapPairs(cfg, level, pairs, i) ==
  IF i > Len(pairs) THEN <<>>
  ELSE LET k == pairs[i][1]  v == pairs[i][2] IN
       (IF i > 1 THEN NL \o WriteIndent(level) ELSE <<>>)
       \o (IF ExplicitKey(k)
           THEN <<"?">> \o EmitVal(cfg, level, TRUE, k) \o NL \o WriteIndent(level) \o <<":">> \o EmitVal(cfg, level, TRUE, v)
           ELSE EmitNode(cfg, level, k, TRUE) \o <<":">> \o EmitVal(cfg, level, FALSE, v))
       \o EmitMapPairs(cfg, level, pairs, i + 1)
EmitVal(cfg, level, inline, x) ==
  IF IsColl(x)
  THEN (IF (inline /\ cfg.compact) \/ x.v = <<>> THEN <<" ">> ELSE NL \o WriteIndent(level + 1)) \o EmitNode(cfg, level, x, FALSE)
  ELSE <<" ">> \o EmitNode(cfg, level, x, FALSE)

\* YamlEmitter::dump
Dump(cfg, tree) == <<"-", "-", "-", "\n">> \o EmitNode(cfg, -1, tree, FALSE)

Settings == {[compact |-> c, multiline |-> m] : c \in BOOLEAN, m \in BOOLEAN}
=========================================================================
