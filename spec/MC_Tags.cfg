CONSTANTS
  Docs = 2
  Full = TRUE
INIT Init
NEXT Next
INVARIANT Out
CHECK_DEADLOCK FALSE
