---------------------------- MODULE Trace_RoundTrip ----------------------------
(* Judge of recorded emit -> load -> emit executions of the real library (C09). Every record of
   the NDJSON trace is one real execution:
     [tree   |-> the original value tree (projection of harness/src/nodes.rs),
      emit   |-> "ok" | "err" | "panic: ..",  text  |-> the emitted text,
      load   |-> "ok" | "err: .." | "panic: ..", ndocs |-> number of documents, doc |-> first document,
      emit2  |-> "ok" | .. ,  text2 |-> emission of the reloaded tree (same settings),
      odd    |-> the distinct code points of `text` outside printable ASCII and LF]
   The statement of C09 is evaluated on it; a rejected record is printed with the first clause
   that fails and judging continues.

   Tree equality: same node kinds, same scalar types and values (integers as decimal texts,
   floats by bit pattern -- the projection maps every NaN to one pattern, so NaN = NaN --, strings
   by content), same order of items and of pairs. A reloaded Representation / Alias / BadValue
   node equals nothing.

   Well-formedness of the text beyond what the loader of the library itself establishes
   (no error, one document): YAML 1.2.2 section 5.1, "On output, a YAML processor must only
   produce acceptable characters" -- every character of the text is in c-printable.          *)
EXTENDS Naturals, Sequences, Json, IOUtils, TLC
Rec == ndJsonDeserialize(IOEnv.TRACE)

RECURSIVE TreeEq(_, _)
TreeEq(a, b) ==
  /\ a.t = b.t
  /\ CASE a.t = "null" -> TRUE
       [] a.t \in {"bool", "int", "str"} -> a.v = b.v
       [] a.t = "float" -> a.bits = b.bits
       [] a.t = "seq" -> Len(a.v) = Len(b.v) /\ \A i \in 1..Len(a.v) : TreeEq(a.v[i], b.v[i])
       [] a.t = "map" -> Len(a.v) = Len(b.v) /\ \A i \in 1..Len(a.v) : TreeEq(a.v[i][1], b.v[i][1]) /\ TreeEq(a.v[i][2], b.v[i][2])
       [] OTHER -> FALSE

\* c-printable (YAML 1.2.2 production [1]); surrogates cannot occur in a Rust string
CPrintable(n) == n \in {9, 10, 13, 133} \/ (n >= 32 /\ n <= 126) \/ (n >= 160 /\ n <= 55295)
                 \/ (n >= 57344 /\ n <= 65533) \/ (n >= 65536 /\ n <= 1114111)

Verdict(r) ==
  IF r.emit # "ok" THEN "emit-failed"
  ELSE IF r.load # "ok" THEN "reload-failed"
  ELSE IF r.ndocs # 1 THEN "not-one-document"
  ELSE IF ~TreeEq(r.tree, r.doc) THEN "tree-differs"
  ELSE IF r.emit2 # "ok" THEN "re-emit-failed"
  ELSE IF r.text2 # r.text THEN "second-text-differs"
  ELSE IF \E i \in 1..Len(r.odd) : ~CPrintable(r.odd[i]) THEN "non-printable-output"
  ELSE "ok"

VARIABLE l
Init == l = 1
Next == /\ l <= Len(Rec)
        /\ LET v == Verdict(Rec[l]) IN IF v = "ok" THEN TRUE ELSE PrintT(<<"REJECT", l, v>>)
        /\ l' = l + 1
AllJudged == (l = Len(Rec) + 1) => PrintT(<<"JUDGED", Len(Rec)>>)
=============================================================================
