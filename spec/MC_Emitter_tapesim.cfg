CONSTANTS
  Mode = "tapes"
  Sigma = "base"
  N = 0
  D = 0
  L = 40
INIT Init
NEXT Next
INVARIANTS Out
CHECK_DEADLOCK FALSE
