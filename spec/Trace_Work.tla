---------------------------- MODULE Trace_Work ----------------------------
(* Judge of the work records of C01: one record per input length with the largest number of
   input operations any configuration needed for an input of that length.                      *)
EXTENDS YWork, Json, IOUtils, TLC, Sequences
Rec == ndJsonDeserialize(IOEnv.TRACE)
VARIABLE l
Init == l = 1
Next == /\ l <= Len(Rec)
        /\ IF WorkOK(Rec[l].len, Rec[l].work) THEN TRUE ELSE PrintT(<<"REJECT", l, "work exceeds the linear bound">>)
        /\ l' = l + 1
AllJudged == (l = Len(Rec) + 1) => PrintT(<<"JUDGED", Len(Rec)>>)
============================================================================
