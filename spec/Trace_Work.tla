---------------------------- MODULE Trace_Work ----------------------------
(* Judge of the work records of C01: one WORK record per input length with the largest number of
   input operations any configuration needed for an input of that length, and one SCALE record
   per (input family, interface) with the CPU time at two sizes.                               *)
EXTENDS YWork, Json, IOUtils, TLC, Sequences
Rec == ndJsonDeserialize(IOEnv.TRACE)
VARIABLE l
Init == l = 1
Next == /\ l <= Len(Rec)
        /\ IF Rec[l].k = "SCALE"
           THEN (IF Rec[l].died THEN PrintT(<<"REJECT", l, "the process died">>)
                 ELSE IF Rec[l].timed_out THEN PrintT(<<"REJECT", l, "did not finish within the time limit (twice the smaller of one minute and 16 times what the linear bound allows)">>)
                 ELSE IF ScaleOK(Rec[l].len1, Rec[l].t1us, Rec[l].len2, Rec[l].t2us) THEN TRUE
                 ELSE PrintT(<<"REJECT", l, "CPU time grows faster than the input">>))
           ELSE IF WorkOK(Rec[l].len, Rec[l].work) THEN TRUE ELSE PrintT(<<"REJECT", l, "work exceeds the linear bound">>)
        /\ l' = l + 1
AllJudged == (l = Len(Rec) + 1) => PrintT(<<"JUDGED", Len(Rec)>>)
============================================================================
