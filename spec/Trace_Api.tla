---------------------------- MODULE Trace_Api ----------------------------
(* Judge of recorded call histories (C17). Records:
     [k |-> "TEXT", base |-> items of plain iteration]            starts a new text
     [k |-> "NEW"]                                                a fresh parser on the same text
     [k |-> "CALL", op |-> "peek" | "next", ret |-> item]          one call and what it returned
     [k |-> "PUSH", evs, err]                                      load(multi = true)
     [k |-> "PUSH1", calls, err]                                   repeated load(multi = false)
   The reference semantics of YApi decides.                                                    *)
EXTENDS YApi, Json, IOUtils, TLC
Rec == ndJsonDeserialize(IOEnv.TRACE)
VARIABLES l, base, r
Init == l = 1 /\ base = <<>> /\ r = RefInit
BaseEvs == SelectSeq(base, LAMBDA it : it.kind = "ev")
BaseErr == IF base # <<>> /\ base[Len(base)].kind = "err" THEN <<base[Len(base)].err>> ELSE <<>>
EvOf(seq) == [j \in 1..Len(seq) |-> seq[j].ev]
Say(x) == PrintT(<<"REJECT", l, x>>)
Next == /\ l <= Len(Rec)
        /\ LET e == Rec[l] IN
           CASE e.k = "TEXT" -> base' = e.base /\ r' = RefInit
             [] e.k = "NEW" -> base' = base /\ r' = RefInit
             [] e.k = "CALL" ->
                  /\ base' = base
                  /\ IF r.dead THEN r' = r
                     ELSE IF e.op = "peek"
                     THEN r' = r /\ (IF e.ret = RefPeek(base, r) THEN TRUE ELSE Say("peek differs from the next item of plain iteration"))
                     ELSE LET y == RefNext(base, r) IN r' = y[1] /\ (IF e.ret = y[2] THEN TRUE ELSE Say("next differs from plain iteration"))
             [] e.k = "PUSH" ->
                  /\ base' = base /\ r' = r
                  /\ IF e.evs = EvOf(BaseEvs) /\ e.err = BaseErr THEN TRUE ELSE Say("push interface differs from the iterator")
             [] e.k = "PUSH1" ->
                  /\ base' = base /\ r' = r
                  /\ IF Flatten(e.calls) = EvOf(BaseEvs) /\ e.err = BaseErr THEN TRUE ELSE Say("load(false) calls together differ from the iterator")
                  /\ IF CallsOK(e.calls, 1, e.err # <<>>) THEN TRUE ELSE Say("load(false) did not deliver one document per call")
        /\ l' = l + 1
AllJudged == (l = Len(Rec) + 1) => PrintT(<<"JUDGED", Len(Rec)>>)
==========================================================================
