CONSTANTS
  L = 5
  D = 2
  C = 8
INIT Init
NEXT Next
INVARIANTS Out OutBoundary
CHECK_DEADLOCK FALSE
