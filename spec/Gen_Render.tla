---------------------------- MODULE Gen_Render ----------------------------
(* Generator for C03: grows a choice tape cell by cell (breadth-first: every tape up to length L;
   with -simulate: random tapes), renders it with YRender and prints text + denoted events.
   In-model cross-check (Sound): the implementation-shaped scanner/parser model reads the rendered
   text as exactly the denoted events -- renderer and model were written from opposite directions
   (tree -> text from the YAML productions, text -> events from the Rust), so a disagreement is a
   lead to be triaged, never reported by itself.                                                *)
EXTENDS YParser, YRender, TLC, Json
CONSTANTS L, D, C
VARIABLES tape, done
Init == tape = <<>> /\ done = FALSE
Next == \/ (~done /\ Len(tape) < L /\ \E c \in 0..(C - 1) : tape' = Append(tape, c) /\ done' = FALSE)
        \/ (~done /\ Len(tape) = L /\ done' = TRUE /\ tape' = tape)
G == Stream(tape, D)
Core(e) == [k |-> e.k, v |-> e.v, style |-> e.style, aid |-> e.aid, tag |-> e.tag]
ModelRun(text) == LET r == RunAll(text, PInit(FALSE), <<>>) IN
                  IF r.err # "" THEN <<"ERR", r.err>> ELSE [i \in 1..Len(r.evs) |-> Core(r.evs[i])]
\* (not an invariant: a disagreement is printed with the behaviour and triaged after replay on the real parser)
ModelAgrees == ModelRun(G.txt) = G.evs
Out == done => PrintT(<<"REPLAY", ToJson([tape |-> tape, text |-> G.txt, evs |-> G.evs, model |-> ModelAgrees])>>)
\* fixed probes, printed from the state reached by the first choice 0 (not the initial state: TLC evaluates that one on its small main-thread stack): implicit keys right at the 1024-character limit (the longest legal ones)
LongKey(n) == [i \in 1..n |-> "k"]
KeyDoc(pre, key, post, kev, wrapSeq) ==
  [txt |-> pre \o key \o post,
   evs |-> <<E0("StreamStart"), E("DocumentStart", <<>>, "implicit", 0, <<>>)>> \o (IF wrapSeq THEN <<E0("SequenceStart")>> ELSE <<>>) \o
           <<E0("MappingStart"), kev, E("Scalar", <<"v">>, "plain", 0, <<>>), E0("MappingEnd")>> \o (IF wrapSeq THEN <<E0("SequenceEnd")>> ELSE <<>>) \o <<E0("DocumentEnd"), E0("StreamEnd")>>]
Probes == << KeyDoc(<<>>, LongKey(1023), <<":", " ", "v", "\n">>, E("Scalar", LongKey(1023), "plain", 0, <<>>), FALSE),
             KeyDoc(<<>>, LongKey(1024), <<":", " ", "v", "\n">>, E("Scalar", LongKey(1024), "plain", 0, <<>>), FALSE),
             KeyDoc(<<>>, <<"\"">> \o LongKey(1022) \o <<"\"">>, <<":", " ", "v", "\n">>, E("Scalar", LongKey(1022), "double", 0, <<>>), FALSE),
             KeyDoc(<<>>, LongKey(1020), <<" ", " ", " ", " ", ":", " ", "v", "\n">>, E("Scalar", LongKey(1020), "plain", 0, <<>>), FALSE),
             KeyDoc(<<"-", " ">>, LongKey(1024), <<":", " ", "v", "\n">>, E("Scalar", LongKey(1024), "plain", 0, <<>>), TRUE) >>
OutProbes == (tape = <<0>> /\ ~done) => \A i \in 1..Len(Probes) : PrintT(<<"REPLAY", ToJson([tape |-> <<i>>, text |-> Probes[i].txt, evs |-> Probes[i].evs, model |-> (ModelRun(Probes[i].txt) = Probes[i].evs)])>>)
===========================================================================
