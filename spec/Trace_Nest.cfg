CONSTANTS
  Limit = 1000
  R = 1000
  MaxInput = 1
INIT TInit
NEXT TNext
INVARIANT AllJudged
CHECK_DEADLOCK FALSE
