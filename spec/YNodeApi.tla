------------------------------ MODULE YNodeApi ------------------------------
(* The node tree of saphyr as TLA+ data, and the node API of properties C19 / C20.

   A node is a record in the shape of the harness's JSON projection (harness/src/nodes.rs `Proj`),
   normalised so that a field name has one type everywhere (TLC raises an error when it has to
   compare a Boolean with a sequence, and the order in which it compares the fields of two records
   is not the alphabetical one); `norm` in harness/src/p/nodeops.rs does the renaming:

     [t |-> "null"]                      [t |-> "bool",  v |-> "true"]
     [t |-> "int",  v |-> "-12"]         (64-bit integers are decimal strings)
     [t |-> "float", bits |-> "3ff8...", class |-> "fin", disp |-> "1.5"]   (opaque bit pattern)
     [t |-> "str",  v |-> "text"]        [t |-> "bad"]        [t |-> "alias", v |-> "3"]
     [t |-> "repr", v |-> "text", style |-> "plain", tag |-> <<>> or <<handle, suffix>>]
     [t |-> "seq",  items |-> <<node, ...>>]
     [t |-> "map",  pairs |-> << <<key, value>>, ... >>]      (pairs in insertion order)

   Marked nodes carry one more field  span |-> <<start, end>>  (each a triple index, line, column).

   Two sides live here (DESIGN.md section 2):
     REFERENCE        what the property text means:  Strip / Equal / SameTreeUpToSpans, Resolve,
                      ResolveRec, RefGetStr, RefSeqGet, RefMapIntGet.
     AS CODED         the shape of saphyr/src/macros.rs: Take, PR (parse_representation), PRR
                      (parse_representation_recursive), NodeWise (the harness's own traversal that
                      calls parse_representation on every node), CodedGetStr (lookup by recomputed
                      hash + raw entry), CodedGetNode (the map's own lookup).
                      Variant "repaired" is the code with fixes/C19.patch applied; variant "pinned"
                      is the code as it was pinned (take() without putting the node back) and is
                      kept as the negative control of the self test.

   Scalar resolution (text/style/tag -> value) is NOT specified here: it belongs to C08. Every
   operator that resolves takes a table `res` = << <<repr, value>>, ... >> recorded from the real
   library's eager resolver; value [t |-> "bad"] stands for "cannot be parsed as the forced type". *)
EXTENDS Naturals, Sequences, FiniteSets

\* ----------------------------------------------------------------------------------------------
\* constructors
\* ----------------------------------------------------------------------------------------------
BadN == [t |-> "bad"]
NullN == [t |-> "null"]
BoolN(b) == [t |-> "bool", v |-> IF b THEN "true" ELSE "false"]
IntN(d) == [t |-> "int", v |-> d]
FloatN(bits, class, disp) == [t |-> "float", bits |-> bits, class |-> class, disp |-> disp]
StrN(s) == [t |-> "str", v |-> s]
AliasN(i) == [t |-> "alias", v |-> i]
ReprN(s, style, tag) == [t |-> "repr", v |-> s, style |-> style, tag |-> tag]
SeqN(items) == [t |-> "seq", items |-> items]
MapN(pairs) == [t |-> "map", pairs |-> pairs]

\* ----------------------------------------------------------------------------------------------
\* spans
\* ----------------------------------------------------------------------------------------------
HasSpan(n) == "span" \in DOMAIN n
Unspan(n) == IF HasSpan(n) THEN [f \in (DOMAIN n) \ {"span"} |-> n[f]] ELSE n
\* x placed in the slot of n: a marked slot keeps its span (only `.data` is replaced)
Respan(n, x) ==
  IF HasSpan(n) THEN [f \in (DOMAIN x) \cup {"span"} |-> IF f = "span" THEN n.span ELSE x[f]]
  ELSE Unspan(x)

RECURSIVE Strip(_)
RECURSIVE StripItems(_, _, _)
RECURSIVE StripPairs(_, _, _)
StripItems(s, i, acc) == IF i > Len(s) THEN acc ELSE StripItems(s, i + 1, Append(acc, Strip(s[i])))
StripPairs(s, i, acc) == IF i > Len(s) THEN acc ELSE StripPairs(s, i + 1, Append(acc, <<Strip(s[i][1]), Strip(s[i][2])>>))
\* the data of a node, without any span (identity on unmarked nodes)
Strip(n) ==
  LET m == Unspan(n) IN
  IF m.t = "seq" THEN [m EXCEPT !.items = StripItems(m.items, 1, <<>>)]
  ELSE IF m.t = "map" THEN [m EXCEPT !.pairs = StripPairs(m.pairs, 1, <<>>)]
  ELSE m

\* REFERENCE: equality of nodes (marked or not) is equality of their data
Equal(a, b) == Strip(a) = Strip(b)
SameTreeUpToSpans(a, b) == Strip(a) = Strip(b)
RECURSIVE SameDocsFrom(_, _, _)
SameDocsFrom(a, b, i) == IF i > Len(a) THEN TRUE ELSE SameTreeUpToSpans(a[i], b[i]) /\ SameDocsFrom(a, b, i + 1)
SameDocsUpToSpans(a, b) == Len(a) = Len(b) /\ SameDocsFrom(a, b, 1)

\* Hash abstractions. The code's Hash is some function of the data; all the property needs is
\* Equal(a, b) => H(a) = H(b). Three lawful instances (injective, by kind, constant) are used to
\* show that lookup by recomputed hash does not depend on which lawful hash it is.
HashInj(n) == Strip(n)
HashKind(n) == n.t
HashConst(n) == 0

\* ----------------------------------------------------------------------------------------------
\* shape predicates
\* ----------------------------------------------------------------------------------------------
RECURSIVE HasRepr(_)
HasRepr(n) ==
  \/ n.t = "repr"
  \/ n.t = "seq" /\ \E i \in 1..Len(n.items) : HasRepr(n.items[i])
  \/ n.t = "map" /\ \E i \in 1..Len(n.pairs) : HasRepr(n.pairs[i][1]) \/ HasRepr(n.pairs[i][2])
IsResolved(n) == ~HasRepr(n)

RECURSIVE WellFormed(_)
\* keys of a mapping are pairwise different (the container guarantees it)
WellFormed(n) ==
  IF n.t = "seq" THEN \A i \in 1..Len(n.items) : WellFormed(n.items[i])
  ELSE IF n.t = "map" THEN
    /\ \A i \in 1..Len(n.pairs) : WellFormed(n.pairs[i][1]) /\ WellFormed(n.pairs[i][2])
    /\ \A i, j \in 1..Len(n.pairs) : i < j => ~Equal(n.pairs[i][1], n.pairs[j][1])
  ELSE TRUE

RECURSIVE Size(_)
RECURSIVE SizeItems(_, _)
RECURSIVE SizePairs(_, _)
SizeItems(s, i) == IF i > Len(s) THEN 0 ELSE Size(s[i]) + SizeItems(s, i + 1)
SizePairs(s, i) == IF i > Len(s) THEN 0 ELSE Size(s[i][1]) + Size(s[i][2]) + SizePairs(s, i + 1)
Size(n) == IF n.t = "seq" THEN 1 + SizeItems(n.items, 1) ELSE IF n.t = "map" THEN 1 + SizePairs(n.pairs, 1) ELSE 1

\* ----------------------------------------------------------------------------------------------
\* the resolution table (recorded from the real eager resolver, see the header)
\* ----------------------------------------------------------------------------------------------
Unknown == [t |-> "unresolved"]
ResOf(res, r) ==
  LET I == {i \in 1..Len(res) : res[i][1] = r} IN
  IF I = {} THEN Unknown ELSE res[CHOOSE i \in I : TRUE][2]

\* insertion into the insertion-ordered map (hashlink `insert`, used by the loader and by
\* `collect`): a new key goes to the back; an existing key keeps its key node, takes the new value
\* and moves to the back
MapInsert(pairs, k, v) ==
  LET I == {i \in 1..Len(pairs) : Equal(pairs[i][1], k)} IN
  IF I = {} THEN Append(pairs, <<k, v>>)
  ELSE LET i == CHOOSE j \in I : TRUE IN
       SubSeq(pairs, 1, i - 1) \o SubSeq(pairs, i + 1, Len(pairs)) \o << <<pairs[i][1], v>> >>

\* ----------------------------------------------------------------------------------------------
\* REFERENCE: what resolving means
\* ----------------------------------------------------------------------------------------------
\* one node: the identity on every node that is not a representation; a representation becomes
\* the value its text/style/tag denote, or BadValue
Resolve(res, n) == IF n.t = "repr" THEN Respan(n, ResOf(res, Strip(n))) ELSE n

RECURSIVE ResolveRec(_, _)
RECURSIVE ResolveItems(_, _, _, _)
RECURSIVE ResolvePairs(_, _, _, _)
ResolveItems(res, s, i, acc) == IF i > Len(s) THEN acc ELSE ResolveItems(res, s, i + 1, Append(acc, ResolveRec(res, s[i])))
ResolvePairs(res, s, i, acc) ==
  IF i > Len(s) THEN acc
  ELSE ResolvePairs(res, s, i + 1, MapInsert(acc, ResolveRec(res, s[i][1]), ResolveRec(res, s[i][2])))
\* the whole tree
ResolveRec(res, n) ==
  IF n.t = "seq" THEN [n EXCEPT !.items = ResolveItems(res, n.items, 1, <<>>)]
  ELSE IF n.t = "map" THEN [n EXCEPT !.pairs = ResolvePairs(res, n.pairs, 1, <<>>)]
  ELSE Resolve(res, n)

RECURSIVE ResolveDocs(_, _, _, _)
ResolveDocs(res, docs, i, acc) == IF i > Len(docs) THEN acc ELSE ResolveDocs(res, docs, i + 1, Append(acc, ResolveRec(res, docs[i])))

\* Scalar::into_owned / ScalarOwned::as_scalar on the projection (the projection does not show
\* whether a string is borrowed or owned): the round trip must be the identity
ScalarRoundTrip(before, after) == before = after

\* ----------------------------------------------------------------------------------------------
\* AS CODED (saphyr/src/macros.rs).  V \in {"repaired", "pinned"}
\* ----------------------------------------------------------------------------------------------
\* self.take(): the node leaves, BadValue stays in the slot (a marked slot keeps its span)
Take(n) == [out |-> n, slot |-> Respan(n, BadN)]

\* parse_representation(): returns [n |-> the slot afterwards, ok |-> return value]
PR(V, res, n) ==
  LET tk == Take(n) IN
  IF tk.out.t = "repr" THEN
    LET r == ResOf(res, Strip(tk.out)) IN
    IF r.t # "bad" THEN [n |-> Respan(n, r), ok |-> TRUE]       \* *self = Self::Value(scalar)
    ELSE [n |-> tk.slot, ok |-> FALSE]                            \* *self = Self::BadValue
  ELSE [n |-> IF V = "pinned" THEN tk.slot ELSE tk.out, ok |-> TRUE]   \* `_ => true` (pinned: nothing put back)

RECURSIVE PRR(_, _, _)
RECURSIVE PRRItems(_, _, _, _, _)
RECURSIVE PRRPairs(_, _, _, _, _)
PRRItems(V, res, s, i, acc) ==
  IF i > Len(s) THEN acc
  ELSE LET r == PRR(V, res, s[i]) IN PRRItems(V, res, s, i + 1, [v |-> Append(acc.v, r.n), ok |-> acc.ok /\ r.ok])
PRRPairs(V, res, s, i, acc) ==
  IF i > Len(s) THEN acc
  ELSE LET a == PRR(V, res, s[i][1])
           b == PRR(V, res, s[i][2])
       IN PRRPairs(V, res, s, i + 1, [v |-> MapInsert(acc.v, a.n, b.n), ok |-> acc.ok /\ a.ok /\ b.ok])
\* parse_representation_recursive()
PRR(V, res, n) ==
  LET tk == Take(n) IN
  IF tk.out.t = "repr" THEN PR(V, res, n)                         \* zelf.parse_representation(); *self = zelf
  ELSE IF tk.out.t = "seq" THEN
    LET r == PRRItems(V, res, tk.out.items, 1, [v |-> <<>>, ok |-> TRUE]) IN
    [n |-> IF V = "pinned" THEN tk.slot ELSE [n EXCEPT !.items = r.v], ok |-> r.ok]   \* pinned: the vector is dropped
  ELSE IF tk.out.t = "map" THEN
    LET r == PRRPairs(V, res, tk.out.pairs, 1, [v |-> <<>>, ok |-> TRUE]) IN
    [n |-> [n EXCEPT !.pairs = r.v], ok |-> r.ok]                     \* *self = Self::Mapping(map)
  ELSE [n |-> IF V = "pinned" THEN tk.slot ELSE tk.out, ok |-> TRUE]

\* The harness's own bottom-up traversal through the public accessors: children first (a mapping
\* is taken apart and rebuilt with `insert`), then parse_representation() on the node itself —
\* on every node, collections included (the documentation says it does nothing there).
RECURSIVE NodeWise(_, _, _)
RECURSIVE NodeWiseItems(_, _, _, _, _)
RECURSIVE NodeWisePairs(_, _, _, _, _)
NodeWiseItems(V, res, s, i, acc) == IF i > Len(s) THEN acc ELSE NodeWiseItems(V, res, s, i + 1, Append(acc, NodeWise(V, res, s[i]).n))
NodeWisePairs(V, res, s, i, acc) ==
  IF i > Len(s) THEN acc
  ELSE NodeWisePairs(V, res, s, i + 1, MapInsert(acc, NodeWise(V, res, s[i][1]).n, NodeWise(V, res, s[i][2]).n))
NodeWise(V, res, n) ==
  IF n.t = "seq" THEN PR(V, res, [n EXCEPT !.items = NodeWiseItems(V, res, n.items, 1, <<>>)])
  ELSE IF n.t = "map" THEN PR(V, res, [n EXCEPT !.pairs = NodeWisePairs(V, res, n.pairs, 1, <<>>)])
  ELSE PR(V, res, n)

\* one API call, as coded / as the reference reads it
Ops == {"pr", "prr", "node"}
CodedOp(V, res, op, n) == IF op = "pr" THEN PR(V, res, n) ELSE IF op = "prr" THEN PRR(V, res, n) ELSE NodeWise(V, res, n)
RefOp(res, op, n) == IF op = "pr" THEN Resolve(res, n) ELSE ResolveRec(res, n)

\* Where exactly the pinned code departs from the reference (the C19 defects):
\*   pr   : every node that is neither a representation nor already BadValue is lost;
\*   prr  : a sequence is always lost; a value or alias is lost; a mapping survives but each of
\*          its keys and values is treated by the same rule;
\*   node : as pr, at every node.
RECURSIVE PinnedDefectPRR(_)
PinnedDefectPRR(n) ==
  IF n.t \in {"repr", "bad"} THEN FALSE
  ELSE IF n.t = "map" THEN \E i \in 1..Len(n.pairs) : PinnedDefectPRR(n.pairs[i][1]) \/ PinnedDefectPRR(n.pairs[i][2])
  ELSE TRUE
PinnedDefect(op, n) == IF op = "prr" THEN PinnedDefectPRR(n) ELSE n.t \notin {"repr", "bad"}

\* ----------------------------------------------------------------------------------------------
\* mapping lookup (C20)
\* ----------------------------------------------------------------------------------------------
Absent == [found |-> FALSE]
Found(x) == [found |-> TRUE, val |-> x]

\* REFERENCE: an entry is found exactly when some key is a resolved string equal to k
FindStr(n, k) == IF n.t # "map" THEN {} ELSE {i \in 1..Len(n.pairs) : Strip(n.pairs[i][1]) = StrN(k)}
RefGetStr(n, k) == LET I == FindStr(n, k) IN IF I = {} THEN Absent ELSE Found(n.pairs[CHOOSE i \in I : TRUE][2])
\* the four ways of asking (reference reading)
RefGet(n, k) == RefGetStr(n, k)
RefContains(n, k) == RefGetStr(n, k).found
RefIndexPanics(n, k) == ~RefGetStr(n, k).found
RefGetNode(n, key) ==
  IF n.t # "map" THEN Absent
  ELSE LET I == {i \in 1..Len(n.pairs) : Equal(n.pairs[i][1], key)} IN
       IF I = {} THEN Absent ELSE Found(n.pairs[CHOOSE i \in I : TRUE][2])
\* integer indexing: sequences by position (0-based), mappings by the key Integer(i)
RefSeqGet(n, i) == IF n.t = "seq" /\ i + 1 <= Len(n.items) THEN Found(n.items[i + 1]) ELSE Absent
RefMapIntGet(n, d) == RefGetNode(n, IntN(d))
\* d = decimal text of the index, i = its value when it is small enough for TLC (else -1)
RefIntIndex(n, d, i) ==
  IF n.t = "seq" THEN (IF i < 0 THEN Absent ELSE RefSeqGet(n, i))
  ELSE IF n.t = "map" THEN RefMapIntGet(n, d)
  ELSE Absent

\* AS CODED: as_mapping_get_impl of Yaml / YamlOwned — hash of a synthetic string node, then a raw
\* entry probe among the keys with that hash using `k.as_str() == Some(key)`.
\* Hkey = the hash of stored keys, hneedle = the hash computed for the probe.
CodedGetStrH(Hkey(_), hneedle, n, k) ==
  IF n.t # "map" THEN Absent
  ELSE LET I == {i \in 1..Len(n.pairs) : Hkey(n.pairs[i][1]) = hneedle /\ n.pairs[i][1].t = "str" /\ n.pairs[i][1].v = k}
       IN IF I = {} THEN Absent ELSE Found(n.pairs[CHOOSE i \in I : TRUE][2])
CodedGetStr(H(_), n, k) == CodedGetStrH(H, H(StrN(k)), n, k)
\* as_mapping_get_impl of YamlData / YamlDataOwned — a needle node with a default span, compared
\* with `*candidate == needle` (PartialEq of marked nodes ignores spans)
CodedGetStrMarked(H(_), n, k) ==
  IF n.t # "map" THEN Absent
  ELSE LET h == H(StrN(k))
           I == {i \in 1..Len(n.pairs) : H(n.pairs[i][1]) = h /\ Equal(n.pairs[i][1], StrN(k))}
       IN IF I = {} THEN Absent ELSE Found(n.pairs[CHOOSE i \in I : TRUE][2])
\* the map's own lookup with an explicitly built node
CodedGetNode(H(_), n, key) ==
  IF n.t # "map" THEN Absent
  ELSE LET I == {i \in 1..Len(n.pairs) : H(n.pairs[i][1]) = H(key) /\ Equal(n.pairs[i][1], key)} IN
       IF I = {} THEN Absent ELSE Found(n.pairs[CHOOSE i \in I : TRUE][2])
\* negative control: the needle hashed as a bare string, the keys as nodes (an unlawful pairing)
HashTagged(n) == <<"node", n.t>>
CodedGetStrBareHash(n, k) == CodedGetStrH(HashTagged, <<"bare", "str">>, n, k)

\* equality / hashing law of C20 on a recorded pair: nodes that compare equal hash equally, and
\* the same data compares equal whatever the form of its strings
\* (equality is equality of the data: floats by value -- the two zeroes are one value, NaN payloads are not told apart by the
\* projection --, sequences and mappings entry by entry in order)
ZeroBits == {"0000000000000000", "8000000000000000"}
RECURSIVE EqualData(_, _)
RECURSIVE EqualItems(_, _, _)
RECURSIVE EqualPairs(_, _, _)
EqualItems(a, b, i) == IF i > Len(a) THEN TRUE ELSE EqualData(a[i], b[i]) /\ EqualItems(a, b, i + 1)
EqualPairs(a, b, i) == IF i > Len(a) THEN TRUE ELSE EqualData(a[i][1], b[i][1]) /\ EqualData(a[i][2], b[i][2]) /\ EqualPairs(a, b, i + 1)
EqualData(x, y) ==
  LET a == Unspan(x) b == Unspan(y) IN
  IF a.t # b.t THEN FALSE
  ELSE IF a.t = "float" THEN a.bits = b.bits \/ (a.bits \in ZeroBits /\ b.bits \in ZeroBits)
  ELSE IF a.t = "seq" THEN Len(a.items) = Len(b.items) /\ EqualItems(a.items, b.items, 1)
  ELSE IF a.t = "map" THEN Len(a.pairs) = Len(b.pairs) /\ EqualPairs(a.pairs, b.pairs, 1)
  ELSE a = b
EqHashLaw(x, y, eq, hx, hy) == (eq => hx = hy) /\ (Equal(x, y) => eq) /\ (eq => EqualData(x, y))
=============================================================================
