CONSTANTS
  L = 11
  Sentinel = FALSE
INIT Init
NEXT Next
INVARIANTS NoPanicSite Mirror Out
CHECK_DEADLOCK FALSE
