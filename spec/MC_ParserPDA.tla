---------------------------- MODULE MC_ParserPDA ----------------------------
(* The parser's push-down automaton fed EVERY token sequence (not only those the scanner can
   produce): an environment action supplies the next token on demand, one at a time, so the token
   history is not part of the state. Bounded only in the depth of the state stack (D), the number
   of anchors handed out (A) and the number of tokens one parser step may consume (W).
   Checked: the automaton never pops an empty stack or reaches an unreachable state
   (StackNonEmptyAtPop, C01), every emitted prefix is accepted by the event grammar and an
   error-free run ends in a whole sentence (C02) -- whatever the scanner sends.                *)
EXTENDS YParser, YEvents
CONSTANTS D, A, W

Z3 == <<0, 0, 0>>
TK(k, v, x) == Tok(k, Z3, Z3, v, x)
Plain == {TK(k, <<>>, <<>>) : k \in {"StreamStart", "StreamEnd", "DocumentStart", "DocumentEnd", "BlockSequenceStart",
            "BlockMappingStart", "BlockEnd", "FlowSequenceStart", "FlowSequenceEnd", "FlowMappingStart", "FlowMappingEnd",
            "BlockEntry", "FlowEntry", "Key", "Value"}}
Tokens == Plain \cup {TK("Scalar", <<"s">>, "plain"), TK("Anchor", <<"a">>, <<>>), TK("Anchor", <<"b">>, <<>>),
                       TK("Alias", <<"a">>, <<>>), TK("Alias", <<"b">>, <<>>),
                       TK("Tag", <<"!">>, <<"t">>), TK("Tag", <<"!", "e", "!">>, <<"t">>),
                       TK("TagDirective", <<"!", "e", "!">>, <<"p">>), TK("VersionDirective", <<>>, <<1, 2>>)}

FeedInit == [feed |-> TRUE, pos |-> 0, line |-> 1, col |-> 0, err |-> "", errmark |-> Z3]
VARIABLES p, feed, acc, done
vars == <<p, feed, acc, done>>

\* keep one entry per anchor name (same meaning, finite state)
NormAnchors(m) == LET names == {m[i][1] : i \in 1..Len(m)} IN
                  IF <<"a">> \in names /\ <<"b">> \in names THEN << <<<<"a">>, Get(m, <<"a">>)[1]>>, <<<<"b">>, Get(m, <<"b">>)[1]>> >>
                  ELSE IF <<"a">> \in names THEN << <<<<"a">>, Get(m, <<"a">>)[1]>> >>
                  ELSE IF <<"b">> \in names THEN << <<<<"b">>, Get(m, <<"b">>)[1]>> >>
                  ELSE <<>>

Try == Parse(feed, [p EXCEPT !.sc.pos = 0])
Starved == Try[1].sc.err = "unexpected eof"      \* the step needs a token that was not supplied yet
Init == p = [PInit(FALSE) EXCEPT !.sc = FeedInit] /\ feed = <<>> /\ acc = AccInit /\ done = FALSE
Supply == /\ ~done /\ Starved /\ Len(feed) < W
          /\ \E tk \in Tokens : feed' = Append(feed, tk)
          /\ UNCHANGED <<p, acc, done>>
StepParse == /\ ~done /\ ~Starved
             /\ LET r == Try q == r[1] IN
                /\ p' = [q EXCEPT !.sc.pos = 0, !.anchors = NormAnchors(@)]
                /\ feed' = SubSeq(feed, q.sc.pos + 1, Len(feed))
                /\ IF q.sc.err # "" THEN acc' = acc /\ done' = TRUE
                   ELSE acc' = AccStep(acc, r[2]) /\ done' = (r[2].k = "StreamEnd")
Next == Supply \/ StepParse

NoPanic == p.sc.err \notin {"PANIC: pop_state on an empty stack", "PANIC: unreachable state"}
Grammar == acc.ph # "BAD"
Complete == (done /\ p.sc.err = "") => acc.ph = "end"
Bound == Len(p.states) <= D /\ p.nextAid <= A + 1
=============================================================================
