CONSTANTS
  K = 3
INIT Init
NEXT Next
INVARIANTS LookupLaw IntLaw HashLaw Out
CHECK_DEADLOCK FALSE
