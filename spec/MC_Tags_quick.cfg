CONSTANTS
  Docs = 2
  Full = FALSE
INIT Init
NEXT Next
INVARIANT Out
CHECK_DEADLOCK FALSE
