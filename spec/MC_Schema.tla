---------------------------- MODULE MC_Schema ----------------------------
(* Exhaustive small-scope configuration for property C08. Every text up to length N over an
   alphabet of characters that occur in core-schema literals is a state (texts grow one character
   per step). In every state
     (a) the theorems relating the reference module (YCoreSchema), the model of the Rust standard
         parsers and the model of saphyr's decision lists (YSchema) are checked, and
     (b) one REPLAY line is printed: the text, the type the core schema assigns, whether the
         property demands recognition, the exact integer value, and, for plain and for non-plain
         style under each tag class, the set of outcomes the property allows (reference side) and
         the outcome YSchema predicts for the code (implementation side).
   The harness replays every line on the real library (vh c08-replay).

   REPLAY record:  t    text (array of one-character strings)
                   ref  RefType(t);  must  MustType(t);  iv  decimal text of the integer value ("" if none)
                   a    allowed outcomes, 14 cells separated by ';' in the order
                        plain x (none int float bool null str foreign), non-plain x (the same);
                        alternatives within a cell separated by '|'
                   m    predicted outcomes, same 14 cells, one outcome each
   An outcome is written  null | bool:true | bool:false | int:<decimal> | float:<text> | str | bad
   where float:<text> means the f64 Rust's own `<text>.parse::<f64>()` yields (inf, -inf, nan are
   such texts), str means a string identical to the scalar text and bad means None / BadValue.  *)
EXTENDS YSchema, Json
CONSTANTS N, AlphaName

Full == Digit \cup {"+", "-", ".", "e", "E", "x", "o", "_", "~"}
        \cup {"a", "b", "c", "d", "f", "A", "B", "C", "D", "F"}
        \cup {"n", "u", "l", "t", "r", "s", "i", "N", "U", "L", "T", "R", "S", "I"}
Sigma ==
  CASE AlphaName = "full" -> Full
    [] AlphaName = "num"  -> {"0", "1", "7", "8", "9", "+", "-", ".", "e", "E", "x", "o", "a", "f", "F", "_"}
    [] AlphaName = "word" -> {"n", "u", "l", "N", "U", "L", "t", "r", "e", "T", "R", "E", "~", ".", "f", "a", "s"}
    [] AlphaName = "inf"  -> {".", "i", "n", "f", "a", "I", "N", "F", "A", "+", "-", "1", "e", "~"}

VARIABLE text
Init == text = <<>>
Next == Len(text) < N /\ \E c \in Sigma : text' = Append(text, c)

\* ------------------------------------------------------------------------------------------------
\* (a) theorems.  F = Facts(text); A / M = the 14 cells (allowed sets / predicted outcomes)
\* ------------------------------------------------------------------------------------------------
TagSeq == <<"none", "int", "float", "bool", "null", "str", "foreign">>
Model(style, class) == ParseFromCowAndMetadata(text, style, TagOf(class))
CellsA(F) == << AllowedF(F, "plain", "none"), AllowedF(F, "plain", "int"), AllowedF(F, "plain", "float"), AllowedF(F, "plain", "bool"),
                AllowedF(F, "plain", "null"), AllowedF(F, "plain", "str"), AllowedF(F, "plain", "foreign"),
                AllowedF(F, "single", "none"), AllowedF(F, "single", "int"), AllowedF(F, "single", "float"), AllowedF(F, "single", "bool"),
                AllowedF(F, "single", "null"), AllowedF(F, "single", "str"), AllowedF(F, "single", "foreign") >>
CellsM == << Model("plain", "none"), Model("plain", "int"), Model("plain", "float"), Model("plain", "bool"),
             Model("plain", "null"), Model("plain", "str"), Model("plain", "foreign"),
             Model("single", "none"), Model("single", "int"), Model("single", "float"), Model("single", "bool"),
             Model("single", "null"), Model("single", "str"), Model("single", "foreign") >>

B2N(b) == IF b THEN 1 ELSE 0
\* the expressions of the table are disjoint, except that a decimal integer also matches the float
\* expression (the table's order resolves it)
TableDisjoint(F) == B2N(F.null) + B2N(F.tru) + B2N(F.fal) + B2N(F.dec) + B2N(F.oct) + B2N(F.hex)
                    + B2N(F.flt /\ ~F.dec) + B2N(F.inf) + B2N(F.nan) <= 1
DecIntIsFloatSyntax(F) == F.dec => F.flt
\* JSON: every JSON number is in the core float language (so an int or a float), and every JSON
\* literal is demanded unless it is an integer beyond 64 bits; what is demanded is the table's type
JsonCovered(F) == LET jn == IsJsonNumber(text) IN
                  /\ jn => F.flt
                  /\ ((jn \/ text \in {TextNull, TextTrue, TextFalse}) /\ ~(F.dec /\ ~F.fits)) => F.must # "none"
                  /\ F.must # "none" => F.must = F.ref
\* digit-sequence arithmetic agrees with TLC's native arithmetic (values are small here)
RECURSIVE NativeRadix(_, _, _)
NativeRadix(ds, radix, acc) == IF ds = <<>> THEN acc ELSE NativeRadix(Tail(ds), radix, acc * radix + HexVal(ds[1]))
DigitsNative(F) == F.int =>
  Native(F.val.mag) =
     (IF F.oct THEN NativeRadix(SubSeq(text, 3, Len(text)), 8, 0)
      ELSE IF F.hex THEN NativeRadix(SubSeq(text, 3, Len(text)), 16, 0)
      ELSE NativeRadix(IF text[1] \in Sign THEN Tail(text) ELSE text, 10, 0))
\* Rust's decimal i64 language is exactly the core decimal integers within 64 bits, same values;
\* Rust's f64 `Number` language is exactly the core float expression (so the only texts
\* f64::from_str reads beyond the core schema are its inf / infinity / nan words)
RustDecIsCore(F) == LET i == RustI64(text, 10) IN
                    /\ i.ok <=> (F.dec /\ F.fits)
                    /\ i.ok => i.val = F.val
RustNumIsCore(F) == LET f == RustF64(text) IN (f.ok /\ f.kind = "num") <=> F.flt
\* untagged path: parse_from_cow_and_metadata(None) and parse_from_cow are the same function
SamePaths(M) == M[1] = ParseFromCow(text)
\* the model of the (repaired) code stays within what the property allows, in every cell
Unsound(A, M) == {i \in 1..14 : M[i] \notin A[i]}
ModelSound(A, M) == Fixed => Unsound(A, M) = {}
\* the pinned code leaves the property only on two characterised families of texts
SignAfterPrefix == \E p \in {<<"0", "x">>, <<"0", "o">>, <<"+">>} :
                      /\ Len(text) > Len(p) /\ SubSeq(text, 1, Len(p)) = p /\ text[Len(p) + 1] \in Sign
RustWord == LET f == RustF64(text) IN f.ok /\ f.kind # "num"
PinnedDeviations(A, M) == (~Fixed /\ Unsound(A, M) # {}) => (SignAfterPrefix \/ RustWord)
\* the reference and the model treat the four non-plain styles alike (one non-plain row is printed)
StylesAlike(F) == \A class \in Tags, s \in Styles \ {"plain"} :
                     /\ AllowedF(F, s, class) = AllowedF(F, "single", class)
                     /\ Model(s, class) = Model("single", class)

Named(name, ok) == ok \/ (PrintT(<<"THEOREM-FAILS", name, text>>) /\ FALSE)
Theorems(F, A, M) ==
  /\ Named("TableDisjoint", TableDisjoint(F))
  /\ Named("DecIntIsFloatSyntax", DecIntIsFloatSyntax(F))
  /\ Named("JsonCovered", JsonCovered(F))
  /\ Named("DigitsNative", DigitsNative(F))
  /\ Named("RustDecIsCore", RustDecIsCore(F))
  /\ Named("RustNumIsCore", RustNumIsCore(F))
  /\ Named("SamePaths", SamePaths(M))
  /\ Named("ModelSound", ModelSound(A, M))
  /\ Named("PinnedDeviations", PinnedDeviations(A, M))
  /\ Named("StylesAlike", StylesAlike(F))

\* ------------------------------------------------------------------------------------------------
\* (b) replay lines
\* ------------------------------------------------------------------------------------------------
RECURSIVE Join(_)
Join(cs) == IF cs = <<>> THEN "" ELSE cs[1] \o Join(Tail(cs))
OutStr(o) == IF o.ty \in {"bool", "int", "float"} THEN o.ty \o ":" \o Join(o.v) ELSE o.ty
RECURSIVE AltStr(_)
AltStr(S) == LET x == CHOOSE x \in S : TRUE IN
             IF S = {x} THEN OutStr(x) ELSE OutStr(x) \o "|" \o AltStr(S \ {x})
RECURSIVE CellStrA(_, _), CellStrM(_, _)
CellStrA(A, i) == AltStr(A[i]) \o (IF i = Len(A) THEN "" ELSE ";" \o CellStrA(A, i + 1))
CellStrM(M, i) == OutStr(M[i]) \o (IF i = Len(M) THEN "" ELSE ";" \o CellStrM(M, i + 1))
Record(F, A, M) == [t |-> text, ref |-> F.ref, must |-> F.must,
                    iv |-> IF F.fits THEN Join(IntChars(F.val)) ELSE "",
                    a |-> CellStrA(A, 1), m |-> CellStrM(M, 1)]

\* the one invariant: theorems hold in this state, and its replay line is printed
Inv == LET F == Facts(text)
           A == CellsA(F)
           M == CellsM IN
       Theorems(F, A, M) /\ PrintT(<<"REPLAY", ToJson(Record(F, A, M))>>)

\* sanity of the 64-bit boundary arithmetic, evaluated once
ASSUME IntValue(<<"0", "x", "7", "F", "F", "F", "F", "F", "F", "F", "F", "F", "F", "F", "F", "F", "F", "F">>).mag = Max63
ASSUME IntValue(<<"0", "o", "1", "0", "0", "0", "0", "0", "0", "0", "0", "0", "0", "0", "0", "0", "0", "0", "0", "0", "0", "0", "0", "0">>).mag = Min63
ASSUME IntFits(<<"-", "9", "2", "2", "3", "3", "7", "2", "0", "3", "6", "8", "5", "4", "7", "7", "5", "8", "0", "8">>)
ASSUME ~IntFits(<<"9", "2", "2", "3", "3", "7", "2", "0", "3", "6", "8", "5", "4", "7", "7", "5", "8", "0", "8">>)
ASSUME ~IntFits(<<"0", "x", "8", "0", "0", "0", "0", "0", "0", "0", "0", "0", "0", "0", "0", "0", "0", "0">>)
ASSUME IntFits(<<"+", "0", "0", "9", "2", "2", "3", "3", "7", "2", "0", "3", "6", "8", "5", "4", "7", "7", "5", "8", "0", "7">>)
=============================================================================
