CONSTANTS
  L = 5
  D = 2
  C = 8
INIT Init
NEXT Next
INVARIANTS Out OutProbes
CHECK_DEADLOCK FALSE
