CONSTANTS
  L = 48
  D = 3
  C = 64
INIT Init
NEXT Next
INVARIANTS Out
CHECK_DEADLOCK FALSE
