---------------------------- MODULE MC_Concat ----------------------------
(* C15 inside the model: for every pair (A, B) of small texts that the scanner/parser model
   accepts, A ending with a line break, the model parses  A ++ "...\n" ++ B  to the documents of
   A followed by the documents of B with anchor ids renumbered (no indentation, flow, key,
   directive or anchor state leaks across the document boundary).                               *)
EXTENDS YParser, YRel, TLC
CONSTANTS NA, NB
Sigma == {"a", " ", "\n", "-", ":", "&", "*", "|", "[", "!"}
VARIABLES ta, tb
Texts(n) == UNION {[1..k -> Sigma] : k \in 0..n}
AsRun(x) == [evs |-> x.evs, err |-> IF x.err = "" THEN <<>> ELSE <<[msg |-> x.err, at |-> x.errmark]>>]
Run(t) == AsRun(RunAll(t, PInit(FALSE), <<>>))
Init == ta \in {t \in Texts(NA) : t # <<>> /\ t[Len(t)] = "\n"} /\ tb \in Texts(NB)
Next == UNCHANGED <<ta, tb>>
Independent == LET ra == Run(ta) rb == Run(tb) IN
               (ra.err = <<>> /\ rb.err = <<>>) => ConcatWhy(ra, rb, Run(ta \o <<".", ".", ".", "\n">> \o tb)) = "ok"
==========================================================================
