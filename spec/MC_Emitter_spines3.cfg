CONSTANTS
  Mode = "spines"
  Sigma = "base"
  N = 0
  D = 3
  L = 0
INIT Init
NEXT Next
INVARIANTS Out
CHECK_DEADLOCK FALSE
