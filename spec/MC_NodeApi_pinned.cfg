CONSTANTS
  N = 3
  PoolName = "full"
  D = 1
  Variant = "pinned"
INIT Init
NEXT Next
INVARIANTS RefTheorems PinnedExact Out
CHECK_DEADLOCK FALSE
