CONSTANTS
  NA = 4
  NB = 3
INIT Init
NEXT Next
INVARIANT Independent
CHECK_DEADLOCK FALSE
