---------------------------- MODULE Gen_Json ----------------------------
(* Generator for C13: every tape of length L over C choices (breadth-first) / random long tapes
   (simulation) rendered to a JSON text with its JSON meaning.                                 *)
EXTENDS YJson, TLC, Json
CONSTANTS L, D, C
VARIABLES tape, done
Init == tape = <<>> /\ done = FALSE
Next == \/ (~done /\ Len(tape) < L /\ \E c \in 0..(C - 1) : tape' = Append(tape, c) /\ done' = FALSE)
        \/ (~done /\ Len(tape) = L /\ done' = TRUE /\ tape' = tape)
G == JText(tape, D)
Out == done => PrintT(<<"REPLAY", ToJson([tape |-> tape, text |-> G.txt, node |-> G.node])>>)
\* the boundary family is printed once, from the initial state
OutBoundary == (tape = <<>> /\ ~done) => \A i \in 1..Len(JBoundary) : PrintT(<<"REPLAY", ToJson([tape |-> <<i>>, text |-> JBoundary[i].txt, node |-> JBoundary[i].node])>>)
=========================================================================
