---------------------------- MODULE YRenderBlock ----------------------------
(* REFERENCE module for C05: block scalars (YAML 1.2.2 section 8.1; DESIGN.md appendix A.8).
   A block scalar is described by
     lines   : sequence of content lines, each [txt (characters after the content indentation), kind]
               kind "text" (starts with a non-blank), "more" (starts with a blank: more-indented),
               "empty" (nothing, or fewer spaces than the content indentation: `sp` spaces are written)
     literal : BOOLEAN (| or >)        chomp : "strip" | "clip" | "keep"
   and rendered with a header (| or >, optional indentation indicator, chomping indicator in
   either order, optional comment), content lines indented by exactly the content indentation, and
   one of several end-of-input shapes. BlockValue is the text the scalar denotes.               *)
EXTENDS Naturals, Integers, Sequences

Sp(n) == [k \in 1..n |-> " "]
Ln(txt, kind, sp) == [txt |-> txt, kind |-> kind, sp |-> sp]
IsEmpty(l) == l.kind = "empty"
IsMore(l) == l.kind = "more"
Nl(k) == [j \in 1..k |-> "\n"]

\* ---- the denoted value ----
RECURSIVE LastContent(_, _)
LastContent(ls, i) == IF i = 0 THEN 0 ELSE IF ~IsEmpty(ls[i]) THEN i ELSE LastContent(ls, i - 1)
\* body up to the last content line (exclusive of its line break): literal keeps every break,
\* folded joins adjacent "text" lines
RECURSIVE BodyFrom(_, _, _, _, _, _)
\* i: next line; prev: index of the previous content line (0 = none yet); k: empty lines seen since
BodyFrom(ls, i, last, prev, k, literal) ==
  IF i > last THEN <<>>
  ELSE IF IsEmpty(ls[i]) THEN BodyFrom(ls, i + 1, last, prev, k + 1, literal)
  ELSE LET sep == IF prev = 0 THEN Nl(k)
                  ELSE IF literal THEN Nl(k + 1)
                  ELSE IF IsMore(ls[prev]) \/ IsMore(ls[i]) THEN Nl(k + 1)
                  ELSE IF k = 0 THEN <<" ">> ELSE Nl(k)
       IN sep \o ls[i].txt \o BodyFrom(ls, i + 1, last, i, 0, literal)
BlockValue(ls, literal, chomp) ==
  LET last == LastContent(ls, Len(ls))
      trailing == Len(ls) - last                       \* empty lines after the last content line
  IN IF last = 0
     THEN (IF chomp = "keep" THEN Nl(Len(ls)) ELSE <<>>)      \* no content at all: only kept line breaks
     ELSE BodyFrom(ls, 1, last, 0, 0, literal)
          \o (IF chomp = "strip" THEN <<>> ELSE IF chomp = "clip" THEN <<"\n">> ELSE Nl(1 + trailing))

\* ---- rendering ----
\* the explicit indentation indicator is needed when the first content line is more-indented, or when an
\* empty line before it carries more spaces than the content indentation would be detected from
NeedsIndicator(ls) == \E i \in 1..Len(ls) : ~IsEmpty(ls[i]) /\ IsMore(ls[i]) /\ \A j \in 1..(i - 1) : IsEmpty(ls[j])
Header(literal, chomp, ind, order, comment) ==
  LET c == IF chomp = "strip" THEN <<"-">> ELSE IF chomp = "keep" THEN <<"+">> ELSE <<>>
      d == IF ind = 0 THEN <<>> ELSE <<<<"0", "1", "2", "3", "4", "5", "6", "7", "8", "9">>[ind + 1]>>
  IN <<IF literal THEN "|" ELSE ">">> \o (IF order = 0 THEN d \o c ELSE c \o d) \o (IF comment THEN <<" ", "#", " ", "c">> ELSE <<>>)
RECURSIVE LinesText(_, _, _, _)
\* all lines but the last are terminated; the last one is terminated iff finalNl
LinesText(ls, i, indent, finalNl) ==
  IF i > Len(ls) THEN <<>>
  ELSE (IF IsEmpty(ls[i]) THEN Sp(IF ls[i].sp < indent THEN ls[i].sp ELSE indent) ELSE Sp(indent) \o ls[i].txt)
       \o (IF i < Len(ls) \/ finalNl THEN <<"\n">> ELSE <<>>)
       \o LinesText(ls, i + 1, indent, finalNl)

\* contexts: [pre (text before the header), n (parent indentation), after (a following less-indented node) with its events]
EB_(k, v, style) == [k |-> k, v |-> v, style |-> style, aid |-> 0, tag |-> <<>>]
PB_(v) == EB_("Scalar", v, "plain")
BCtx(name) ==
  \* (a top-level scalar is followed by the next document: "--- z", or "..." and a bare document)
  IF name = "top" THEN [pre |-> <<>>, n |-> -1, follow |-> <<"-", "-", "-", " ", "z", "\n">>]
  ELSE IF name = "topdoc" THEN [pre |-> <<"-", "-", "-", " ">>, n |-> -1, follow |-> <<".", ".", ".", "\n", "z", "\n">>]
  ELSE IF name = "mapvalue" THEN [pre |-> <<"k", ":", " ">>, n |-> 0, follow |-> <<"z", ":", " ", "w", "\n">>]
  ELSE IF name = "seqentry" THEN [pre |-> <<"-", " ">>, n |-> 0, follow |-> <<"-", " ", "z", "\n">>]
  ELSE IF name = "nested" THEN [pre |-> <<"k", ":", "\n", " ", " ", "j", ":", " ">>, n |-> 2, follow |-> <<"z", ":", " ", "w", "\n">>]
  ELSE IF name = "nestedsib" THEN [pre |-> <<"k", ":", "\n", " ", " ", "j", ":", " ">>, n |-> 2, follow |-> <<" ", " ", "z", ":", " ", "w", "\n">>]   \* the next node is a sibling at the parent's own column
  ELSE IF name = "afterblank" THEN [pre |-> <<"-", " ", "x", "\n", "\n", "-", " ">>, n |-> 0, follow |-> <<"-", " ", "z", "\n">>]     \* the entry after a plain scalar and an empty line
  ELSE IF name = "seqsib" THEN [pre |-> <<"k", ":", "\n", " ", " ", "-", " ">>, n |-> 2, follow |-> <<" ", " ", "-", " ", "z", "\n">>]
  ELSE [pre |-> <<"k", ":", "\n", "-", " ", "j", ":", " ">>, n |-> 2, follow |-> <<"-", " ", "z", "\n">>]      \* "seqmap": - j: | inside k:
BCtxNames == {"top", "topdoc", "mapvalue", "seqentry", "nested", "seqmap", "nestedsib", "seqsib", "afterblank"}
WrapB(name, ev, followed) ==
  LET SS == EB_("StreamStart", <<>>, "") SE == EB_("StreamEnd", <<>>, "") DS == EB_("DocumentStart", <<>>, "implicit") DX == EB_("DocumentStart", <<>>, "explicit")
      DE == EB_("DocumentEnd", <<>>, "") MS == EB_("MappingStart", <<>>, "") ME == EB_("MappingEnd", <<>>, "") QS == EB_("SequenceStart", <<>>, "") QE == EB_("SequenceEnd", <<>>, "")
      K == PB_(<<"k">>) J == PB_(<<"j">>) Z == PB_(<<"z">>) W == PB_(<<"w">>)
  IN IF name = "top" THEN <<SS, DS, ev, DE>> \o (IF followed THEN <<DX, Z, DE>> ELSE <<>>) \o <<SE>>
     ELSE IF name = "topdoc" THEN <<SS, DX, ev, DE>> \o (IF followed THEN <<DS, Z, DE>> ELSE <<>>) \o <<SE>>
     ELSE IF name = "mapvalue" THEN <<SS, DS, MS, K, ev>> \o (IF followed THEN <<Z, W>> ELSE <<>>) \o <<ME, DE, SE>>
     ELSE IF name = "seqentry" THEN <<SS, DS, QS, ev>> \o (IF followed THEN <<Z>> ELSE <<>>) \o <<QE, DE, SE>>
     ELSE IF name = "nested" THEN <<SS, DS, MS, K, MS, J, ev, ME>> \o (IF followed THEN <<Z, W>> ELSE <<>>) \o <<ME, DE, SE>>
     ELSE IF name = "nestedsib" THEN <<SS, DS, MS, K, MS, J, ev>> \o (IF followed THEN <<Z, W>> ELSE <<>>) \o <<ME, ME, DE, SE>>
     ELSE IF name = "afterblank" THEN <<SS, DS, QS, PB_(<<"x">>), ev>> \o (IF followed THEN <<Z>> ELSE <<>>) \o <<QE, DE, SE>>
     ELSE IF name = "seqsib" THEN <<SS, DS, MS, K, QS, ev>> \o (IF followed THEN <<Z>> ELSE <<>>) \o <<QE, ME, DE, SE>>
     ELSE <<SS, DS, MS, K, QS, MS, J, ev, ME>> \o (IF followed THEN <<Z>> ELSE <<>>) \o <<QE, ME, DE, SE>>

\* the whole stream. extra: content indentation beyond the minimum; explicit: write the indentation indicator;
\* ending: "nl" (final line break), "none" (input ends after the last line), "follow" (a less-indented node follows)
RenderBlock(name, ls, literal, chomp, extra, explicit, order, comment, ending) ==
  LET c == BCtx(name)
      indent == c.n + 1 + extra
      \* the indicator counts from the parent's indentation; at the top level the scanner counts from 0
      ind == IF explicit THEN (IF c.n < 0 THEN indent ELSE indent - c.n) ELSE 0
      body == LinesText(ls, 1, indent, ending # "none")
      txt == c.pre \o Header(literal, chomp, ind, order, comment) \o <<"\n">> \o body \o (IF ending = "follow" THEN c.follow ELSE <<>>)
      ev == EB_("Scalar", BlockValue(ls, literal, chomp), IF literal THEN "literal" ELSE "folded")
  IN [txt |-> txt, evs |-> WrapB(name, ev, ending = "follow")]
==============================================================================
