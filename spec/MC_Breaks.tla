---------------------------- MODULE MC_Breaks ----------------------------
(* C14 inside the model: for every CR-free text of at most N characters over a small alphabet,
   the scanner/parser model gives the same run modulo character indices for the text, its
   LF -> CR LF variant and its LF -> CR variant.                                                *)
EXTENDS YParser, YRel, TLC
CONSTANTS N
Sigma == {"a", " ", "\n", "-", ":", "\"", "|", "#", "'", ">"}
VARIABLES text
Init == text \in UNION {[1..n -> Sigma] : n \in 0..N}
Next == UNCHANGED text
RECURSIVE Subst(_, _)
Subst(t, r) == IF t = <<>> THEN <<>> ELSE (IF Head(t) = "\n" THEN r ELSE <<Head(t)>>) \o Subst(Tail(t), r)
AsRun(x) == [evs |-> x.evs, err |-> IF x.err = "" THEN <<>> ELSE <<[msg |-> x.err, at |-> x.errmark]>>]
Run(t) == AsRun(RunAll(t, PInit(FALSE), <<>>))
BreakInsensitive == LET b == Run(text) IN
                    /\ SameModuloIndex(b, Run(Subst(text, <<"\r", "\n">>)))
                    /\ SameModuloIndex(b, Run(Subst(text, <<"\r">>)))
==========================================================================
