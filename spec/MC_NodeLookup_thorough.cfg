CONSTANTS
  K = 4
INIT Init
NEXT Next
INVARIANTS LookupLaw IntLaw HashLaw Out
CHECK_DEADLOCK FALSE
