---------------------------- MODULE MC_Pipeline ----------------------------
(* Exhaustive small-scope model checking of scanner + parser: every text up to length N over a
   small indicator alphabet is an initial state; each step is one parser event (which drives the
   scanner as far as the parser needs). Invariants = the reasons the panic sites are safe (C01),
   the event grammar on every emitted prefix (C02), progress/termination. Each finished behaviour
   prints one REPLAY line (text + the outcome the model assigns) for the harness to replay on the
   real parser.                                                                                *)
EXTENDS YParser, YEvents, YPos, Json
CONSTANTS N, AlphaName

Sigma ==
  CASE AlphaName = "struct"  -> {"a", " ", "\n", "-", ":", "?", "[", "]", "{", "}", ",", "#"}
    [] AlphaName = "quote"   -> {"a", " ", "\n", "'", "\"", "\\", ":", "#", "[", "]"}
    [] AlphaName = "block"   -> {"a", " ", "\n", "|", ">", "-", "+", "1", "#", ":"}
    [] AlphaName = "prop"    -> {"a", " ", "\n", "&", "*", "!", "<", ">", "%", ":", "-"}
    [] AlphaName = "break"   -> {"a", " ", "\n", "\r", "-", ":", "\"", "|"}
    [] AlphaName = "docmark" -> {"a", " ", "\n", "-", ".", "{", "[", "%", "#"}
    [] AlphaName = "tab"     -> {"a", " ", "\n", "\t", "-", ":", "?", "[", "#"}
    [] AlphaName = "dir"     -> {"%", "Y", "T", "!", " ", "\n", "1", ".", "-", "a"}
    [] AlphaName = "flow"    -> {"a", " ", "\n", ",", ":", "[", "]", "{", "}", "?", "\""}
    [] AlphaName = "keys"    -> {"a", " ", "\n", "?", ":", "-", "&", "*", "'", "|"}

VARIABLES text, p, evs, acc, done, steps
vars == <<text, p, evs, acc, done, steps>>
Texts == UNION {[1..n -> Sigma] : n \in 0..N}
Init == text \in Texts /\ p = PInit(FALSE) /\ evs = <<>> /\ acc = AccInit /\ done = FALSE /\ steps = 0
Step == /\ ~done
        /\ LET r == Parse(text, p) IN
           /\ p' = r[1]
           /\ IF r[1].sc.err # "" THEN evs' = evs /\ acc' = acc /\ done' = TRUE
              ELSE evs' = Append(evs, r[2]) /\ acc' = AccStep(acc, r[2]) /\ done' = (r[2].k = "StreamEnd")
        /\ steps' = steps + 1
        /\ UNCHANGED text
Next == Step
Spec == Init /\ [][Next]_vars /\ WF_vars(Step)

\* --- invariants -------------------------------------------------------------------------------
\* C01: panic-site guards of the scanner and the parser
PanicFree == ScannerInv(p.sc) /\ p.sc.err \notin {"PANIC: pop_state on an empty stack", "PANIC: unreachable state"}
\* C02: every emitted prefix is accepted; an error-free finished run is a whole sentence
Grammar == acc.ph # "BAD" /\ ((done /\ p.sc.err = "") => acc.ph = "end")
\* C01: one event per step, at most a linear number of them
Linear == steps <= 4 * Len(text) + 8
\* C12-ish sanity inside the model: marks are within the text
MarksInText == \A i \in 1..Len(evs) : evs[i].a[1] <= Len(text) + 1 /\ evs[i].b[1] <= Len(text) + 1 /\ evs[i].a[1] <= evs[i].b[1]
\* C12 inside the model: every mark the model computes is a true position (YPos), spans are ordered and nested
PosTrue == done => LET tab == PosTab(text) IN
                   /\ EvsVerdict(tab, text, evs, 1) = "ok"
                   /\ NestOK(evs, 1, <<>>)
                   /\ (p.sc.err # "" => MarkOK(tab, text, p.sc.errmark))
Termination == <>done

Out == done => PrintT(<<"REPLAY", ToJson([text |-> text, err |-> p.sc.err, errmark |-> p.sc.errmark, evs |-> evs])>>)
=============================================================================
