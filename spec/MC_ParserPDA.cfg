CONSTANTS
  D = 3
  A = 2
  W = 4
INIT Init
NEXT Next
INVARIANTS NoPanic Grammar Complete
CONSTRAINT Bound
CHECK_DEADLOCK FALSE
