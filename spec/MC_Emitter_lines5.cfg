CONSTANTS
  Mode = "strings"
  Sigma = "lines"
  N = 5
  D = 0
  L = 0
INIT Init
NEXT Next
INVARIANTS Skeleton OneLine Out
CHECK_DEADLOCK FALSE
