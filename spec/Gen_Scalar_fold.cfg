CONSTANTS
  N = 0
  Budget = 2
  MaxChD = 3
  CiMax = 0
  Wide = FALSE
INIT InitFold
NEXT Next
INVARIANT Out
CHECK_DEADLOCK FALSE
