CONSTANTS
  NL = 6
INIT Init
NEXT Next
INVARIANT Out
CHECK_DEADLOCK FALSE
