---------------------------- MODULE MC_Emitter ----------------------------
(* Generator + in-model checks for C09 (emit, reload, re-emit).

   Mode "strings": one state per string of at most N symbols over the alphabet `Sigma`
       (a symbol is a character or a whole type-like word). For every string and each of the four
       positions (root, sequence item, mapping key, mapping value) TLC
         * evaluates the lemma   ~PlainSafe(s, pos) => NeedQuotes(s)   (reference YPlainSafe
           against the implementation-shaped decision list) -- a failure is a LEAD, printed in the
           REPLAY line (lemma |-> FALSE) and decided by the real round trip;
         * checks the layout skeleton of the model against itself (Skeleton);
         * prints one REPLAY line: the tree, and for each of the 4 settings the style and the
           complete text YEmitter predicts (drift-only information).
   Mode "spines": every path of at most D nesting steps (first / last sequence item, mapping value,
       mapping key -- a collection there is a complex key --, value under a complex key) around
       every leaf of a pool of boundary scalars, nasty strings and small / empty collections.
   Mode "tapes": trees built from a choice tape (BFS to length L, or -simulate): wide trees, empty
       collections and collection keys in every place, nesting limited to 5.

   The outcome the specification assigns to EVERY printed case is the statement of C09: emission
   succeeds; the text reloads as exactly one document equal to the tree; re-emission gives the
   same text. The harness compares the real outcome with it; Trace_RoundTrip judges records.    *)
EXTENDS YEmitter, YPlainSafe, Json
CONSTANTS Mode, Sigma, N, D, L

StrN(t) == [t |-> "str", v |-> t]
IntN(t) == [t |-> "int", v |-> t]
FltN(name) == [t |-> "float", v |-> name]
SeqN(items) == [t |-> "seq", v |-> items]
MapN(pairs) == [t |-> "map", v |-> pairs]
NullN == [t |-> "null"]
BoolN(b) == [t |-> "bool", v |-> b]

\* ---- alphabets (kept here: .cfg files do not unescape strings) --------------------------------
Base20 == <<<<"a">>, <<"b">>, <<"1">>, <<"0">>, <<".">>, <<"-">>, <<"+">>, <<":">>, <<"#">>, <<",">>, <<"[">>, <<"]">>, <<"{">>, <<"}">>,
            <<"'">>, <<"\"">>, <<"\\">>, <<" ">>, <<"\n">>, <<"\t">>>>
Words == <<<<"n", "u", "l", "l">>, <<"t", "r", "u", "e">>, <<"~">>, <<"0", "x">>, <<"0", "o">>, <<".", "i", "n", "f">>>>
\* characters outside ASCII and control characters (model of the escape table / literal validity)
Ext == <<<<"a">>, <<" ">>, <<"\n">>, <<":">>, <<"-">>, <<"<u7>">>, <<"<u27>">>, <<"<u127>">>, <<"<u128>">>, <<"<u133>">>, <<"<u160>">>, <<"<u233>">>,
         <<"<u8232>">>, <<"<u65279>">>, <<"<u65534>">>, <<"<u128512>">>, <<"<u884735>">>, <<"<u884736>">>>>
\* multi-line strings: content lines, empty lines and lines made of blanks only (literal-block decisions)
Lines == <<<<"a">>, <<"\n">>, <<" ">>, <<" ", "b">>, <<"\t">>, <<"c", " ">>, <<"\n", "\n">>>>
Syms == CASE Sigma = "base" -> Base20 [] Sigma = "words" -> Base20 \o Words [] Sigma = "ext" -> Ext [] Sigma = "lines" -> Lines

SettingsSeq == <<[compact |-> TRUE, multiline |-> FALSE], [compact |-> TRUE, multiline |-> TRUE],
                 [compact |-> FALSE, multiline |-> FALSE], [compact |-> FALSE, multiline |-> TRUE]>>
Positions == <<"root", "item", "key", "value">>
P_ == StrN(<<"p">>)
Z_ == StrN(<<"z">>)
V_ == StrN(<<"v">>)
K_ == StrN(<<"k">>)
K2_ == StrN(<<"k", "2">>)
Place(pos, x) ==
  CASE pos = "root" -> x
    [] pos = "item" -> SeqN(<<P_, x, Z_>>)
    [] pos = "key" -> MapN(<<<<x, V_>>, <<K2_, Z_>>>>)
    [] pos = "value" -> MapN(<<<<K_, x>>, <<K2_, Z_>>>>)

\* the layout skeleton: what is written around a scalar in the four positions (any setting)
Pre(pos) == CASE pos = "root" -> <<"-", "-", "-", "\n">>
              [] pos = "item" -> <<"-", "-", "-", "\n", "-", " ", "p", "\n", "-", " ">>
              [] pos = "key" -> <<"-", "-", "-", "\n">>
              [] pos = "value" -> <<"-", "-", "-", "\n", "k", ":", " ">>
Post(pos) == CASE pos = "root" -> <<>>
               [] pos = "item" -> <<"\n", "-", " ", "z">>
               [] pos = "key" -> <<":", " ", "v", "\n", "k", "2", ":", " ", "z">>
               [] pos = "value" -> <<"\n", "k", "2", ":", " ", "z">>
SkeletonOK(s) == \A i \in 1..4 : \A j \in 1..4 :
  LET pos == Positions[i]  cfg == SettingsSeq[j] IN
  Dump(cfg, Place(pos, StrN(s))) = Pre(pos) \o EmitStr(cfg, IF pos = "root" THEN -1 ELSE 0, s, pos = "key") \o Post(pos)

Cases(tree, focusText, isKey) ==
  [j \in 1..4 |-> [c |-> SettingsSeq[j].compact, m |-> SettingsSeq[j].multiline,
                   style |-> IF focusText = <<"<none>">> THEN "" ELSE Style(SettingsSeq[j], focusText, isKey),
                   text |-> Dump(SettingsSeq[j], tree)]]

\* ---- spines -------------------------------------------------------------------------------------
StepKinds == <<"sf", "sl", "mv", "mk", "cv">>
Wrap(kind, x) ==
  CASE kind = "sf" -> SeqN(<<x, Z_>>)
    [] kind = "sl" -> SeqN(<<P_, x>>)
    [] kind = "mv" -> MapN(<<<<K_, x>>, <<K2_, Z_>>>>)
    [] kind = "mk" -> MapN(<<<<x, V_>>, <<K2_, Z_>>>>)
    [] kind = "cv" -> MapN(<<<<SeqN(<<P_>>), x>>, <<K2_, Z_>>>>)
RECURSIVE Spine(_, _)
Spine(path, x) == IF path = <<>> THEN x ELSE Wrap(StepKinds[Head(path)], Spine(Tail(path), x))
RECURSIVE PathName(_)
PathName(path) == IF path = <<>> THEN "" ELSE StepKinds[Head(path)] \o "/" \o PathName(Tail(path))

I64Min == <<"-", "9", "2", "2", "3", "3", "7", "2", "0", "3", "6", "8", "5", "4", "7", "7", "5", "8", "0", "8">>
I64Max == <<"9", "2", "2", "3", "3", "7", "2", "0", "3", "6", "8", "5", "4", "7", "7", "5", "8", "0", "7">>
A_ == StrN(<<"a">>)
B_ == StrN(<<"b">>)
StrLeaves == <<
  <<>>, <<"a">>, <<" ", "a">>, <<"a", " ">>, <<"a", " ", "b">>, <<"a", "\n", "b">>, <<"a", "\n", "b", "\n">>, <<"a", "\n", "\n", "b">>,
  <<"\n", "a">>, <<"a", "\n", "\n">>, <<" ", "a", "\n", "b">>, <<"a", "\n", " ", "b">>, <<"a", "\n">>, <<"\n">>, <<"a", " ", "\n", "b">>,
  <<"a", "\n", "b", " ">>, <<"a", "\n", "\t", "b">>, <<"\t", "a", "\n", "b">>, <<"a", "\n", "#", "b">>, <<"a", "\n", "-", " ", "b">>,
  <<"x", "\n", "-", "-", "-", "\n", "y">>, <<"x", "\n", ".", ".", ".", "\n">>, <<"-", "-", "-">>, <<".", ".", ".">>,
  <<"-", " ", "a">>, <<"a", ":", " ", "b">>, <<"a", " ", "#", "b">>, <<"#", "a">>, <<"a", ":">>, <<"?", " ", "a">>, <<"[", "a">>, <<"{">>, <<"a", ",", "b">>,
  <<"'">>, <<"\"">>, <<"\\">>, <<"a", "\t", "b">>, <<"a", "\r", "b">>, <<"a", "\r", "\n", "b">>,
  <<"n", "u", "l", "l">>, <<"~">>, <<"t", "r", "u", "e">>, <<"1">>, <<"-", "1">>, <<"1", ".", "0">>, <<"1", "e", "3">>, <<"0", "x", "1">>, <<"0", "o", "1">>,
  <<"+", ".", "i", "n", "f">>, <<".", "i", "n", "f">>, <<".", "n", "a", "n">>, <<"i", "n", "f">>, <<"N", "a", "N">>, <<"+", "1">>, <<"1", "_", "0">>,
  <<"<u233>">>, <<"<u233>", "\n", "<u128512>">>, <<"<u133>">>, <<"<u7>">>, <<"a", "\n", "<u65279>">>,
  [i \in 1..128 |-> "a"], [i \in 1..129 |-> "a"], [i \in 1..130 |-> IF i % 2 = 0 THEN "\n" ELSE "x"], [i \in 1..65 |-> "<u233>"]>>
Leaves ==
  <<NullN, BoolN(TRUE), BoolN(FALSE), IntN(<<"0">>), IntN(<<"-", "1">>), IntN(I64Min), IntN(I64Max),
    SeqN(<<>>), MapN(<<>>), SeqN(<<A_>>), MapN(<<<<A_, B_>>>>), SeqN(<<SeqN(<<>>), MapN(<<>>)>>), MapN(<<<<SeqN(<<>>), MapN(<<>>)>>>>)>>
  \o [i \in 1..Len(FloatNames) |-> FltN(FloatNames[i])]
  \o [i \in 1..Len(StrLeaves) |-> StrN(StrLeaves[i])]

\* ---- tapes --------------------------------------------------------------------------------------
PoolA == <<NullN, BoolN(TRUE), BoolN(FALSE), IntN(<<"0">>), IntN(<<"-", "1">>), IntN(I64Min), IntN(I64Max), FltN("1.0"), FltN("-0.0"), FltN("0.1")>>
PoolB == <<StrN(<<>>), A_, B_, StrN(<<"a", "\n", "b">>), StrN(<<"a", "\n", "b", "\n">>), StrN(<<" ", "a">>), StrN(<<"-", " ", "a">>), StrN(<<"a", ":", " ", "b">>), StrN(<<"1">>), StrN(<<"n", "u", "l", "l">>)>>
PoolC == <<StrN(<<"#">>), StrN(<<"[">>), StrN(<<"~">>), StrN(<<"a", "\n", "\n">>), StrN(<<"\n", "a">>), StrN(<<"x", " ", "y">>), FltN("1e16"), FltN("123456789.125"), FltN("1e300"), FltN("5e-324")>>
KeyPool == <<A_, B_, StrN(<<"a", "\n", "b">>), StrN(<<>>), NullN, BoolN(TRUE), IntN(<<"1">>), FltN("1.0"), StrN(<<"k", ":", " ">>), StrN(<<"?">>)>>
TapeSyms == 0..9
SameNode(a, b) == a.t = b.t /\ a = b
\* Build(tape, depth) = [ok, node, rest]; ok = FALSE when the tape ends inside a node
RECURSIVE Build(_, _)
Bad == [ok |-> FALSE, node |-> NullN, rest |-> <<>>]
Leaf(pool, t) == IF t = <<>> THEN Bad ELSE [ok |-> TRUE, node |-> pool[Head(t) + 1], rest |-> Tail(t)]
Build(tape, depth) ==
  IF tape = <<>> THEN Bad
  ELSE LET c0 == Head(tape)
           c == IF depth >= 5 THEN c0 % 5 ELSE c0
           t == Tail(tape) IN
    CASE c = 0 -> Leaf(PoolA, t)
      [] c = 1 -> Leaf(PoolB, t)
      [] c = 2 -> Leaf(PoolC, t)
      [] c = 3 -> [ok |-> TRUE, node |-> SeqN(<<>>), rest |-> t]
      [] c = 4 -> [ok |-> TRUE, node |-> MapN(<<>>), rest |-> t]
      [] c = 5 -> LET a == Build(t, depth + 1) IN IF ~a.ok THEN Bad ELSE [ok |-> TRUE, node |-> SeqN(<<a.node>>), rest |-> a.rest]
      [] c = 6 -> LET a == Build(t, depth + 1) IN IF ~a.ok THEN Bad ELSE
                  LET b == Build(a.rest, depth + 1) IN IF ~b.ok THEN Bad ELSE [ok |-> TRUE, node |-> SeqN(<<a.node, b.node>>), rest |-> b.rest]
      [] c = 7 -> LET k == Leaf(KeyPool, t) IN IF ~k.ok THEN Bad ELSE
                  LET a == Build(k.rest, depth + 1) IN IF ~a.ok THEN Bad ELSE [ok |-> TRUE, node |-> MapN(<<<<k.node, a.node>>>>), rest |-> a.rest]
      [] c = 8 -> LET k == Leaf(KeyPool, t) IN IF ~k.ok THEN Bad ELSE
                  LET a == Build(k.rest, depth + 1) IN IF ~a.ok THEN Bad ELSE
                  LET k2 == Leaf(KeyPool, a.rest) IN IF ~k2.ok \/ SameNode(k2.node, k.node) THEN Bad ELSE
                  LET b == Build(k2.rest, depth + 1) IN IF ~b.ok THEN Bad ELSE
                  [ok |-> TRUE, node |-> MapN(<<<<k.node, a.node>>, <<k2.node, b.node>>>>), rest |-> b.rest]
      [] c = 9 -> LET k == Build(t, depth + 1) IN IF ~k.ok THEN Bad ELSE
                  LET a == Build(k.rest, depth + 1) IN IF ~a.ok THEN Bad ELSE [ok |-> TRUE, node |-> MapN(<<<<k.node, a.node>>>>), rest |-> a.rest]

\* ---- the state machine ----------------------------------------------------------------------------
VARIABLE x
\* states are grown one symbol / one nesting step at a time so that TLC's workers share the
\* evaluation (initial states are evaluated by one thread only)
Init ==
  \/ Mode = "strings" /\ x = [s |-> <<>>, n |-> 0]
  \/ Mode = "spines" /\ x \in {[path |-> <<>>, leaf |-> i] : i \in 1..Len(Leaves)}
  \/ Mode = "tapes" /\ x = [tape |-> <<>>]
Next ==
  \/ Mode = "strings" /\ x.n < N /\ \E i \in 1..Len(Syms) : x' = [s |-> x.s \o Syms[i], n |-> x.n + 1]
  \/ Mode = "spines" /\ Len(x.path) < D /\ \E k \in 1..Len(StepKinds) : x' = [path |-> <<k>> \o x.path, leaf |-> x.leaf]
  \/ Mode = "tapes" /\ Len(x.tape) < L /\ ~Build(x.tape, 0).ok   \* a complete tape is not extended
     /\ \E c \in TapeSyms : x' = [tape |-> Append(x.tape, c)]

\* ---- in-model checks ------------------------------------------------------------------------------
Lemma(s, pos) == PlainSafe(s, pos) \/ NeedQuotes(s)
LemmaPinned(s, pos) == PlainSafe(s, pos) \/ NeedQuotesPinned(s)   \* the pinned decision list (for the record)
Skeleton == Mode = "strings" => SkeletonOK(x.s)
\* a string the model writes plain or quoted never yields a multi-line text around it
OneLine == Mode = "strings" => \A j \in 1..4 : (Style(SettingsSeq[j], x.s, FALSE) # "literal") =>
             ~ContainsAny(EmitStr(SettingsSeq[j], 0, x.s, FALSE), {"\n", "\r"})

\* ---- output -----------------------------------------------------------------------------------------
OutStrings ==
  \A i \in 1..4 :
    LET pos == Positions[i]  tree == Place(pos, StrN(x.s)) IN
    PrintT(<<"REPLAY", ToJson([origin |-> "strings:" \o Sigma, pos |-> pos, tree |-> tree, focus |-> StrN(x.s),
                               lemma |-> Lemma(x.s, pos), lemmaPinned |-> LemmaPinned(x.s, pos), cases |-> Cases(tree, x.s, pos = "key")])>>)
OutSpines ==
  LET leaf == Leaves[x.leaf]
      tree == Spine(x.path, leaf)
      isKey == x.path # <<>> /\ StepKinds[x.path[Len(x.path)]] = "mk" IN
  PrintT(<<"REPLAY", ToJson([origin |-> "spines", pos |-> PathName(x.path), tree |-> tree, focus |-> leaf, lemma |-> TRUE,
                             cases |-> Cases(tree, IF leaf.t = "str" THEN leaf.v ELSE <<"<none>">>, isKey)])>>)
OutTapes ==
  LET b == Build(x.tape, 0) IN
  (b.ok /\ b.rest = <<>>) =>
    PrintT(<<"REPLAY", ToJson([origin |-> "tapes", pos |-> "tree", tree |-> b.node, focus |-> "none", lemma |-> TRUE,
                               cases |-> Cases(b.node, <<"<none>">>, FALSE)])>>)
Out == CASE Mode = "strings" -> OutStrings [] Mode = "spines" -> OutSpines [] Mode = "tapes" -> OutTapes
=============================================================================
