---------------------------- MODULE YScanner ----------------------------
(* Implementation-shaped model of parser/src/scanner.rs: one operator per fetch_* / scan_* function,
   state record fields one-to-one with the Scanner struct:

     pos,line,col   mark                      tokens   token queue (VecDeque<Token>)
     parsed         tokens_parsed             avail    token_available
     sks            simple_keys               ska      simple_key_allowed
     indent         indent                    indents  indents ([indent, nbe = needs_block_end])
     flow           flow_level                lw       leading_whitespace
     fms            flow_mapping_started      ifm      implicit_flow_mapping_states ("P"/"I")
     fcs            flow_collections (<<is_mapping, saved fms>> per open flow collection)
     adj            adjacent_value_allowed_at ssp/sep  stream_start/end_produced
     err, errmark   the error latch (Scanner.error), "" = none

   The input is abstracted to its character sequence (Peek); buffer management is observably
   irrelevant (YInput states why) and the lookahead discipline is checked on the real code with a
   contract-asserting input. Operators are pure: `Op(t, s)` returns the next state; a failure sets
   the latch and every later operator is the identity.                                          *)
EXTENDS YChars

Peek(t, s, n) == IF s.pos + n + 1 <= Len(t) THEN t[s.pos + n + 1] ELSE EOF_
Mark(s) == <<s.pos, s.line, s.col>>
Tok(k, a, b, v, x) == [k |-> k, a |-> a, b |-> b, v |-> v, x |-> x]
Fail(s, msg) == IF s.err # "" THEN s ELSE [s EXCEPT !.err = msg, !.errmark = Mark(s)]
FailAt(s, msg, m) == IF s.err # "" THEN s ELSE [s EXCEPT !.err = msg, !.errmark = m]
Push(s, tk) == [s EXCEPT !.tokens = Append(@, tk)]
InsertAt(q, i, x) == SubSeq(q, 1, i) \o <<x>> \o SubSeq(q, i + 1, Len(q))   \* i = 0-based position
Last(q) == q[Len(q)]
Front(q) == SubSeq(q, 1, Len(q) - 1)
SetLast(q, x) == [q EXCEPT ![Len(q)] = x]
Max(a, b) == IF a > b THEN a ELSE b

\* ---- cursor movement (skip_blank / skip_non_blank / skip_nl / skip_linebreak / skip_break) ----
SkipNB(s) == [s EXCEPT !.pos = @ + 1, !.col = @ + 1, !.lw = FALSE]
SkipB(s) == [s EXCEPT !.pos = @ + 1, !.col = @ + 1]
SkipNNB(s, n) == [s EXCEPT !.pos = @ + n, !.col = @ + n, !.lw = FALSE]
SkipNL(s) == [s EXCEPT !.pos = @ + 1, !.col = 0, !.line = @ + 1, !.lw = TRUE]
\* skip_linebreak: CR LF, or one break, or nothing
SkipLinebreak(t, s) ==
  IF Peek(t, s, 0) = "\r" /\ Peek(t, s, 1) = "\n" THEN SkipNL(SkipB(s))
  ELSE IF Peek(t, s, 0) \in Break THEN SkipNL(s) ELSE s
\* skip_break: precondition: next is a break
SkipBreak(t, s) == IF Peek(t, s, 0) = "\r" /\ Peek(t, s, 1) = "\n" THEN SkipNL(SkipB(s)) ELSE SkipNL(s)

RECURSIVE SkipNonBreakZ(_, _)
SkipNonBreakZ(t, s) == IF Peek(t, s, 0) \in BreakZ THEN s ELSE SkipNonBreakZ(t, SkipB(s))
RECURSIVE SkipWhileBlank(_, _)
SkipWhileBlank(t, s) == IF Peek(t, s, 0) \in Blank THEN SkipWhileBlank(t, SkipB(s)) ELSE s

\* skip_ws_to_eol(skip_tabs): returns [s, tabs, ws]; on "#" directly after a token: error
RECURSIVE SkipBlanksR(_, _, _)
SkipBlanksR(t, r, tabsOK) ==
  LET c == Peek(t, r.s, 0) IN
  IF c = " " THEN SkipBlanksR(t, [r EXCEPT !.s = SkipB(r.s), !.ws = TRUE], tabsOK)
  ELSE IF tabsOK /\ c = "\t" THEN SkipBlanksR(t, [r EXCEPT !.s = SkipB(r.s), !.tabs = TRUE], tabsOK)
  ELSE r
SkipWsToEolR(t, s, tabsOK) ==
  LET r == SkipBlanksR(t, [s |-> s, tabs |-> FALSE, ws |-> FALSE], tabsOK) IN
  IF s.err # "" THEN [s |-> s, tabs |-> FALSE, ws |-> FALSE]
  ELSE IF Peek(t, r.s, 0) = "#"
  THEN IF ~r.tabs /\ ~r.ws THEN [r EXCEPT !.s = Fail(r.s, "comments must be separated from other tokens by whitespace")]
       ELSE [r EXCEPT !.s = SkipNonBreakZ(t, r.s)]
  ELSE r
SkipWsToEol(t, s, tabsOK) == SkipWsToEolR(t, s, tabsOK).s

\* ---- skip_to_next_token ----
RECURSIVE SkipToNext(_, _)
SkipToNext(t, s) ==
  LET c == Peek(t, s, 0) IN
  IF s.err # "" THEN s
  ELSE IF c = "\t" /\ s.indents # <<>> /\ s.lw /\ s.col < s.indent
  THEN LET s1 == SkipWsToEol(t, s, TRUE) IN
       IF s1.err # "" THEN s1
       ELSE IF Peek(t, s1, 0) \notin BreakZ THEN Fail(s1, "tabs disallowed within this context (block indentation)")
       ELSE SkipToNext(t, s1)
  ELSE IF c \in Blank THEN SkipToNext(t, SkipB(s))
  ELSE IF c \in Break THEN SkipToNext(t, LET s1 == SkipLinebreak(t, s) IN IF s1.flow = 0 THEN [s1 EXCEPT !.ska = TRUE] ELSE s1)
  ELSE IF c = "#" THEN SkipToNext(t, SkipNonBreakZ(t, s))
  ELSE s

\* ---- skip_yaml_whitespace ----
RECURSIVE SkipYamlWs(_, _, _)
SkipYamlWs(t, s, need) ==
  LET c == Peek(t, s, 0) IN
  IF c = " " THEN SkipYamlWs(t, SkipB(s), FALSE)
  ELSE IF c \in Break THEN SkipYamlWs(t, LET s1 == SkipLinebreak(t, s) IN IF s1.flow = 0 THEN [s1 EXCEPT !.ska = TRUE] ELSE s1, FALSE)
  ELSE IF c = "#" THEN SkipYamlWs(t, SkipNonBreakZ(t, s), need)
  ELSE IF need THEN Fail(s, "expected whitespace") ELSE s

\* ---- simple keys ----
NoSK == [possible |-> FALSE, required |-> FALSE, tn |-> 0, mark |-> <<0, 0, 0>>]
RECURSIVE StaleFrom(_, _)
StaleFrom(s, i) ==
  IF i > Len(s.sks) \/ s.err # "" THEN s
  ELSE LET sk == s.sks[i] IN
       IF sk.possible /\ s.flow = 0 /\ (sk.mark[2] < s.line \/ sk.mark[1] + 1024 < s.pos)
       THEN IF sk.required THEN Fail(s, "simple key expect ':'")
            ELSE StaleFrom([s EXCEPT !.sks[i].possible = FALSE], i + 1)
       ELSE StaleFrom(s, i + 1)
Stale(s) == StaleFrom(s, 1)

SaveSK(s) ==
  IF s.ska
  THEN LET req == s.flow = 0 /\ s.indent = s.col /\ Last(s.indents).nbe    \* indents.last().unwrap(): see SaveSKSafe
       IN [s EXCEPT !.sks = SetLast(@, [possible |-> TRUE, required |-> req, tn |-> s.parsed + Len(s.tokens), mark |-> Mark(s)])]
  ELSE s
\* panic-site guard of save_simple_key: `indents.last().unwrap()` is only evaluated when
\* flow_level = 0 and indent = col (short-circuit), and col >= 0 > -1 means some indent was pushed
SaveSKSafe(s) == (s.ska /\ s.flow = 0 /\ s.indent = s.col) => s.indents # <<>>

RemoveSK(s) ==
  IF s.err # "" THEN s
  ELSE IF Last(s.sks).possible /\ Last(s.sks).required THEN Fail(s, "simple key expected")
  ELSE [s EXCEPT !.sks = SetLast(@, [Last(@) EXCEPT !.possible = FALSE])]

\* ---- indentation ----
RECURSIVE Unroll(_, _)
Unroll(s, col) ==
  IF s.flow > 0 \/ s.indent <= col THEN s
  ELSE LET top == Last(s.indents)
           s1 == [s EXCEPT !.indent = top.indent, !.indents = Front(@)]
       IN Unroll(IF top.nbe THEN Push(s1, Tok("BlockEnd", Mark(s), Mark(s), <<>>, <<>>)) ELSE s1, col)

RECURSIVE UnrollNonBlock(_)
UnrollNonBlock(s) ==
  IF s.indents = <<>> \/ Last(s.indents).nbe THEN s
  ELSE UnrollNonBlock([s EXCEPT !.indent = Last(s.indents).indent, !.indents = Front(@)])

RollIndent(s, col, number, kind, mark) ==
  IF s.flow > 0 THEN s
  ELSE LET s1 == IF s.indent <= col /\ s.indents # <<>> /\ ~Last(s.indents).nbe
                 THEN [s EXCEPT !.indent = Last(s.indents).indent, !.indents = Front(@)] ELSE s
       IN IF s1.indent < col
          THEN LET s2 == [s1 EXCEPT !.indents = Append(@, [indent |-> s1.indent, nbe |-> TRUE]), !.indent = col]
                   tk == Tok(kind, mark, mark, <<>>, <<>>)
               IN IF number >= 0 THEN [s2 EXCEPT !.tokens = InsertAt(@, number - s2.parsed, tk)] ELSE Push(s2, tk)
          ELSE s1

RollOneCol(s) ==
  IF s.flow = 0 /\ s.indents # <<>> /\ Last(s.indents).nbe
  THEN [s EXCEPT !.indents = Append(@, [indent |-> s.indent, nbe |-> FALSE]), !.indent = @ + 1] ELSE s

EndImplicit(s, mark) ==
  IF s.ifm # <<>> /\ Last(s.ifm) = "I"
  THEN Push([s EXCEPT !.fms = FALSE, !.ifm = SetLast(@, "P")], Tok("FlowMappingEnd", mark, mark, <<>>, <<>>))
  ELSE s

\* ---- stream start / end ----
FetchStreamStart(s) ==
  Push([s EXCEPT !.indent = -1, !.ssp = TRUE, !.ska = TRUE, !.sks = Append(@, NoSK)],
       Tok("StreamStart", Mark(s), Mark(s), <<>>, <<>>))

RECURSIVE EndSKs(_, _)
EndSKs(s, i) ==
  IF i > Len(s.sks) \/ s.err # "" THEN s
  ELSE IF s.sks[i].required /\ s.sks[i].possible THEN Fail(s, "simple key expected")
  ELSE EndSKs([s EXCEPT !.sks[i].possible = FALSE], i + 1)

FetchStreamEnd(s0) ==
  LET s == IF s0.col # 0 THEN [s0 EXCEPT !.col = 0, !.line = @ + 1] ELSE s0
      s1 == EndSKs(s, 1)
      s2 == IF s1.err # "" THEN s1 ELSE RemoveSK(Unroll(s1, -1))
  IN IF s2.err # "" THEN s2 ELSE Push([s2 EXCEPT !.ska = FALSE], Tok("StreamEnd", Mark(s2), Mark(s2), <<>>, <<>>))

\* ---- document indicators ----
FetchDocInd(s, kind) ==
  LET s1 == RemoveSK(Unroll(s, -1)) IN
  IF s1.err # "" THEN s1
  ELSE LET m == Mark(s1)
           s2 == SkipNNB([s1 EXCEPT !.ska = FALSE], 3)
       IN Push(s2, Tok(kind, m, Mark(s2), <<>>, <<>>))

\* ---- directives (fetch_directive / scan_directive / scan_version_directive_value / scan_tag_directive_value) ----
\* fetch_while_is_alpha: returns <<s, chars>>
RECURSIVE FetchAlpha(_, _, _)
FetchAlpha(t, s, acc) == IF Peek(t, s, 0) \in Alpha THEN FetchAlpha(t, SkipB(s), Append(acc, Peek(t, s, 0))) ELSE <<s, acc>>

\* scan_uri_escapes: returns <<s, char>>; one or more %XX bytes forming one UTF-8 sequence
RECURSIVE UriEsc(_, _, _, _, _)
UriEsc(t, s, mark, width, code) ==
  LET c == Peek(t, s, 1) nc == Peek(t, s, 2) IN
  IF ~(Peek(t, s, 0) = "%" /\ c \in Hex /\ nc \in Hex) THEN <<FailAt(s, "while parsing a tag, found an invalid escape sequence", mark), "">>
  ELSE LET byte == HexVal(c) * 16 + HexVal(nc) IN
       IF width = 0
       THEN LET w == IF byte < 128 THEN 1 ELSE IF byte \div 32 = 6 THEN 2 ELSE IF byte \div 16 = 14 THEN 3 ELSE IF byte \div 8 = 30 THEN 4 ELSE 0
                cd == IF w = 1 THEN byte ELSE IF w = 2 THEN byte % 32 ELSE IF w = 3 THEN byte % 16 ELSE byte % 8
            IN IF w = 0 THEN <<FailAt(s, "while parsing a tag, found an incorrect leading UTF-8 byte", mark), "">>
               ELSE IF w = 1 THEN (IF ValidCode(cd) THEN <<SkipNNB(s, 3), CharOfCode(cd)>> ELSE <<FailAt(s, "while parsing a tag, found an invalid UTF-8 codepoint", mark), "">>)
               ELSE UriEsc(t, SkipNNB(s, 3), mark, w - 1, cd)
       ELSE IF byte \div 64 # 2 THEN <<FailAt(s, "while parsing a tag, found an incorrect trailing UTF-8 byte", mark), "">>
       ELSE LET cd == code * 64 + (byte % 64) s1 == SkipNNB(s, 3) IN
            IF width = 1
            THEN (IF ValidCode(cd) THEN <<s1, CharOfCode(cd)>> ELSE <<FailAt(s1, "while parsing a tag, found an invalid UTF-8 codepoint", mark), "">>)
            ELSE UriEsc(t, s1, mark, width - 1, cd)

\* chars of class `cls`, with %XX escapes decoded: returns <<s, chars>>
RECURSIVE ScanUriRun(_, _, _, _, _)
ScanUriRun(t, s, mark, cls, acc) ==
  IF s.err # "" \/ Peek(t, s, 0) \notin cls THEN <<s, acc>>
  ELSE IF Peek(t, s, 0) = "%" THEN LET r == UriEsc(t, s, mark, 0, 0) IN IF r[1].err # "" THEN <<r[1], acc>> ELSE ScanUriRun(t, r[1], mark, cls, Append(acc, r[2]))
  ELSE ScanUriRun(t, SkipNB(s), mark, cls, Append(acc, Peek(t, s, 0)))

\* scan_tag_handle(directive, mark): returns <<s, handle>>
ScanTagHandle(t, s, directive, mark) ==
  IF Peek(t, s, 0) # "!" THEN <<FailAt(s, "while scanning a tag, did not find expected '!'", mark), <<>>>>
  ELSE LET r == FetchAlpha(t, SkipNB(s), <<"!">>) s1 == r[1] h == r[2] IN
       IF Peek(t, s1, 0) = "!" THEN <<SkipNB(s1), Append(h, "!")>>
       ELSE IF directive /\ h # <<"!">> THEN <<FailAt(s1, "while parsing a tag directive, did not find expected '!'", mark), h>>
       ELSE <<s1, h>>

\* scan_tag_prefix(start_mark): returns <<s, prefix>>
ScanTagPrefix(t, s, mark) ==
  LET c == Peek(t, s, 0) IN
  IF c = "!" THEN ScanUriRun(t, SkipNB(s), mark, UriChar, <<"!">>)
  ELSE IF c \notin TagChar THEN <<FailAt(s, "invalid global tag character", mark), <<>>>>
  ELSE ScanUriRun(t, s, mark, UriChar, <<>>)    \* first char (escape or literal) is a uri char too: same loop

RECURSIVE VersionNumber(_, _, _, _, _)
VersionNumber(t, s, mark, val, len) ==
  IF s.err # "" THEN <<s, val>>
  ELSE IF Peek(t, s, 0) \in Digit
  THEN IF len + 1 > 9 THEN <<FailAt(s, "while scanning a YAML directive, found extremely long version number", mark), val>>
       ELSE VersionNumber(t, SkipNB(s), mark, val * 10 + DigitVal(Peek(t, s, 0)), len + 1)
  ELSE IF len = 0 THEN <<FailAt(s, "while scanning a YAML directive, did not find expected version number", mark), val>>
  ELSE <<s, val>>

\* returns <<s, token>>
ScanVersionDirective(t, s0, mark) ==
  LET s == SkipWhileBlank(t, s0)
      r1 == VersionNumber(t, s, mark, 0, 0) IN
  IF r1[1].err # "" THEN <<r1[1], <<>>>>
  ELSE IF Peek(t, r1[1], 0) # "." THEN <<FailAt(r1[1], "while scanning a YAML directive, did not find expected digit or '.' character", mark), <<>>>>
  ELSE LET r2 == VersionNumber(t, SkipNB(r1[1]), mark, 0, 0) IN
       IF r2[1].err # "" THEN <<r2[1], <<>>>>
       ELSE <<r2[1], Tok("VersionDirective", mark, Mark(r2[1]), <<>>, <<r1[2], r2[2]>>)>>

ScanTagDirective(t, s0, mark) ==
  LET s == SkipWhileBlank(t, s0)
      h == ScanTagHandle(t, s, TRUE, mark) IN
  IF h[1].err # "" THEN <<h[1], <<>>>>
  ELSE LET p == ScanTagPrefix(t, SkipWhileBlank(t, h[1]), mark) IN
       IF p[1].err # "" THEN <<p[1], <<>>>>
       ELSE IF Peek(t, p[1], 0) \in BlankZ THEN <<p[1], Tok("TagDirective", mark, Mark(p[1]), h[2], p[2])>>
       ELSE <<FailAt(p[1], "while scanning TAG, did not find expected whitespace or line break", mark), <<>>>>

ScanDirective(t, s0) ==
  LET mark == Mark(s0)
      s == SkipNB(s0)
      nm == Mark(s)
      r == FetchAlpha(t, s, <<>>)
      s1 == r[1] name == r[2] IN
  IF name = <<>> THEN <<FailAt(s1, "while scanning a directive, could not find expected directive name", nm), <<>>>>
  ELSE IF Peek(t, s1, 0) \notin BlankZ THEN <<FailAt(s1, "while scanning a directive, found unexpected non-alphabetical character", nm), <<>>>>
  ELSE LET d == IF name = <<"Y", "A", "M", "L">> THEN ScanVersionDirective(t, s1, mark)
                ELSE IF name = <<"T", "A", "G">> THEN ScanTagDirective(t, s1, mark)
                ELSE LET s2 == SkipNonBreakZ(t, s1) IN <<s2, Tok("TagDirective", mark, Mark(s2), <<>>, <<>>)>>
       IN IF d[1].err # "" THEN d
          ELSE LET s3 == SkipWsToEol(t, d[1], TRUE) IN
               IF s3.err # "" THEN <<s3, <<>>>>
               ELSE IF Peek(t, s3, 0) \in BreakZ THEN <<SkipLinebreak(t, s3), d[2]>>
               ELSE <<FailAt(s3, "while scanning a directive, did not find expected comment or line break", mark), <<>>>>

FetchDirective(t, s) ==
  LET s1 == RemoveSK(Unroll(s, -1)) IN
  IF s1.err # "" THEN s1
  ELSE LET r == ScanDirective(t, [s1 EXCEPT !.ska = FALSE]) IN
       IF r[1].err # "" THEN r[1] ELSE Push(r[1], r[2])

\* ---- tags (fetch_tag / scan_tag / scan_verbatim_tag / scan_tag_shorthand_suffix) ----
ScanTag(t, s) ==
  LET mark == Mark(s) IN
  LET r == IF Peek(t, s, 1) = "<"
           THEN \* verbatim: eat "!<", uri chars, ">"
                LET u == ScanUriRun(t, SkipNB(SkipNB(s)), mark, UriChar, <<>>) IN
                IF u[1].err # "" THEN [s |-> u[1], h |-> <<>>, x |-> <<>>]
                ELSE IF Peek(t, u[1], 0) # ">" THEN [s |-> FailAt(u[1], "while scanning a verbatim tag, did not find the expected '>'", mark), h |-> <<>>, x |-> <<>>]
                ELSE [s |-> SkipNB(u[1]), h |-> <<>>, x |-> u[2]]
           ELSE LET hr == ScanTagHandle(t, s, FALSE, mark) h == hr[2] IN
                IF hr[1].err # "" THEN [s |-> hr[1], h |-> <<>>, x |-> <<>>]
                ELSE IF Len(h) >= 2 /\ h[1] = "!" /\ Last(h) = "!"
                THEN \* !handle!suffix : suffix must be non-empty
                     LET u == ScanUriRun(t, hr[1], mark, TagChar, <<>>) IN
                     IF u[1].err # "" THEN [s |-> u[1], h |-> h, x |-> <<>>]
                     ELSE IF u[2] = <<>> THEN [s |-> FailAt(u[1], "while parsing a tag, did not find expected tag URI", mark), h |-> h, x |-> <<>>]
                     ELSE [s |-> u[1], h |-> h, x |-> u[2]]
                ELSE \* !suffix (the scanned "handle" is the head of the suffix) or the lone "!"
                     LET u == ScanUriRun(t, hr[1], mark, TagChar, Tail(h)) IN
                     IF u[1].err # "" THEN [s |-> u[1], h |-> <<"!">>, x |-> <<>>]
                     ELSE IF u[2] = <<>> THEN [s |-> u[1], h |-> <<>>, x |-> <<"!">>]
                     ELSE [s |-> u[1], h |-> <<"!">>, x |-> u[2]]
  IN IF r.s.err # "" THEN <<r.s, <<>>>>
     ELSE IF Peek(t, r.s, 0) \in BlankZ \/ (r.s.flow > 0 /\ Peek(t, r.s, 0) \in FlowC)
     THEN <<r.s, Tok("Tag", mark, Mark(r.s), r.h, r.x)>>
     ELSE <<FailAt(r.s, "while scanning a tag, did not find expected whitespace or line break", mark), <<>>>>

FetchTag(t, s) ==
  LET r == ScanTag(t, [SaveSK(s) EXCEPT !.ska = FALSE]) IN
  IF r[1].err # "" THEN r[1] ELSE Push(r[1], r[2])

\* ---- anchors and aliases ----
RECURSIVE AnchorChars(_, _, _)
AnchorChars(t, s, acc) == IF IsAnchorChar(Peek(t, s, 0)) THEN AnchorChars(t, SkipNB(s), Append(acc, Peek(t, s, 0))) ELSE <<s, acc>>
FetchAnchor(t, s0, alias) ==
  LET s == [SaveSK(s0) EXCEPT !.ska = FALSE]
      mark == Mark(s)
      r == AnchorChars(t, SkipNB(s), <<>>) IN
  IF r[2] = <<>> THEN FailAt(r[1], "while scanning an anchor or alias, did not find expected alphabetic or numeric character", mark)
  ELSE Push(r[1], Tok(IF alias THEN "Alias" ELSE "Anchor", mark, Mark(r[1]), r[2], <<>>))

\* ---- flow collections ----
FetchFlowStart(t, s, kind) ==
  LET s1 == RollOneCol(SaveSK(s))
      s2 == [s1 EXCEPT !.sks = Append(@, NoSK)]      \* increase_flow_level pushes before the overflow check
  IN IF s2.flow = 255 THEN Fail(s2, "recursion limit exceeded")
     ELSE LET m == Mark(s2)
              s3 == SkipNB([s2 EXCEPT !.flow = @ + 1, !.ska = TRUE])
              isMap == kind = "FlowMappingStart"
              s3b == [s3 EXCEPT !.fcs = Append(@, <<isMap, s3.fms>>), !.fms = isMap]    \* fms describes the innermost flow collection
              s4 == IF isMap THEN s3b ELSE [s3b EXCEPT !.ifm = Append(@, "P")]
              s5 == SkipWsToEol(t, s4, TRUE)
          IN IF s5.err # "" THEN s5 ELSE Push(s5, Tok(kind, m, Mark(s5), <<>>, <<>>))

FetchFlowEnd(t, s, kind) ==
  LET s1 == RemoveSK(s) IN
  IF s1.err # "" THEN s1
  ELSE LET s2 == IF s1.flow > 0 THEN [s1 EXCEPT !.flow = @ - 1, !.sks = Front(@)] ELSE s1
           s3 == [s2 EXCEPT !.ska = FALSE]
           s4 == IF kind = "FlowSequenceEnd"
                 THEN LET e == EndImplicit(s3, Mark(s3)) IN [e EXCEPT !.ifm = IF @ = <<>> THEN @ ELSE Front(@)]
                 ELSE s3
           s4b == IF s4.fcs # <<>> THEN [s4 EXCEPT !.fms = Last(s4.fcs)[2], !.fcs = Front(@)] ELSE s4   \* back in the enclosing collection
           m == Mark(s4b)
           s5 == SkipWsToEol(t, SkipNB(s4b), TRUE)
       IN IF s5.err # "" THEN s5
          ELSE Push(IF s5.flow > 0 THEN [s5 EXCEPT !.adj = s5.pos] ELSE s5, Tok(kind, m, Mark(s5), <<>>, <<>>))

FetchFlowEntry(t, s) ==
  LET s1 == RemoveSK(s) IN
  IF s1.err # "" THEN s1
  ELSE LET s1a == [s1 EXCEPT !.ska = TRUE]
           \* a ',' directly inside a flow sequence ends the entry (implicit "k: v" or explicit "? k : v" mapping);
           \* a ',' inside a flow mapping does not
           s2 == IF s1a.fcs # <<>> /\ ~Last(s1a.fcs)[1] THEN [EndImplicit(s1a, Mark(s1a)) EXCEPT !.fms = FALSE] ELSE s1a
           m == Mark(s2)
           s3 == SkipWsToEol(t, SkipNB(s2), TRUE)
       IN IF s3.err # "" THEN s3 ELSE Push(s3, Tok("FlowEntry", m, Mark(s3), <<>>, <<>>))

\* ---- block entry ----
FetchBlockEntry(t, s) ==
  IF s.flow > 0 THEN Fail(s, "\"-\" is only valid inside a block")
  ELSE IF ~s.ska THEN Fail(s, "block sequence entries are not allowed in this context")
  ELSE IF s.tokens # <<>> /\ Last(s.tokens).k \in {"Anchor", "Tag"} /\ s.col = 0 /\ Last(s.tokens).a[3] = 0 /\ s.indent > -1
  THEN FailAt(s, "invalid indentation for anchor", Last(s.tokens).a)
  ELSE LET m == Mark(s)
           s1 == RollIndent(SkipNB(s), m[3], -1, "BlockSequenceStart", m)
           r2 == SkipWsToEolR(t, s1, TRUE)
           s2 == IF r2.tabs /\ r2.s.err = "" THEN [r2.s EXCEPT !.tse = r2.s.pos] ELSE r2.s      \* no block collection may start after a tab
       IN IF s2.err # "" THEN s2
          ELSE IF r2.tabs /\ Peek(t, s2, 0) = "-" /\ Peek(t, s2, 1) \in BlankZ THEN Fail(s2, "'-' must be followed by a valid YAML whitespace")
          ELSE LET s3 == SkipWsToEol(t, s2, FALSE) IN
               IF s3.err # "" THEN s3
               ELSE LET s4 == IF Peek(t, s3, 0) \in Break \/ Peek(t, s3, 0) \in FlowC THEN RollOneCol(s3) ELSE s3
                        s5 == RemoveSK(s4)
                    IN IF s5.err # "" THEN s5 ELSE Push([s5 EXCEPT !.ska = TRUE], Tok("BlockEntry", Mark(s5), Mark(s5), <<>>, <<>>))

\* ---- key / value ----
FetchKey(t, s) ==
  LET m == Mark(s) IN
  IF s.flow = 0 /\ s.tse = m[1] THEN Fail(s, "tabs disallowed in this context")
  ELSE IF s.flow = 0 /\ ~s.ska THEN Fail(s, "mapping keys are not allowed in this context")
  ELSE LET s1 == IF s.flow = 0 THEN RollIndent(s, m[3], -1, "BlockMappingStart", m) ELSE [s EXCEPT !.fms = TRUE]
           s2 == RemoveSK(s1)
       IN IF s2.err # "" THEN s2
          ELSE \* blanks (tabs included) and an optional comment; after a tab no block collection may start (tse)
               LET r3 == SkipWsToEolR(t, SkipNB([s2 EXCEPT !.ska = (s2.flow = 0)]), TRUE)
                   tabbed == r3.tabs /\ r3.s.flow = 0
                   s3 == IF tabbed /\ r3.s.err = "" THEN [r3.s EXCEPT !.tse = r3.s.pos] ELSE r3.s
               IN IF s3.err # "" THEN s3
                  ELSE IF tabbed /\ Peek(t, s3, 0) = "-" /\ Peek(t, s3, 1) \in BlankZ THEN Fail(s3, "tabs disallowed in this context")
                  ELSE LET s4 == IF Peek(t, s3, 0) \in Break \/ ~(r3.tabs \/ r3.ws \/ Peek(t, s3, 0) \in Z) THEN SkipYamlWs(t, s3, TRUE) ELSE s3 IN
                       IF s4.err # "" THEN s4
                       ELSE Push(s4, Tok("Key", m, Mark(s4), <<>>, <<>>))

FetchValue(t, s) ==
  LET sk == Last(s.sks)
      m == Mark(s)
      isifm == s.ifm # <<>> /\ ~s.fms
      s0 == SkipNB(IF isifm THEN [s EXCEPT !.ifm = SetLast(@, "I")] ELSE s)
      \* a tab directly after ':' : skip blanks; when no space was among them (block context) a "- " entry is an error at
      \* once and the position is remembered (tse): an implicit key starting there is an error when its ':' is found
      rt == IF Peek(t, s0, 0) = "\t" THEN SkipWsToEolR(t, s0, TRUE) ELSE [s |-> s0, tabs |-> FALSE, ws |-> TRUE]
      tabonly == Peek(t, s0, 0) = "\t" /\ ~rt.ws /\ rt.s.flow = 0
      s1 == IF tabonly /\ rt.s.err = "" THEN [rt.s EXCEPT !.tse = rt.s.pos] ELSE rt.s
  IN IF sk.possible /\ s.flow = 0 /\ s.tse = sk.mark[1] THEN FailAt(s, "':' must be followed by a valid YAML whitespace", sk.mark)
     ELSE IF s1.err # "" THEN s1
     ELSE IF tabonly /\ Peek(t, s1, 0) = "-" /\ Peek(t, s1, 1) \in BlankZ
     THEN Fail(s1, "':' must be followed by a valid YAML whitespace")
     ELSE IF sk.possible
     THEN LET p == sk.tn - s1.parsed
              s2 == [s1 EXCEPT !.tokens = InsertAt(@, p, Tok("Key", sk.mark, sk.mark, <<>>, <<>>))]
          IN IF isifm /\ sk.mark[2] < m[2] THEN FailAt(s2, "illegal placement of ':' indicator", m)
             ELSE LET s3 == IF isifm THEN [s2 EXCEPT !.tokens = InsertAt(@, p, Tok("FlowMappingStart", sk.mark, sk.mark, <<>>, <<>>))] ELSE s2
                      s4 == RollOneCol(RollIndent(s3, sk.mark[3], sk.tn, "BlockMappingStart", sk.mark))
                      s5 == [s4 EXCEPT !.sks = SetLast(@, [Last(@) EXCEPT !.possible = FALSE]), !.ska = FALSE]
                  IN Push(s5, Tok("Value", m, m, <<>>, <<>>))
     ELSE LET s2 == IF isifm THEN Push(s1, Tok("FlowMappingStart", m, m, <<>>, <<>>)) ELSE s1 IN
          IF s2.flow = 0 /\ ~s2.ska THEN FailAt(s2, "mapping values are not allowed in this context", m)
          ELSE LET s3 == IF s2.flow = 0 THEN RollIndent(s2, m[3], -1, "BlockMappingStart", m) ELSE s2
                   s4 == RollOneCol(s3)
               IN Push([s4 EXCEPT !.ska = (s4.flow = 0)], Tok("Value", m, m, <<>>, <<>>))

\* the InsertPos panic-site guard of fetch_value / roll_indent: insert_token asserts pos <= len
InsertPosOK(s) == \A i \in 1..Len(s.sks) : s.sks[i].possible => (s.sks[i].tn >= s.parsed /\ s.sks[i].tn - s.parsed <= Len(s.tokens))

FetchFlowValue(t, s) ==
  IF s.pos # s.adj /\ Peek(t, s, 1) \in {"[", "{"} THEN Fail(s, "':' may not precede any of `[{` in flow mapping")
  ELSE FetchValue(t, s)

\* ---- block scalars (fetch_block_scalar / scan_block_scalar) ----
\* skip_block_scalar_indent: acc = [s, br] (br = breaks read)
RECURSIVE BSIndent(_, _, _)
BSIndent(t, a, indent) ==
  LET s == a.s IN
  IF s.col < indent /\ Peek(t, s, 0) = " " THEN BSIndent(t, [a EXCEPT !.s = SkipB(s)], indent)
  ELSE IF Peek(t, s, 0) \in Break THEN BSIndent(t, [a EXCEPT !.s = SkipBreak(t, s), !.br = Append(@, "\n")], indent)
  ELSE a
\* skip_block_scalar_first_line_indent: acc = [s, br, mx]
RECURSIVE BSFirst(_, _)
BSFirst(t, a) ==
  LET s == a.s IN
  IF Peek(t, s, 0) = " " THEN BSFirst(t, [a EXCEPT !.s = SkipB(s)])
  ELSE LET a1 == [a EXCEPT !.mx = Max(a.mx, s.col)] IN
       IF Peek(t, s, 0) \in Break THEN BSFirst(t, [a1 EXCEPT !.s = SkipBreak(t, s), !.br = Append(@, "\n")])
       ELSE a1
RECURSIVE BSLine(_, _, _)
BSLine(t, s, str) == IF Peek(t, s, 0) \in BreakZ THEN <<s, str>> ELSE BSLine(t, SkipB(s), Append(str, Peek(t, s, 0)))

IsDocEnd(t, s) == Peek(t, s, 0) = "." /\ Peek(t, s, 1) = "." /\ Peek(t, s, 2) = "." /\ Peek(t, s, 3) \in BlankZ
IsDocStart(t, s) == Peek(t, s, 0) = "-" /\ Peek(t, s, 1) = "-" /\ Peek(t, s, 2) = "-" /\ Peek(t, s, 3) \in BlankZ
IsDocInd(t, s) == IsDocEnd(t, s) \/ IsDocStart(t, s)

\* content loop: acc = [s, str, lb (leading_break), tb (trailing_breaks), lblank (leading_blank)]
RECURSIVE BSContent(_, _, _, _)
BSContent(t, a, indent, literal) ==
  LET s == a.s IN
  IF ~(s.col = indent /\ Peek(t, s, 0) \notin Z) THEN a
  ELSE IF indent = 0 /\ IsDocInd(t, s) THEN a
  ELSE LET tblank == Peek(t, s, 0) \in Blank
           str1 == IF ~literal /\ a.lb # <<>> /\ ~a.lblank /\ ~tblank
                   THEN (IF a.tb = <<>> THEN Append(a.str, " ") ELSE a.str \o a.tb)
                   ELSE a.str \o a.lb \o a.tb
           r == BSLine(t, s, str1)
           s1 == r[1]
       IN IF Peek(t, s1, 0) \in Z THEN [a EXCEPT !.s = s1, !.str = r[2], !.lb = <<>>, !.tb = <<>>, !.lblank = tblank]
          ELSE LET i == BSIndent(t, [s |-> SkipBreak(t, s1), br |-> <<>>], indent) IN
               BSContent(t, [s |-> i.s, str |-> r[2], lb |-> <<"\n">>, tb |-> i.br, lblank |-> tblank], indent, literal)

ScanBlockScalar(t, s0, literal) ==
  LET hm == Mark(s0)
      style == IF literal THEN "literal" ELSE "folded"
      s1 == UnrollNonBlock(SkipNB(s0))
      c == Peek(t, s1, 0)
      \* header: [s, chomp, inc, bad]
      h == IF c \in {"+", "-"}
           THEN LET s2 == SkipNB(s1) d == Peek(t, s2, 0) IN
                IF d \in Digit THEN (IF d = "0" THEN [s |-> s2, chomp |-> c, inc |-> 0, bad |-> TRUE] ELSE [s |-> SkipNB(s2), chomp |-> c, inc |-> DigitVal(d), bad |-> FALSE])
                ELSE [s |-> s2, chomp |-> c, inc |-> 0, bad |-> FALSE]
           ELSE IF c \in Digit
           THEN IF c = "0" THEN [s |-> s1, chomp |-> "", inc |-> 0, bad |-> TRUE]
                ELSE LET s2 == SkipNB(s1) d == Peek(t, s2, 0) IN
                     IF d \in {"+", "-"} THEN [s |-> SkipNB(s2), chomp |-> d, inc |-> DigitVal(c), bad |-> FALSE]
                     ELSE [s |-> s2, chomp |-> "", inc |-> DigitVal(c), bad |-> FALSE]
           ELSE [s |-> s1, chomp |-> "", inc |-> 0, bad |-> FALSE]
  IN IF h.bad THEN <<FailAt(h.s, "while scanning a block scalar, found an indentation indicator equal to 0", hm), <<>>>>
     ELSE LET s3 == SkipWsToEol(t, h.s, TRUE) IN
     IF s3.err # "" THEN <<s3, <<>>>>
     ELSE IF Peek(t, s3, 0) \notin BreakZ THEN <<FailAt(s3, "while scanning a block scalar, did not find expected comment or line break", hm), <<>>>>
     ELSE LET hadBreak == Peek(t, s3, 0) \in Break
              cbreak == IF hadBreak THEN <<"\n">> ELSE <<>>
              s4 == IF hadBreak THEN SkipBreak(t, s3) ELSE s3
          IN IF Peek(t, s4, 0) = "\t" THEN <<FailAt(s4, "a block scalar content cannot start with a tab", hm), <<>>>>
             ELSE LET ind0 == IF h.inc > 0 THEN (IF s4.indent >= 0 THEN s4.indent + h.inc ELSE h.inc) ELSE 0
                      f == IF ind0 = 0 THEN BSFirst(t, [s |-> s4, br |-> <<>>, mx |-> 0]) ELSE [BSIndent(t, [s |-> s4, br |-> <<>>], ind0) EXCEPT !.mx = 0]
                      indent == IF ind0 = 0
                                THEN LET i1 == Max(f.mx, s4.indent + 1) IN IF s4.indent > 0 THEN Max(i1, 1) ELSE i1
                                ELSE ind0
                      s5 == f.s
                  IN IF Peek(t, s5, 0) \in Z
                     THEN \* no content line: empty, except under keep chomping one break per empty line
                          \* (a last line of spaces without a break counts as an empty line)
                          LET contents == IF h.chomp = "+" /\ s5.line # hm[2]
                                          THEN (IF s5.col > 0 THEN Append(f.br, "\n") ELSE f.br)
                                          ELSE <<>>
                          IN <<s5, Tok("Scalar", hm, Mark(s5), contents, style)>>
                     ELSE IF s5.col < indent /\ s5.col > s5.indent /\ ~(s5.col = 0 /\ IsDocInd(t, s5)) THEN <<Fail(s5, "wrongly indented line in block scalar"), <<>>>>
                     ELSE LET cm == Mark(s5)
                              a == BSContent(t, [s |-> s5, str |-> <<>>, lb |-> <<>>, tb |-> f.br, lblank |-> FALSE], indent, literal)
                              s6 == a.s
                              str1 == IF h.chomp # "-"
                                      THEN (IF Peek(t, s6, 0) \in Z /\ s6.col >= Max(indent, 1) /\ (a.lb = <<>> \/ h.chomp = "+") THEN Append(a.str \o a.lb, "\n") ELSE a.str \o a.lb)
                                      ELSE a.str
                              str2 == IF h.chomp = "+" THEN str1 \o a.tb ELSE str1
                          IN <<s6, Tok("Scalar", cm, Mark(s6), str2, style)>>

FetchBlockScalar(t, s, literal) ==
  LET r == ScanBlockScalar(t, [SaveSK(s) EXCEPT !.ska = TRUE], literal) IN
  IF r[1].err # "" THEN r[1] ELSE Push(r[1], r[2])

\* block_indent(): the indentation of the innermost block collection, ignoring the one-column indents
RECURSIVE BlockIndentFrom(_, _, _)
BlockIndentFrom(idts, i, ind) == IF i = 0 \/ idts[i].nbe THEN ind ELSE BlockIndentFrom(idts, i - 1, idts[i].indent)
BlockIndent(s) == BlockIndentFrom(s.indents, Len(s.indents), s.indent)

\* ---- flow scalars (fetch_flow_scalar / scan_flow_scalar) ----
EscapeSimple(c) ==
  IF c = "0" THEN NUL ELSE IF c = "a" THEN CharOfCode(7) ELSE IF c = "b" THEN CharOfCode(8)
  ELSE IF c \in {"t", "\t"} THEN "\t" ELSE IF c = "n" THEN "\n" ELSE IF c = "v" THEN CharOfCode(11)
  ELSE IF c = "f" THEN CharOfCode(12) ELSE IF c = "r" THEN "\r" ELSE IF c = "e" THEN CharOfCode(27)
  ELSE IF c = " " THEN " " ELSE IF c = "\"" THEN "\"" ELSE IF c = "/" THEN "/" ELSE IF c = "\\" THEN "\\"
  ELSE IF c = "N" THEN CharOfCode(133) ELSE IF c = "_" THEN CharOfCode(160)
  ELSE IF c = "L" THEN CharOfCode(8232) ELSE IF c = "P" THEN CharOfCode(8233) ELSE ""
EscapeLen(c) == IF c = "x" THEN 2 ELSE IF c = "u" THEN 4 ELSE IF c = "U" THEN 8 ELSE 0

\* value of n hex digits starting at offset i (saturating above 0x10FFFF); -1 if a non-hex digit is met
RECURSIVE HexRun(_, _, _, _, _)
HexRun(t, s, i, n, acc) ==
  IF i = n THEN acc
  ELSE IF Peek(t, s, i) \notin Hex THEN -1
  ELSE LET v == acc * 16 + HexVal(Peek(t, s, i)) IN HexRun(t, s, i + 1, n, IF v > 1114111 THEN 1114112 ELSE v)

\* resolve_flow_scalar_escape_sequence: s at the backslash; returns <<s, char>>
ResolveEscape(t, s, start) ==
  LET c == Peek(t, s, 1) n == EscapeLen(c) IN
  IF n = 0
  THEN IF EscapeSimple(c) = "" THEN <<FailAt(s, "while parsing a quoted scalar, found unknown escape character", start), "">>
       ELSE <<SkipNNB(s, 2), EscapeSimple(c)>>
  ELSE LET s1 == SkipNNB(s, 2) v == HexRun(t, s1, 0, n, 0) IN
       IF v < 0 THEN <<FailAt(s1, "while parsing a quoted scalar, did not find expected hexadecimal number", start), "">>
       ELSE IF ~ValidCode(v) THEN <<FailAt(s1, "while parsing a quoted scalar, found invalid Unicode character escape code", start), "">>
       ELSE <<SkipNNB(s1, n), CharOfCode(v)>>

\* consume_flow_scalar_non_whitespace_chars: acc = [s, str, lblanks]
RECURSIVE FSChars(_, _, _, _)
FSChars(t, a, single, start) ==
  LET s == a.s c == Peek(t, s, 0) IN
  IF s.err # "" \/ c \in BlankZ THEN a
  ELSE IF single /\ c = "'" /\ Peek(t, s, 1) = "'" THEN FSChars(t, [a EXCEPT !.s = SkipNNB(s, 2), !.str = Append(@, "'")], single, start)
  ELSE IF single /\ c = "'" THEN a
  ELSE IF ~single /\ c = "\"" THEN a
  ELSE IF ~single /\ c = "\\" /\ Peek(t, s, 1) \in Break THEN [a EXCEPT !.s = SkipLinebreak(t, SkipNB(s)), !.lblanks = TRUE]
  ELSE IF ~single /\ c = "\\" THEN LET r == ResolveEscape(t, s, start) IN
       IF r[1].err # "" THEN [a EXCEPT !.s = r[1]] ELSE FSChars(t, [a EXCEPT !.s = r[1], !.str = Append(@, r[2])], single, start)
  ELSE FSChars(t, [a EXCEPT !.s = SkipNB(s), !.str = Append(@, c)], single, start)

\* blanks and breaks between words: acc = [s, ws, lb, tb, lblanks]
RECURSIVE FSBlanks(_, _)
FSBlanks(t, a) ==
  LET s == a.s c == Peek(t, s, 0) IN
  IF s.err # "" THEN a
  ELSE IF c \in Blank
  THEN IF a.lblanks
       THEN IF c = "\t" /\ s.col < s.indent THEN [a EXCEPT !.s = Fail(s, "tab cannot be used as indentation")]
            ELSE FSBlanks(t, [a EXCEPT !.s = SkipB(s)])
       ELSE FSBlanks(t, [a EXCEPT !.s = SkipB(s), !.ws = Append(@, c)])
  ELSE IF c \in Break
  THEN IF a.lblanks THEN FSBlanks(t, [a EXCEPT !.s = SkipBreak(t, s), !.tb = Append(@, "\n")])
       ELSE FSBlanks(t, [a EXCEPT !.s = SkipBreak(t, s), !.ws = <<>>, !.lb = <<"\n">>, !.lblanks = TRUE])
  ELSE a

\* main loop: acc = [s, str, ws, lb, tb]
RECURSIVE FSLoop(_, _, _, _)
FSLoop(t, a, single, start) ==
  LET s == a.s IN
  IF s.err # "" THEN a
  ELSE IF s.col = 0 /\ IsDocInd(t, s) THEN [a EXCEPT !.s = FailAt(s, "while scanning a quoted scalar, found unexpected document indicator", start)]
  ELSE IF Peek(t, s, 0) \in Z THEN [a EXCEPT !.s = FailAt(s, "while scanning a quoted scalar, found unexpected end of stream", start)]
  ELSE IF s.col < Max(s.indent, BlockIndent(s) + 1) THEN [a EXCEPT !.s = FailAt(s, "invalid indentation in quoted scalar", start)]
  ELSE LET c1 == FSChars(t, [s |-> s, str |-> a.str, lblanks |-> FALSE], single, start) IN
       IF c1.s.err # "" THEN [a EXCEPT !.s = c1.s]
       ELSE IF Peek(t, c1.s, 0) = (IF single THEN "'" ELSE "\"") THEN [a EXCEPT !.s = c1.s, !.str = c1.str]
       ELSE LET b == FSBlanks(t, [s |-> c1.s, ws |-> a.ws, lb |-> a.lb, tb |-> a.tb, lblanks |-> c1.lblanks]) IN
            IF b.s.err # "" THEN [a EXCEPT !.s = b.s]
            ELSE IF b.lblanks
            THEN LET str1 == IF b.lb = <<>> THEN c1.str \o b.tb
                             ELSE IF b.tb = <<>> THEN Append(c1.str, " ") ELSE c1.str \o b.tb
                 IN FSLoop(t, [s |-> b.s, str |-> str1, ws |-> b.ws, lb |-> <<>>, tb |-> <<>>], single, start)
            ELSE FSLoop(t, [s |-> b.s, str |-> c1.str \o b.ws, ws |-> <<>>, lb |-> b.lb, tb |-> b.tb], single, start)

ScanFlowScalar(t, s0, single) ==
  LET start == Mark(s0)
      a == FSLoop(t, [s |-> SkipNB(s0), str |-> <<>>, ws |-> <<>>, lb |-> <<>>, tb |-> <<>>], single, start) IN
  IF a.s.err # "" THEN <<a.s, <<>>>>
  ELSE LET s1 == SkipWsToEol(t, SkipNB(a.s), TRUE) c == Peek(t, s1, 0) IN
       IF s1.err # "" THEN <<s1, <<>>>>
       ELSE IF (c \in {",", "}", "]"} /\ s1.flow > 0) \/ c \in BreakZ \/ (c = ":" /\ s1.flow = 0 /\ start[2] = s1.line) \/ (c = ":" /\ s1.flow > 0)
       THEN <<s1, Tok("Scalar", start, Mark(s1), a.str, IF single THEN "single" ELSE "double")>>
       ELSE <<Fail(s1, "invalid trailing content after double-quoted scalar"), <<>>>>

FetchFlowScalar(t, s, single) ==
  LET r == ScanFlowScalar(t, [SaveSK(s) EXCEPT !.ska = FALSE], single) IN
  IF r[1].err # "" THEN r[1]
  ELSE LET s1 == SkipToNext(t, r[1]) IN
       IF s1.err # "" THEN s1 ELSE Push([s1 EXCEPT !.adj = s1.pos], r[2])

\* ---- plain scalars (fetch_plain_scalar / scan_plain_scalar) ----
CanPlain(t, s) ==
  LET c == Peek(t, s, 0) nc == Peek(t, s, 1) inflow == s.flow > 0 IN
  ~((c = ":" /\ (nc \in BlankZ \/ (inflow /\ nc \in FlowC))) \/ (inflow /\ c \in FlowC))

RECURSIVE PlainChunk(_, _, _)
PlainChunk(t, s, str) ==
  IF Peek(t, s, 0) \in BlankZ \/ ~CanPlain(t, s) THEN <<s, str>>
  ELSE PlainChunk(t, SkipNB(s), Append(str, Peek(t, s, 0)))

\* blanks/breaks processing inside a plain scalar; acc = [s, str, ws, lb, tb, endm, start]
RECURSIVE PlainBlanks(_, _, _)
PlainBlanks(t, a, indent) ==
  LET s == a.s c == Peek(t, s, 0) IN
  IF s.err # "" THEN a
  ELSE IF c \in Blank
  THEN IF ~s.lw THEN PlainBlanks(t, [a EXCEPT !.s = SkipB(s), !.ws = Append(@, c)], indent)
       ELSE IF s.col < indent /\ c = "\t"
       THEN LET s1 == SkipWsToEol(t, s, TRUE) IN
            IF s1.err # "" THEN [a EXCEPT !.s = s1]
            ELSE IF Peek(t, s1, 0) \notin BreakZ THEN [a EXCEPT !.s = FailAt(s1, "while scanning a plain scalar, found a tab", a.start)]
            ELSE PlainBlanks(t, [a EXCEPT !.s = s1], indent)
       ELSE PlainBlanks(t, [a EXCEPT !.s = SkipB(s)], indent)
  ELSE IF c \in Break
  THEN IF s.lw THEN PlainBlanks(t, [a EXCEPT !.s = SkipBreak(t, s), !.tb = Append(@, "\n")], indent)
       ELSE PlainBlanks(t, [a EXCEPT !.s = SkipBreak(t, s), !.ws = <<>>, !.lb = Append(@, "\n")], indent)
  ELSE a

RECURSIVE PlainLoop(_, _, _)
PlainLoop(t, a, indent) ==
  LET s == a.s IN
  IF s.err # "" THEN a
  ELSE IF (s.col = 0 /\ IsDocInd(t, s)) \/ Peek(t, s, 0) = "#" THEN a
  ELSE IF s.flow > 0 /\ a.str = <<>> /\ Peek(t, s, 0) = "-" /\ Peek(t, s, 1) \in FlowC
  THEN [a EXCEPT !.s = Fail(s, "plain scalar cannot start with '-' followed by ,[]{}")]
  ELSE LET a1 == IF Peek(t, s, 0) \notin BlankZ /\ CanPlain(t, s)
                 THEN LET str1 == IF s.lw
                                  THEN IF a.lb = <<>> THEN a.str \o a.tb
                                       ELSE IF a.tb = <<>> THEN Append(a.str, " ") ELSE a.str \o a.tb
                                  ELSE a.str \o a.ws
                          r == PlainChunk(t, [s EXCEPT !.lw = FALSE], str1)
                      IN [a EXCEPT !.s = r[1], !.str = r[2], !.endm = Mark(r[1]),
                                   !.ws = IF s.lw THEN a.ws ELSE <<>>,
                                   !.lb = IF s.lw THEN <<>> ELSE a.lb,
                                   !.tb = IF s.lw THEN <<>> ELSE a.tb]
                 ELSE a
       IN IF Peek(t, a1.s, 0) \notin Blank \cup Break THEN a1
          ELSE LET a2 == PlainBlanks(t, a1, indent) IN
               IF a2.s.err # "" THEN a2
               ELSE IF a2.s.flow = 0 /\ a2.s.col < indent THEN a2
               ELSE IF a2.s.flow > 0 /\ a2.s.col < indent /\ Peek(t, a2.s, 0) \notin BreakZ
               THEN [a2 EXCEPT !.s = Fail(a2.s, "invalid indentation in flow construct")]
               ELSE PlainLoop(t, a2, indent)

FetchPlain(t, s0) ==
  LET sv == [SaveSK(s0) EXCEPT !.ska = FALSE]
      \* in a flow collection the prepared one-column indents stay (they guard the indentation of its later lines)
      s == IF sv.flow > 0 THEN sv ELSE UnrollNonBlock(sv)
      indent == (IF sv.flow > 0 THEN BlockIndent(sv) ELSE s.indent) + 1
      m == Mark(s)
  IN IF s.flow > 0 /\ m[3] < indent THEN Fail(s, "invalid indentation in flow construct")
     ELSE LET a == PlainLoop(t, [s |-> s, str |-> <<>>, ws |-> <<>>, lb |-> <<>>, tb |-> <<>>, endm |-> m, start |-> m], indent)
              s1 == a.s
          IN IF s1.err # "" THEN s1
             ELSE LET s2 == IF s1.lw THEN [s1 EXCEPT !.ska = TRUE] ELSE s1 IN
                  IF a.str = <<>> THEN FailAt(s2, "unexpected end of plain scalar", m)
                  ELSE Push(s2, Tok("Scalar", m, a.endm, a.str, "plain"))

\* ---- dispatch (fetch_next_token) ----
FetchNext(t, s) ==
  IF ~s.ssp THEN FetchStreamStart(s)
  ELSE LET s1 == SkipToNext(t, s) IN
  IF s1.err # "" THEN s1 ELSE
  LET s2 == Stale(s1) IN
  IF s2.err # "" THEN s2 ELSE
  LET s3 == Unroll(s2, s2.col)
      c == Peek(t, s3, 0)
      nc == Peek(t, s3, 1)
  IN IF c \in Z THEN FetchStreamEnd(s3)
     ELSE IF s3.col = 0 /\ c = "%" THEN FetchDirective(t, s3)
     ELSE IF s3.col = 0 /\ IsDocStart(t, s3) THEN FetchDocInd(s3, "DocumentStart")
     ELSE IF s3.col = 0 /\ IsDocEnd(t, s3)
     THEN LET s4 == FetchDocInd(s3, "DocumentEnd") IN
          IF s4.err # "" THEN s4
          ELSE LET s5 == SkipWsToEol(t, s4, TRUE) IN
               IF s5.err # "" THEN s5
               ELSE IF Peek(t, s5, 0) \notin BreakZ THEN Fail(s5, "invalid content after document end marker")
               ELSE s5
     ELSE IF s3.col < s3.indent THEN Fail(s3, "invalid indentation")
     ELSE IF c = "[" THEN FetchFlowStart(t, s3, "FlowSequenceStart")
     ELSE IF c = "{" THEN FetchFlowStart(t, s3, "FlowMappingStart")
     ELSE IF c = "]" THEN FetchFlowEnd(t, s3, "FlowSequenceEnd")
     ELSE IF c = "}" THEN FetchFlowEnd(t, s3, "FlowMappingEnd")
     ELSE IF c = "," THEN FetchFlowEntry(t, s3)
     ELSE IF c = "-" /\ nc \in BlankZ THEN FetchBlockEntry(t, s3)
     ELSE IF c = "?" /\ nc \in BlankZ THEN FetchKey(t, s3)
     ELSE IF c = ":" /\ nc \in BlankZ THEN FetchValue(t, s3)
     ELSE IF c = ":" /\ s3.flow > 0 /\ (nc \in FlowC \/ s3.pos = s3.adj) THEN FetchFlowValue(t, s3)
     ELSE IF c = "*" THEN FetchAnchor(t, s3, TRUE)
     ELSE IF c = "&" THEN FetchAnchor(t, s3, FALSE)
     ELSE IF c = "!" THEN FetchTag(t, s3)
     ELSE IF c = "|" /\ s3.flow = 0 THEN FetchBlockScalar(t, s3, TRUE)
     ELSE IF c = ">" /\ s3.flow = 0 THEN FetchBlockScalar(t, s3, FALSE)
     ELSE IF c = "'" THEN FetchFlowScalar(t, s3, TRUE)
     ELSE IF c = "\"" THEN FetchFlowScalar(t, s3, FALSE)
     ELSE IF c \in {"%", "@", "`"} THEN Fail(s3, "unexpected character: `" \o c \o "'")
     ELSE FetchPlain(t, s3)

\* ---- fetch_more_tokens / next_token ----
RECURSIVE FetchMore(_, _)
FetchMore(t, s) ==
  IF s.err # "" THEN s
  ELSE IF s.tokens = <<>> THEN FetchMore(t, FetchNext(t, s))
  ELSE LET s1 == Stale(s) IN
       IF s1.err # "" THEN s1
       ELSE IF \E i \in 1..Len(s1.sks) : s1.sks[i].possible /\ s1.sks[i].tn = s1.parsed THEN FetchMore(t, FetchNext(t, s1))
       ELSE [s1 EXCEPT !.avail = TRUE]

\* next_token: returns <<s', tok>>; tok.k = "None" when nothing is returned
NoneTok == Tok("None", <<0, 0, 0>>, <<0, 0, 0>>, <<>>, <<>>)
NextToken(t, s) ==
  IF s.err # "" \/ s.sep THEN <<s, NoneTok>>
  ELSE LET s1 == IF ~s.avail THEN FetchMore(t, s) ELSE s IN
       IF s1.err # "" THEN <<s1, NoneTok>>
       ELSE LET tk == Head(s1.tokens)
                s2 == [s1 EXCEPT !.tokens = Tail(@), !.avail = FALSE, !.parsed = @ + 1, !.sep = (tk.k = "StreamEnd")]
            IN <<s2, tk>>

ScanInit == [pos |-> 0, line |-> 1, col |-> 0, tokens |-> <<>>, parsed |-> 0, avail |-> FALSE,
             sks |-> <<>>, ska |-> TRUE, indent |-> -1, indents |-> <<>>, flow |-> 0, lw |-> TRUE,
             fms |-> FALSE, ifm |-> <<>>, fcs |-> <<>>, tse |-> -1, adj |-> 0, ssp |-> FALSE, sep |-> FALSE, err |-> "", errmark |-> <<0, 0, 0>>]

\* ---- invariants of the scanner state: each is the reason one panic site is safe (C01) ----
\* simple_keys.last().unwrap() / .pop().unwrap(): one entry per flow level plus the stream's
SKStackOK(s) == Len(s.sks) = (IF s.ssp THEN s.flow + 1 ELSE 0)
\* unroll_indent: indents.pop().unwrap() while indent > col >= -1
IndentStackOK(s) == (s.indent >= 0) => (s.indents # <<>>)
ScannerInv(s) == SKStackOK(s) /\ IndentStackOK(s) /\ InsertPosOK(s) /\ SaveSKSafe(s)
=========================================================================
