CONSTANTS
  NA = 3
  NB = 2
INIT Init
NEXT Next
INVARIANT Independent
CHECK_DEADLOCK FALSE
