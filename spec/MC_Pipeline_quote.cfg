CONSTANTS
  N = 4
  AlphaName = "quote"
INIT Init
NEXT Next
INVARIANTS PanicFree Grammar Linear Out
CHECK_DEADLOCK FALSE
