---------------------------- MODULE YWork ----------------------------
(* Reference module for the "bounded work" half of C01. Work is measured as the number of
   operations performed on the input source (every Input trait call counts 1, a bulk operation
   counts 1 + the characters it consumed). The scanner reads every character a bounded number of
   times (dispatch look-ahead of 4, one-token look-ahead of the parser, re-reading after a
   simple-key insertion never happens because tokens, not characters, are re-ordered), so the
   work is linear in the input length. The constants were fixed from MC_Pipeline/the measured
   worst case (13 operations per character on ">" and "a\n") with a 5x margin, so that
   constant-factor refactorings never alarm while any super-linear behaviour or spin does.      *)
EXTENDS Naturals
WorkBound(len) == 64 * (len + 1) + 256
WorkOK(len, work) == work <= WorkBound(len)
======================================================================
