---------------------------- MODULE YWork ----------------------------
(* Reference module for the "bounded work" half of C01. Work is measured as the number of
   operations performed on the input source (every Input trait call counts 1, a bulk operation
   counts 1 + the characters it consumed). The scanner reads every character a bounded number of
   times (dispatch look-ahead of 4, one-token look-ahead of the parser, re-reading after a
   simple-key insertion never happens because tokens, not characters, are re-ordered), so the
   work is linear in the input length. The constants were fixed from MC_Pipeline/the measured
   worst case (13 operations per character on ">" and "a\n") with a 5x margin, so that
   constant-factor refactorings never alarm while any super-linear behaviour or spin does.      *)
EXTENDS Naturals
WorkBound(len) == 64 * (len + 1) + 256
WorkOK(len, work) == work <= WorkBound(len)

(* Work that is not visible as input operations (token queue, simple-key and indentation stacks,
   tag and anchor tables, the loader's containers) is judged by scaling: a family of inputs
   text(n) is run at n and at 16n and the CPU time consumed (microseconds) compared per 1000
   characters of input. Linear work keeps the cost per 1000 characters constant; the bound allows
   it to grow sixfold (allocator and cache effects; measured worst on the pinned tree: 2.5) plus
   60 microseconds per 1000 characters, and quadratic work makes it grow sixteenfold.          *)
CostPerK(len, us) == us \div ((len \div 1000) + 1)
ScaleOK(len1, us1, len2, us2) == CostPerK(len2, us2) <= 6 * CostPerK(len1, us1) + 60
======================================================================
