CONSTANTS
  D = 2
  A = 1
  W = 4
INIT Init
NEXT Next
INVARIANTS NoPanic Grammar Complete
CONSTRAINT Bound
CHECK_DEADLOCK FALSE
