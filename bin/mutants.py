#!/usr/bin/env python3
"""The machinery's own acceptance test (DESIGN.md section 12): hand-written source changes that
break one property but compile, applied one at a time to a scratch worktree of /repo (removed
afterwards); the property's check is run against that worktree (VERIF_REPO) and must report
VIOLATION. Harmless changes (second list) must raise nothing. Not a registered command.

  bin/mutants.py [--only name,name] [--tier quick] [--suite]     (--suite also runs the workspace tests)"""
import json, os, re, shutil, subprocess, sys, time

V = os.path.dirname(os.path.dirname(os.path.abspath(__file__)))
S = "parser/src/scanner.rs"
P = "parser/src/parser.rs"

# (name, file, old, new, checks that must report a violation)
BREAKING = [
    ("plain-empty-guard", S, 'if string.is_empty() {\n            // `fetch_plain_scalar` must', 'if false && string.is_empty() {\n            // `fetch_plain_scalar` must', ["C01"]),
    ("plain-chunk-off-by-one", S, "for _ in 0..self.input.bufmaxlen() - 1 {", "for _ in 0..self.input.bufmaxlen() {", ["C01"]),
    ("roll-indent-strict", S, "if self.indent <= col as isize {\n            if let Some(indent) = self.indents.last()", "if self.indent < col as isize {\n            if let Some(indent) = self.indents.last()", ["C03"]),
    ("no-flow-mapping-end", S, "                *implicit_mapping = ImplicitMappingState::Possible;\n                self.tokens\n                    .push_back(Token(Span::empty(mark), TokenType::FlowMappingEnd));", "                *implicit_mapping = ImplicitMappingState::Possible;", ["C02", "C03"]),
    ("escape-e-wrong", S, "'e' => ret = '\\x1b',", "'e' => ret = '\\x1a',", ["C04"]),
    ("escape-x-three-digits", S, "'x' => code_length = 2,", "'x' => code_length = 3,", ["C04"]),
    ("block-auto-indent-min", S, "*indent = max_indent.max((self.indent + 1) as usize);", "*indent = max_indent.min((self.indent + 1) as usize).max(if max_indent > 0 { 1 } else { 0 });", ["C05"]),
    ("clip-as-keep", S, "        if chomping == Chomping::Keep {\n            string.push_str(&trailing_breaks);\n        }", "        if chomping != Chomping::Strip {\n            string.push_str(&trailing_breaks);\n        }", ["C05"]),
    ("no-simple-key-length-limit", S, "sk.mark.line < self.mark.line || sk.mark.index + 1024 < self.mark.index", "sk.mark.line < self.mark.line", ["C06"]),
    ("loader-insert-if-absent", "saphyr/src/loader.rs", "hash.insert(key.into(), node.0);", "hash.entry(key.into()).or_insert(node.0);", ["C07"]),
    ("null-uppercase-dropped-titlecase-added", "saphyr/src/scalar.rs", '"~" | "null" | "NULL" => Self::Null,', '"~" | "null" | "Null" | "nULL" => Self::Null,', ["C08"]),
    ("octal-radix-10", "saphyr/src/scalar.rs", "i64::from_str_radix(number, 8)", "i64::from_str_radix(number, 10)", ["C08"]),
    ("need-quotes-no-dot", "saphyr/src/emitter.rs", "        || string.starts_with('.')\n", "", ["C09"]),
    ("str-doc-end-ignores-fourth", "parser/src/input/str.rs", "            (bytes.len() == 3 || is_blank_or_breakz(bytes[3] as char))\n                && bytes[0] == b'.'", "            (bytes.len() >= 3)\n                && bytes[0] == b'.'", ["C10"]),
    ("no-adjacent-value-after-quoted", S, "        self.skip_to_next_token()?;\n        self.adjacent_value_allowed_at = self.mark.index;", "        self.skip_to_next_token()?;", ["C13"]),
    ("crlf-two-breaks", S, "        if c == '\\r' && nc == '\\n' {\n            self.skip_blank();\n        }\n        self.skip_nl();", "        if c == '\\r' && nc == '\\n' {\n            self.skip_nl();\n        }\n        self.skip_nl();", ["C14"]),
    ("tags-kept-across-documents", P, "        if !self.keep_tags {\n            self.tags.clear();\n        }", "        if !self.keep_tags && self.tags.len() > 3 {\n            self.tags.clear();\n        }", ["C16", "C15"]),
    ("next-reparses-after-peek", P, "        match self.current.take() {\n            None => self.parse(),\n            Some(v) => Ok(v),\n        }", "        match self.current.take() {\n            None => self.parse(),\n            Some(_) => self.parse(),\n        }", ["C17"]),
    ("load-stops-after-first-document", P, "            if !multi {\n                break;\n            }", "            if !multi || true {\n                break;\n            }", ["C17"]),
    ("decode-growth-len-100", "saphyr/src/encoding.rs", "output.reserve((input.len() / 10).max(MIN_DECODER_OUTPUT_SPACE));", "output.reserve(input.len() / 100);", ["C18"]),
    ("owned-value-becomes-representation", "saphyr/src/yaml_owned.rs", "Yaml::Value(scalar) => Self::Value(scalar.into_owned()),", "Yaml::Value(crate::Scalar::String(s)) => Self::Representation(s.into_owned(), ScalarStyle::Plain, None),\n            Yaml::Value(scalar) => Self::Value(scalar.into_owned()),", ["C19"]),
    ("hash-bare-str", "saphyr/src/yaml.rs", "    let key = Yaml::Value(Scalar::String(key.into()));\n    key.hash(&mut hasher);", "    key.hash(&mut hasher);", ["C20"]),
    ("nesting-limit-off", P, "if self.states.len() > MAX_NESTING_LEVEL {", "if self.states.len() > MAX_NESTING_LEVEL * 1000 {", ["C11"]),
]

# changes that must NOT raise a violation from the listed checks
HARMLESS = [
    # planned in DESIGN section 12 as breaking, but on examination no listed property is violated by them (DESIGN 0.5):
    # the scanner's flow level wraps at 256 '[' — tokens desynchronise, the parser still ends in an error or a stream, nothing panics;
    ("flow-level-wrapping", S, ".checked_add(1)\n            .ok_or_else(|| ScanError::new_str(self.mark, \"recursion limit exceeded\"))?;", ".wrapping_add(1);", ["C01", "C11"]),
    # the stream-end position keeps its column — C12 constrains line and column only for positions before the end of the input
    ("stream-end-col-unchanged", S, "        if self.mark.col != 0 {\n            self.mark.col = 0;\n            self.mark.line += 1;\n        }", "        if self.mark.col != 0 {\n            self.mark.line += 1;\n        }", ["C12"]),
    ("renamed-error-message", S, '"invalid indentation in flow construct"', '"bad indentation inside a flow construct"', ["C01", "C02", "C06", "C10", "C14"]),
    ("buffered-capacity-32", "parser/src/input/buffered.rs", "const BUFFER_LEN: usize = 16;", "const BUFFER_LEN: usize = 32;", ["C01", "C10", "C05"]),
    ("string-capacity-64", S, "let mut string = String::with_capacity(32);", "let mut string = String::with_capacity(64);", ["C04", "C10"]),
    ("error-display-other-wording", S, '"{} at byte {} line {} column {}",\n            self.info,\n            self.mark.index,\n            self.mark.line,\n            self.mark.col + 1,', '"{} at {}:{} (byte {})",\n            self.info,\n            self.mark.line,\n            self.mark.col + 1,\n            self.mark.index,', ["C12", "C10", "C14"]),
    ("nesting-limit-512", P, "const MAX_NESTING_LEVEL: usize = 1000;", "const MAX_NESTING_LEVEL: usize = 512;", ["C11", "C17", "C15", "C01"]),
    ("decode-growth-bigger", "saphyr/src/encoding.rs", "output.reserve((input.len() / 10).max(MIN_DECODER_OUTPUT_SPACE));", "output.reserve((input.len() / 4).max(64));", ["C18"]),
]


def sh(cmd, cwd=None, env=None, timeout=7200):
    p = subprocess.run(cmd, cwd=cwd, env=env, stdout=subprocess.PIPE, stderr=subprocess.STDOUT, text=True, timeout=timeout)
    return p.returncode, p.stdout


def run_one(name, path, old, new, checks, tier, suite):
    wt = "/tmp/mut-" + name
    sh(["git", "-C", "/repo", "worktree", "remove", "--force", wt])
    sh(["git", "-C", "/repo", "worktree", "add", "-q", wt, "HEAD"])
    res = {"name": name, "checks": {}}
    try:
        f = os.path.join(wt, path)
        s = open(f).read()
        if old not in s:
            res["error"] = "pattern not found"
            return res
        open(f, "w").write(s.replace(old, new, 1))
        if suite:
            rc, out = sh(["cargo", "test", "--workspace", "--no-fail-fast", "--offline", "-j", "8"], cwd=wt)
            res["suite_failed"] = sum(int(x) for x in re.findall(r"(\d+) failed", out))
            res["suite_rc"] = rc
        env = dict(os.environ)
        env["VERIF_REPO"] = wt
        for c in checks:
            t0 = time.time()
            rc, out = sh([os.path.join(V, "bin", "check"), c, "--tier", tier], cwd=V, env=env)
            res["checks"][c] = {"exit": rc, "violations": len([l for l in out.splitlines() if l.startswith("VIOLATION")]),
                                "first": [l.strip()[:200] for l in out.splitlines() if l.strip().startswith("what:")][:1],
                                "error": next((l[:200] for l in out.splitlines() if l.startswith("TOOL-ERROR")), ""), "wall_s": round(time.time() - t0, 1)}
    finally:
        sh(["git", "-C", "/repo", "worktree", "remove", "--force", wt])
        shutil.rmtree(wt, ignore_errors=True)
    return res


def main():
    only = None
    tier = "quick"
    suite = "--suite" in sys.argv
    for i, a in enumerate(sys.argv):
        if a == "--only":
            only = set(sys.argv[i + 1].split(","))
        if a == "--tier":
            tier = sys.argv[i + 1]
    out = []
    for kind, lst in (("breaking", BREAKING), ("harmless", HARMLESS)):
        for name, path, old, new, checks in lst:
            if only and name not in only:
                continue
            r = run_one(name, path, old, new, checks, tier, suite)
            r["kind"] = kind
            if kind == "breaking":
                r["ok"] = "error" not in r and any(c["exit"] == 1 for c in r["checks"].values())
            else:
                r["ok"] = "error" not in r and all(c["exit"] == 0 for c in r["checks"].values())
            print(json.dumps(r), flush=True)
            out.append(r)
    json.dump(out, open(os.path.join(V, "work", "mutants.json"), "w"), indent=1)
    bad = [r["name"] for r in out if not r["ok"]]
    print("MUTANTS: %d run, %d as expected, unexpected: %s" % (len(out), len(out) - len(bad), bad))
    return 0 if not bad else 1


if __name__ == "__main__":
    sys.exit(main())
