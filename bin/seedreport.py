#!/usr/bin/env python3
"""Regenerate seeded/README.md from seeded/*/meta.json."""
import json, os, glob
V = os.path.dirname(os.path.dirname(os.path.abspath(__file__)))
rows = []
for m in sorted(glob.glob(os.path.join(V, "seeded", "*", "meta.json"))):
    d = json.load(open(m))
    notes = os.path.join(os.path.dirname(m), "NOTES.md")
    first = ""
    if os.path.exists(notes):
        for l in open(notes):
            l = l.strip()
            if l and not l.startswith("#"):
                first = l
                break
    res = d.get("checks", {})
    caught = ", ".join(d.get("caught_by", [])) or "—"
    viol = "; ".join("%s: exit %s, %s violating cases" % (c, r["exit"], r["violations"]) for c, r in res.items())
    rows.append((d["name"], d["property"], "yes" if d.get("valid") else "no", caught, viol, first[:220].replace("|", "\\|")))
with open(os.path.join(V, "seeded", "README.md"), "w") as f:
    f.write("# Seeded changes\n\nEach directory holds a change to saphyr written by an independent agent that saw only the text of one property: "
            "`patch.diff` (applies to /repo HEAD of the time), `demo.rs` (fails with the patch, passes without), `NOTES.md` (what it needs to manifest) and `meta.json` "
            "(what `bin/seedcheck.py` ran: the workspace test suite with the patch, the demonstration in both directions, and the property's check against a scratch "
            "worktree with the patch applied). `valid` = applies, suite green, demonstration fails with / passes without the patch.\n\n"
            "| seed | property | valid | caught by | result | what (first line of NOTES.md) |\n|---|---|---|---|---|---|\n")
    for r in rows:
        f.write("| %s | %s | %s | %s | %s | %s |\n" % r)
    n = len(rows); v = sum(1 for r in rows if r[2] == "yes"); c = sum(1 for r in rows if r[2] == "yes" and r[3] != "—")
    f.write("\n%d seeds, %d valid, %d of the valid ones reported by the check of their property.\n" % (n, v, c))
print(open(os.path.join(V, "seeded", "README.md")).read()[-300:])
