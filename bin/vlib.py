"""Shared plumbing for /verif/bin/check: building the harness from /repo's working tree, running
TLC, parsing its output, known findings, VIOLATION lines, replay files and evidence files."""
import json, os, re, subprocess, sys, time, hashlib, shutil

VERIF = os.path.dirname(os.path.dirname(os.path.abspath(__file__)))
SPEC = os.path.join(VERIF, "spec")
WORK = os.path.join(VERIF, "work")
VH = os.path.join(WORK, "target", "verif", "vh")
TLA_JAR = "/opt/veriftools/tla/tla2tools.jar"
SUITE = os.path.join(VERIF, "corpus", "suite.ndjson")


class ToolError(Exception):
    pass


def log(*a):
    print(*a, file=sys.stderr, flush=True)


def seed():
    try:
        return int(os.environ.get("VERIF_SEED", "1"))
    except ValueError:
        return 1


def sh(cmd, timeout=None, env=None, cwd=None, check=True, stdout_path=None):
    e = dict(os.environ)
    if env:
        e.update(env)
    t0 = time.time()
    if stdout_path:
        with open(stdout_path, "w") as f:
            p = subprocess.run(cmd, stdout=f, stderr=subprocess.PIPE, text=True, timeout=timeout, env=e, cwd=cwd)
        out = ""
    else:
        p = subprocess.run(cmd, stdout=subprocess.PIPE, stderr=subprocess.PIPE, text=True, timeout=timeout, env=e, cwd=cwd)
        out = p.stdout
    if p.returncode == 86 and "STALL " in (p.stderr or ""):
        # the harness' watchdog: the code under test made no progress on an input (a spin is data about the code)
        info = {}
        try:
            info = json.loads(p.stderr.split("STALL ", 1)[1].split("\n")[0])
        except Exception:
            pass
        raise Stall(info.get("t", ""), info.get("secs", 0), " ".join(cmd[:3]))
    if check and p.returncode != 0:
        raise ToolError("command failed (%d): %s\n%s\n%s" % (p.returncode, " ".join(cmd), out[-2000:], p.stderr[-4000:]))
    return p.returncode, out, p.stderr, time.time() - t0


_built = False


def build_harness():
    """Always rebuild from /repo's current working tree (cargo decides what is stale).
    VERIF_REPO=<dir> (not used by the registered commands) builds against another checkout of
    saphyr instead, from a copy of the harness crate, so that a long exploration can run on a
    snapshot while /repo is being edited."""
    global _built, VH
    if _built:
        return
    os.makedirs(WORK, exist_ok=True)
    lock = os.path.join(VERIF, "harness", "Cargo.lock")
    if not os.path.exists(lock):
        shutil.copy("/repo/Cargo.lock", lock)
    env = {"CARGO_NET_OFFLINE": "true"}
    hdir = os.path.join(VERIF, "harness")
    alt = os.environ.get("VERIF_REPO")
    if alt and os.path.abspath(alt) != "/repo":
        hdir = os.path.join(WORK, "harness_alt")
        shutil.rmtree(hdir, ignore_errors=True)
        shutil.copytree(os.path.join(VERIF, "harness"), hdir)
        t = open(os.path.join(hdir, "Cargo.toml")).read().replace("/repo/", os.path.abspath(alt) + "/")
        open(os.path.join(hdir, "Cargo.toml"), "w").write(t)
        open(os.path.join(hdir, ".cargo", "config.toml"), "w").write('[net]\noffline = true\n[build]\ntarget-dir = "../target_alt"\n')
        VH = os.path.join(WORK, "target_alt", "verif", "vh")
    rc, out, err, dt = sh(["cargo", "build", "--offline", "--profile", "verif", "--quiet"], cwd=hdir, env=env, check=False, timeout=1800)
    if rc != 0:
        raise ToolError("harness build failed:\n" + err[-6000:])
    _built = True
    log("[build] harness built in %.1fs" % dt)


def vh(args, timeout=3600, check=True, stdout_path=None, env=None):
    build_harness()
    e = {"VERIF_SEED": str(seed())}
    if env:
        e.update(env)
    return sh([VH] + args, timeout=timeout, env=e, check=check, stdout_path=stdout_path)


def vh_json(args, timeout=3600, env=None):
    rc, out, err, dt = vh(args, timeout=timeout, env=env)
    lines = [l for l in out.strip().split("\n") if l.startswith("{")]     # not splitlines(): JSON may hold U+0085 / U+2028 unescaped
    if not lines:
        raise ToolError("vh %s produced no summary\n%s" % (args[0], err[-2000:]))
    return json.loads(lines[-1])


class Stall(Exception):
    """The real code made no progress for `secs` seconds on input `text` (reported by the harness' watchdog)."""
    def __init__(self, text, secs, cmd):
        Exception.__init__(self, "no progress for %s s on %r (%s)" % (secs, text[:120], cmd))
        self.text, self.secs, self.cmd = text, secs, cmd


class TlcResult:
    def __init__(self):
        self.out = ""
        self.states = 0
        self.distinct = 0
        self.rejects = []      # list of tuples printed as <<"REJECT", ...>>
        self.judged = 0
        self.replay_path = None
        self.ok = False
        self.invariant_violated = None
        self.liveness_violated = False
        self.coverage = {}
        self.wall = 0.0


_TLA_TUPLE = re.compile(r'^<<(.*)>>$')


def parse_tla_value(s):
    """Parse the small subset of TLA+ values TLC prints for our PrintT tuples: strings, ints, tuples."""
    s = s.strip()
    pos = 0

    def val():
        nonlocal pos
        while pos < len(s) and s[pos] == " ":
            pos += 1
        if s.startswith("<<", pos):
            pos += 2
            items = []
            while True:
                while pos < len(s) and s[pos] in " ,":
                    pos += 1
                if s.startswith(">>", pos):
                    pos += 2
                    return items
                items.append(val())
        if s[pos] == '"':
            j = pos + 1
            buf = []
            while s[j] != '"':
                if s[j] == "\\":
                    c = s[j + 1]
                    buf.append({"n": "\n", "t": "\t", "r": "\r", "f": "\f"}.get(c, c))
                    j += 2
                else:
                    buf.append(s[j])
                    j += 1
            pos = j + 1
            return "".join(buf)
        m = re.match(r"-?\d+", s[pos:])
        if m:
            pos += m.end()
            return int(m.group())
        m = re.match(r"[A-Za-z_]+", s[pos:])
        if m:
            pos += m.end()
            return m.group()
        raise ValueError("cannot parse TLA value at %d: %r" % (pos, s[pos:pos + 40]))

    return val()


def tlc(module, cfg=None, workers=1, env=None, timeout=1800, simulate=None, depth=None, out_path=None, name=None, coverage=False, xmx="4g", deque=False, extra=None):
    """Run TLC on spec/<module>.tla with spec/<cfg>.cfg. Output goes to out_path (kept for replay
    extraction). Returns TlcResult. Raises ToolError for parse errors / crashes / time-outs."""
    os.makedirs(os.path.join(WORK, "tlc"), exist_ok=True)
    name = name or module
    cfg = cfg or module
    meta = os.path.join(WORK, "tlc", name + ".meta")
    shutil.rmtree(meta, ignore_errors=True)
    out_path = out_path or os.path.join(WORK, "tlc", name + ".out")
    jopts = "-Xss1g"
    if deque:
        jopts += " -Dtlc2.tool.queue.IStateQueue=StateDeque"
    cmd = ["java", "-Xmx" + xmx, "-XX:+UseParallelGC", "-cp", TLA_JAR + ":/opt/veriftools/tla/CommunityModules-deps.jar", "tlc2.TLC"]
    # use the wrapper when present so the CommunityModules classpath matches the sandbox set-up
    cmd = ["tlc"]
    cmd += ["-workers", str(workers), "-metadir", meta, "-cleanup", "-noGenerateSpecTE", "-seed", str(seed())]
    if coverage:
        cmd += ["-coverage", "1"]
    if simulate:
        cmd += ["-simulate", "num=%d" % simulate]
        if depth:
            cmd += ["-depth", str(depth)]
    if extra:
        cmd += extra
    cmd += ["-config", os.path.join(SPEC, cfg + ".cfg"), os.path.join(SPEC, module + ".tla")]
    e = {"JAVA_TOOL_OPTIONS": jopts + " -Xmx" + xmx}
    if env:
        e.update(env)
    t0 = time.time()
    try:
        rc, _, err, dt = sh(cmd, timeout=timeout, env=e, cwd=SPEC, check=False, stdout_path=out_path)
    except subprocess.TimeoutExpired:
        raise ToolError("TLC timed out after %ds on %s" % (timeout, name))
    finally:
        shutil.rmtree(meta, ignore_errors=True)
        clean_tmp()
    r = TlcResult()
    r.wall = time.time() - t0
    r.replay_path = out_path
    tail = []
    def joined_lines(f):
        """TLC's pretty-printer may wrap a printed tuple over several lines: re-join them."""
        buf = None
        for raw in f:
            line = raw.rstrip("\n")
            if buf is not None:
                buf += " " + line.strip()
                if buf.count("<<") <= buf.count(">>"):
                    yield buf
                    buf = None
                continue
            if line.startswith("<< ") and line.count("<<") > line.count(">>"):
                buf = "<<" + line[3:]
                continue
            yield line
        if buf is not None:
            yield buf

    with open(out_path, errors="replace") as f:
        for line in joined_lines(f):
            if line.startswith('<<"REPLAY"'):
                continue
            tail.append(line)
            if len(tail) > 400:
                tail.pop(0)
            if line.startswith('<<"REJECT"'):
                try:
                    r.rejects.append(parse_tla_value(line)[1:])
                except Exception:
                    r.rejects.append([line])
            elif line.startswith('<<"JUDGED"'):
                r.judged += parse_tla_value(line)[1]
            m = re.match(r"(\d+) states generated, (\d+) distinct states found", line)
            if m:
                r.states, r.distinct = int(m.group(1)), int(m.group(2))
            m = re.match(r"The number of states generated: (\d+)", line)
            if m:
                r.states = int(m.group(1))
                r.distinct = max(r.distinct, 1)
            m = re.match(r"Error: Invariant (\S+) is violated", line)
            if m:
                r.invariant_violated = m.group(1)
            if "Temporal properties were violated" in line or re.search(r"Temporal property \S+ was violated", line):
                r.liveness_violated = True
    r.out = "\n".join(tail)
    if "Model checking completed. No error has been found" in r.out or (simulate and rc in (0,)):
        r.ok = True
    parse_fail = ("Parsing or semantic analysis failed" in r.out) or ("***Parse Error***" in r.out)
    if parse_fail or (rc != 0 and not r.invariant_violated and not r.liveness_violated and not r.ok):
        raise ToolError("TLC failed on %s (rc=%d):\n%s\n%s" % (name, rc, r.out[-3000:], err[-1500:]))
    return r


def clean_tmp(min_age=90):
    """TLC/SANY leave /tmp/SANY* and /tmp/tlc-* behind; remove those that are not in use (other
    TLC processes may be parsing right now, so only directories older than min_age seconds)."""
    now = time.time()
    for d in os.listdir("/tmp"):
        if d.startswith("SANY") or d.startswith("tlc-"):
            p = os.path.join("/tmp", d)
            try:
                if now - os.path.getmtime(p) > min_age:
                    shutil.rmtree(p, ignore_errors=True)
            except OSError:
                pass


def sany(module):
    rc, out, err, dt = sh(["tla-sany", os.path.join(SPEC, module + ".tla")], cwd=SPEC, check=False, timeout=300)
    clean_tmp()
    if rc != 0 or "Semantic errors" in out or "Parse Error" in out or "Fatal errors" in out or "*** Abort" in out:
        raise ToolError("SANY rejects %s:\n%s" % (module, out[-3000:]))


# ------------------------------------------------------------------------------------------------
# known findings
# ------------------------------------------------------------------------------------------------
def load_known(prop):
    path = os.path.join(VERIF, "KNOWN_FINDINGS.jsonl")
    ks = []
    if os.path.exists(path):
        for l in open(path):
            l = l.strip()
            if not l or l.startswith("#"):
                continue
            k = json.loads(l)
            if k.get("property") == prop and k.get("status") == "open":
                ks.append(k)
    return ks


def known_match(k, key):
    if "key" in k and k["key"] == key:
        return True
    if "key_regex" in k and re.fullmatch(k["key_regex"], key, re.S):
        return True
    return False


class Check:
    """Accumulates what one check run covered and found; writes evidence; prints verdict lines."""

    def __init__(self, prop, tier):
        self.prop = prop
        self.tier = tier
        self.t0 = time.time()
        self.states = 0
        self.transitions = 0
        self.traces = 0
        self.evaluations = 0
        self.distinct = 0
        self.samples = []
        self.rule = ""
        self.exhaustive = False
        self.extra = {}
        self.assumptions = []
        self.violations = []   # (key, what, replay dict)
        self._vkeys = set()
        self.known_seen = {}
        self.drift = 0
        self.drift_samples = []
        self.known = load_known(prop)
        self.tool_errors = []
        os.makedirs(os.path.join(VERIF, "replays", prop), exist_ok=True)
        os.makedirs(os.path.join(VERIF, "evidence"), exist_ok=True)
        os.makedirs(os.path.join(WORK, prop), exist_ok=True)

    def wd(self, *p):
        return os.path.join(WORK, self.prop, *p)

    def add_tlc(self, r):
        self.states += r.distinct
        self.transitions += r.states

    def sample(self, s, limit=6):
        if len(self.samples) < limit:
            self.samples.append(s)

    def violation(self, key, what, replay):
        """Report one violating case. key identifies the specific failing input/call/history."""
        for k in self.known:
            if known_match(k, key):
                self.known_seen.setdefault(k.get("id", k.get("key", k.get("key_regex"))), (k, key, what))
                return
        if key in self._vkeys:
            return
        self._vkeys.add(key)
        # (the replay record is kept for the cases that are printed; a change that breaks everything breaks 10^5 cases)
        self.violations.append((key, what, replay if len(self.violations) < 200 else None))

    def note_drift(self, what):
        self.drift += 1
        if len(self.drift_samples) < 5:
            self.drift_samples.append(what)

    def finish(self):
        wall = time.time() - self.t0
        cov = {
            "states": self.states, "transitions": self.transitions,
            "traces_validated_against_impl": self.traces,
            "evaluations": self.evaluations, "distinct_nontrivial": self.distinct,
            "rule": self.rule, "samples": self.samples[:8], "exhaustive": self.exhaustive,
            "model_code_drift": self.drift, "drift_samples": self.drift_samples,
            "known_findings_seen": [{"id": i, "example_key": v[1][:200]} for i, v in self.known_seen.items()],
        }
        cov.update(self.extra)
        ev = {"property_id": self.prop, "tier": self.tier, "seed": seed(), "level": "model_checking",
              "coverage": cov, "assumptions": self.assumptions, "wall_s": round(wall, 2), "violations": len(self.violations)}
        with open(os.path.join(VERIF, "evidence", self.prop + ".json"), "w") as f:
            json.dump(ev, f, indent=1, ensure_ascii=False)
            f.write("\n")
        for i, (k, key, what) in self.known_seen.items():
            print("KNOWN-FINDING: property=%s %s [%s] e.g. %s" % (self.prop, k.get("what", ""), i, json.dumps(key, ensure_ascii=False)[:160]))
        if self.drift:
            print("DRIFT property=%s model/code disagreements=%d (not a violation; see evidence) e.g. %s" % (self.prop, self.drift, json.dumps(self.drift_samples[:1], ensure_ascii=False)[:300]))
        n = 0
        for key, what, replay in self.violations[:25]:
            h = hashlib.sha1(key.encode("utf-8", "replace")).hexdigest()[:12]
            path = os.path.join(VERIF, "replays", self.prop, h + ".json")
            with open(path, "w") as f:
                json.dump({"property": self.prop, "key": key, "what": what, "replay": replay}, f, indent=1, ensure_ascii=False)
            print("VIOLATION property=%s replay=%s" % (self.prop, path))
            print("  what: %s" % what[:400])
            n += 1
        if len(self.violations) > 25:
            print("  ... and %d more violating cases" % (len(self.violations) - 25))
        print("[%s %s] states=%d transitions=%d traces=%d evaluations=%d distinct=%d drift=%d known=%d violations=%d wall=%.1fs" % (
            self.prop, self.tier, self.states, self.transitions, self.traces, self.evaluations, self.distinct, self.drift, len(self.known_seen), len(self.violations), wall))
        return 1 if self.violations else 0


def read_ndjson(path):
    out = []
    with open(path) as f:
        for l in f:
            l = l.strip()
            if l:
                out.append(json.loads(l))
    return out


def write_ndjson(path, recs):
    with open(path, "w") as f:
        for r in recs:
            f.write(json.dumps(r, ensure_ascii=False) + "\n")
