#!/usr/bin/env python3
"""Regenerate MANIFEST.json from the table below + the checks registered in props.CHECKS.
Properties without a registered check are listed under not_applicable with the reason given."""
import json, os, sys
sys.path.insert(0, os.path.dirname(os.path.abspath(__file__)))
import props
V = os.path.dirname(os.path.dirname(os.path.abspath(__file__)))

INFO = {
 "C01": ("MC_Pipeline: TLC enumerates every text <= N over 10 indicator alphabets and checks the panic-site invariants of the scanner/parser model in every state; every enumerated text and a seeded pool (corpus, mutants, soups, boundary families) is replayed through 6 input back-ends (incl. contract-asserting inputs of capacity 8/16/64/128) x 4 APIs x 4 loaders on the real code; the work bound of YWork (input operations per character) is judged by TLC, and so is the scaling of CPU time over 35 input families x 3 interfaces at two sizes 16x apart (YWork!ScaleOK: work that is not an input operation).",
         "TLC small-scope exhaustiveness; beyond the bounds sampled executions only. Model/code disagreement is reported as drift.",
         "TLA+ model checking (TLC) of scanner+parser model, behaviours replayed into the real parser; TLC-judged work bound", "7/C01"),
 "C02": ("YEvents acceptor (TLA+) is an invariant of MC_Pipeline and of MC_ParserPDA (the parser automaton fed every token sequence, bounded stack depth); every distinct abstracted event delivery of the real parser (pull and push, two back-ends) over the pool is judged by the same acceptor in TLC.",
         "The abstraction (kinds, anchor/alias ids, error flag) is exactly what the property mentions; stack depth bound of the PDA model.",
         "TLA+ model checking of the parser PDA over all token sequences + TLC trace validation of recorded event sequences", "7/C02"),
}
PENDING = "check not built yet in this revision (the TLA+ module exists only in DESIGN.md); will be claimed once its TLC configuration and conformance harness are committed"

def main():
    checks = []
    na = []
    ids = [json.loads(l)["id"] for l in open(os.path.join(V, "properties.jsonl"))]
    for i in ids:
        if i in props.CHECKS and (i in INFO or i in props.INFO):
            text, note, tech, ref = INFO.get(i) or props.INFO[i]
            checks.append({"property_id": i, "quick_cmd": "bin/check %s --tier quick" % i, "thorough_cmd": "bin/check %s --tier thorough" % i,
                           "evidence_file": "evidence/%s.json" % i, "replay_cmd_template": "bin/check %s --replay {path}" % i,
                           "engine": "tlc+vh", "level_claimed": {"category": "model_checking", "text": text, "design_ref": "DESIGN.md section " + ref},
                           "level_note": note, "technique": tech})
        else:
            na.append({"property_id": i, "reason": props.NOT_APPLICABLE.get(i, PENDING)})
    m = {"version": 1,
         "setup_cmd": "bin/check setup",
         "hooks": {"guard": "verif-hooks (cargo feature of saphyr-parser and saphyr)",
                   "enable": "harness/Cargo.toml depends on /repo/parser and /repo/saphyr with features = [\"verif-hooks\"]",
                   "baseline_off_cmd": "cd /repo && cargo test --workspace --no-fail-fast --offline",
                   "source_commits": props.HOOK_COMMITS, "add_only": True},
         "engines": [{"name": "tlc+vh", "path": "spec/ (TLA+ modules, TLC configs) + harness/ (Rust recorder 'vh') + bin/check (driver)",
                      "serves_properties": [c["property_id"] for c in checks],
                      "kind_free_text": "explicit TLA+ specification checked with TLC; bound to the code by replaying TLC-generated behaviours into the real library and by TLC validating traces recorded from it"}],
         "checks": checks, "not_applicable": na,
         "notes": "Exit codes: 0 held / 1 VIOLATION / 2 tool error. KNOWN_FINDINGS.jsonl lists recorded and fixed defects. See DESIGN.md."}
    json.dump(m, open(os.path.join(V, "MANIFEST.json"), "w"), indent=1)
    print("MANIFEST: %d checks, %d not_applicable" % (len(checks), len(na)))
main()
