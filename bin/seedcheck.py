#!/usr/bin/env python3
"""Validate one seeded change and run the checks against it.

  bin/seedcheck.py <dir with patch.diff, demo.rs, NOTES.md> <ID> <name> [--checks C03,C04] [--tier quick]

1. in a scratch worktree of /repo (removed afterwards): the patch applies, the workspace test suite
   stays green with it, the demonstration fails with it and passes without it;
2. applies the patch to /repo itself, runs the named checks (default: the property's own check),
   restores /repo;
3. stores the result under /verif/seeded/<name>/ (patch.diff, demo.rs, NOTES.md, meta.json)."""
import json, os, re, shutil, subprocess, sys, time

V = os.path.dirname(os.path.dirname(os.path.abspath(__file__)))


def sh(cmd, cwd=None, timeout=3600):
    p = subprocess.run(cmd, cwd=cwd, stdout=subprocess.PIPE, stderr=subprocess.STDOUT, text=True, timeout=timeout)
    return p.returncode, p.stdout


def main():
    src, pid, name = sys.argv[1], sys.argv[2], sys.argv[3]
    checks = [pid]
    tier = "quick"
    for i, a in enumerate(sys.argv):
        if a == "--checks":
            checks = sys.argv[i + 1].split(",")
        if a == "--tier":
            tier = sys.argv[i + 1]
    patch = os.path.join(src, "patch.diff")
    demo = os.path.join(src, "demo.rs")
    notes = open(os.path.join(src, "NOTES.md")).read() if os.path.exists(os.path.join(src, "NOTES.md")) else ""
    meta = {"property": pid, "name": name, "validated_at": time.strftime("%Y-%m-%d %H:%M:%S"), "ran": []}
    wt = "/tmp/sv-" + name
    sh(["git", "-C", "/repo", "worktree", "remove", "--force", wt])
    rc, out = sh(["git", "-C", "/repo", "worktree", "add", "-q", wt, "HEAD"])
    try:
        d = open(demo).read()
        crate = "saphyr" if re.search(r"\bsaphyr::", d) else "parser"
        m = re.search(r"((?:saphyr|parser)/tests/[A-Za-z0-9_]+\.rs)", notes)
        rel = m.group(1) if m else "%s/tests/seed_demo.rs" % crate
        tname = os.path.basename(rel)[:-3]
        pkg = "saphyr" if rel.startswith("saphyr/") else "saphyr-parser"
        shutil.copy(demo, os.path.join(wt, rel))
        # demo passes without the patch
        rc0, out0 = sh(["cargo", "test", "--offline", "-j", "8", "-p", pkg, "--test", tname], cwd=wt)
        meta["demo_passes_without_patch"] = rc0 == 0
        rc, out = sh(["git", "apply", patch], cwd=wt)
        meta["patch_applies"] = rc == 0
        if rc != 0:
            meta["apply_output"] = out[-500:]
        rc1, out1 = sh(["cargo", "test", "--offline", "-j", "8", "-p", pkg, "--test", tname], cwd=wt)
        meta["demo_fails_with_patch"] = rc1 != 0
        os.remove(os.path.join(wt, rel))
        rc2, out2 = sh(["cargo", "test", "--workspace", "--no-fail-fast", "--offline", "-j", "8"], cwd=wt)
        failed = sum(int(x) for x in re.findall(r"(\d+) failed", out2))
        passed = sum(int(x) for x in re.findall(r"test result: .*?(\d+) passed", out2))
        meta["suite_with_patch"] = {"passed": passed, "failed": failed, "rc": rc2}
        meta["ran"] += ["cargo test -p %s --test %s (without / with patch)" % (pkg, tname), "cargo test --workspace --no-fail-fast --offline (with patch)"]
        meta["demo_path"] = rel
    except Exception as e:
        meta["error"] = str(e)
    valid = meta.get("patch_applies") and meta.get("demo_passes_without_patch") and meta.get("demo_fails_with_patch") and meta.get("suite_with_patch", {}).get("failed", 1) == 0 and meta["suite_with_patch"]["rc"] == 0
    meta["valid"] = bool(valid)
    results = {}
    try:
        if valid:
            # the patch is still applied in the scratch worktree: run the checks against it (VERIF_REPO), /repo is untouched
            env = dict(os.environ)
            env["VERIF_REPO"] = wt
            for c in checks:
                t0 = time.time()
                p = subprocess.run([os.path.join(V, "bin", "check"), c, "--tier", tier], cwd=V, stdout=subprocess.PIPE, stderr=subprocess.STDOUT, text=True, timeout=7200, env=env)
                rc, out = p.returncode, p.stdout
                viol = [l for l in out.splitlines() if l.startswith("VIOLATION")]
                what = [l.strip() for l in out.splitlines() if l.strip().startswith("what:")]
                results[c] = {"exit": rc, "violations": len(viol), "first": what[:2], "wall_s": round(time.time() - t0, 1),
                              "drift": next((l for l in out.splitlines() if l.startswith("DRIFT")), "")[:200],
                              "tool_error": next((l for l in out.splitlines() if l.startswith("TOOL-ERROR")), "")[:300]}
                meta["ran"].append("bin/check %s --tier %s against a scratch worktree of /repo with the patch applied (VERIF_REPO)" % (c, tier))
    finally:
        sh(["git", "-C", "/repo", "worktree", "remove", "--force", wt])
        shutil.rmtree(wt, ignore_errors=True)
    meta["checks"] = results
    meta["caught_by"] = [c for c, r in results.items() if r["exit"] == 1]
    mm = re.search(r"(?is)(needs?|manifest|trigger)[^\n]*\n?(.{0,600})", notes)
    meta["needs_to_manifest"] = (mm.group(0)[:700] if mm else "")
    dst = os.path.join(V, "seeded", name)
    os.makedirs(dst, exist_ok=True)
    shutil.copy(patch, os.path.join(dst, "patch.diff"))
    shutil.copy(demo, os.path.join(dst, "demo.rs"))
    if notes:
        open(os.path.join(dst, "NOTES.md"), "w").write(notes)
    mp = os.path.join(dst, "meta.json")
    if os.path.exists(mp):
        old = json.load(open(mp))
        if old.get("checks") and old.get("checks") != results:
            meta["first_run"] = old.get("first_run") or {"checks": old.get("checks"), "caught_by": old.get("caught_by"), "validated_at": old.get("validated_at")}
    json.dump(meta, open(mp, "w"), indent=1)
    os.makedirs("/tmp/seedmeta", exist_ok=True)
    json.dump(meta, open("/tmp/seedmeta/%s-%d.json" % (name, int(time.time())), "w"), indent=1)
    print(json.dumps({k: meta[k] for k in ["name", "valid", "caught_by", "suite_with_patch", "demo_fails_with_patch", "demo_passes_without_patch"]}), json.dumps(results)[:600])
    return 0


if __name__ == "__main__":
    sys.exit(main())
