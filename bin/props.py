"""The checks, one function per property. Each builds the harness from /repo's working tree, lets
TLC enumerate / generate / judge, and reports through vlib.Check."""
import os, json, hashlib, shutil, glob, time, re
from vlib import *

ALPHAS = ["struct", "quote", "block", "prop", "break", "docmark", "tab", "dir", "flow", "keys"]


def spec_hash(mods):
    h = hashlib.sha1()
    for m in sorted(mods):
        with open(os.path.join(SPEC, m), "rb") as f:
            h.update(f.read())
    return h.hexdigest()[:16]


def write_cfg(name, text):
    with open(os.path.join(SPEC, name + ".cfg"), "w") as f:
        f.write(text)


def mc_pipeline(ck, alpha, n, workers=8):
    """Exhaustive MC_Pipeline run for one alphabet; TLC output is a pure function of the
    specification, so it is cached under work/ keyed by the specification's hash."""
    hs = spec_hash(["YChars.tla", "YScanner.tla", "YParser.tla", "YEvents.tla", "YPos.tla", "MC_Pipeline.tla"])
    cdir = os.path.join(WORK, "cache")
    os.makedirs(cdir, exist_ok=True)
    out = os.path.join(cdir, "mcp_%s_%d_%s.out" % (alpha, n, hs))
    meta = out + ".json"
    if os.path.exists(out) and os.path.exists(meta):
        m = json.load(open(meta))
        m["out"] = out              # (the cache directory may have been copied from elsewhere)
    else:
        cfg = "gen_MC_Pipeline_%s_%d" % (alpha, n)
        write_cfg(cfg, 'CONSTANTS\n  N = %d\n  AlphaName = "%s"\nINIT Init\nNEXT Next\nINVARIANTS PanicFree Grammar Linear MarksInText PosTrue Out\nCHECK_DEADLOCK FALSE\n' % (n, alpha))
        tmp = out + ".tmp"
        r = tlc("MC_Pipeline", cfg=cfg, workers=workers, out_path=tmp, name="mcp_%s_%d" % (alpha, n), timeout=7200, xmx="8g")
        os.remove(os.path.join(SPEC, cfg + ".cfg"))
        if r.invariant_violated:
            shutil.move(tmp, out + ".cex")
            return {"states": r.distinct, "transitions": r.states, "violated": r.invariant_violated, "out": out + ".cex"}
        shutil.move(tmp, out)
        m = {"states": r.distinct, "transitions": r.states, "violated": None, "out": out, "wall": r.wall}
        json.dump(m, open(meta, "w"))
        # entries of the same configuration computed from older versions of the modules are stale
        for f in glob.glob(os.path.join(cdir, "mcp_%s_%d_*" % (alpha, n))):
            if not f.startswith(out) and re.fullmatch(r"[0-9a-f]{16}\.out(\.json|\.cex)?", f[len(os.path.join(cdir, "mcp_%s_%d_" % (alpha, n))):]):
                try:
                    os.remove(f)
                except OSError:
                    pass
    ck.states += m["states"]
    ck.transitions += m["transitions"]
    return m


def tlc_cached(ck, module, cfg, deps, workers=8, timeout=7200, xmx="8g", keep_out=False, coverage=False):
    """Model-check a configuration whose result depends on the specification only (no data from
    /repo): cached under work/cache keyed by the hash of the modules it reads."""
    hs = spec_hash(deps + [module + ".tla"]) + hashlib.sha1(open(os.path.join(SPEC, cfg + ".cfg"), "rb").read()).hexdigest()[:8]
    cdir = os.path.join(WORK, "cache")
    os.makedirs(cdir, exist_ok=True)
    meta = os.path.join(cdir, "%s_%s_%s.json" % (module, cfg, hs))
    out = meta[:-5] + ".out"
    if os.path.exists(meta) and (not keep_out or os.path.exists(out)):
        m = json.load(open(meta))
        m["out"] = out              # (the cache directory may have been copied from elsewhere)
    else:
        r = tlc(module, cfg=cfg, workers=workers, name="%s_%s" % (module, cfg), timeout=timeout, xmx=xmx, out_path=out, coverage=coverage)
        m = {"states": r.distinct, "transitions": r.states, "violated": r.invariant_violated, "liveness_violated": r.liveness_violated, "ok": r.ok, "wall": r.wall, "out": out, "tail": r.out[-3000:]}
        if not keep_out and not r.invariant_violated and not r.liveness_violated:
            try:
                os.remove(out)
            except OSError:
                pass
        json.dump(m, open(meta, "w"))
        # entries of the same configuration computed from older versions of the modules are stale
        for f in glob.glob(os.path.join(cdir, "%s_%s_*" % (module, cfg))):
            if not f.startswith(meta[:-5]) and re.fullmatch(r"[0-9a-f]{24}\.(json|out)", f[len(os.path.join(cdir, "%s_%s_" % (module, cfg))):]):
                try:
                    os.remove(f)
                except OSError:
                    pass
    ck.states += m["states"]
    ck.transitions += m["transitions"]
    return m


PIPE_DEPS = ["YChars.tla", "YScanner.tla", "YParser.tla", "YEvents.tla"]


def pipeline_inputs(ck, n_by_alpha):
    """Run MC_Pipeline for the given alphabets, replay every behaviour on the real parser
    (spec -> impl) and return the pool files holding the enumerated texts."""
    pools = []
    for alpha, n in n_by_alpha:
        m = mc_pipeline(ck, alpha, n)
        if m["violated"]:
            # a counterexample inside the model is a lead, not a verdict: it is reported as a tool
            # problem of the specification (the model no longer satisfies its own invariants)
            raise ToolError("MC_Pipeline(%s,%d): invariant %s violated inside the model; see %s" % (alpha, n, m["violated"], m["out"]))
        pool = ck.wd("exh_%s_%d.ndjson" % (alpha, n))
        s = vh_json(["pipeline-replay", "--in", m["out"], "--pool", pool, "--origin", "exh:" + alpha, "--drift", ck.wd("drift_%s.ndjson" % alpha)])
        ck.traces += s["replayed"]
        ck.drift += s["drift"]
        for d in s["drift_samples"][:2]:
            if len(ck.drift_samples) < 5:
                ck.drift_samples.append({"text": d["t"], "model_err": d["model"]["err"], "real_err": (d["real"]["err"] or {}).get("msg") if d["real"]["err"] else None})
        for x in s["samples"][:1]:
            ck.sample({"origin": "exh:" + alpha, **x})
        pools.append(pool)
    return pools


def base_pool(ck, soups=None, mutants=None):
    out = ck.wd("pool_base.ndjson")
    a = ["pool", "--suite", SUITE, "--out", out, "--tier", ck.tier]
    if soups is not None:
        a += ["--soups", str(soups)]
    if mutants is not None:
        a += ["--mutants", str(mutants)]
    vh(a)
    return out


def cat(files, out):
    with open(out, "w") as o:
        for f in files:
            with open(f) as i:
                shutil.copyfileobj(i, o)
    return out


def alpha_plan(ck):
    if ck.tier == "thorough":
        return [(a, 5) for a in ALPHAS]
    return [(a, 4) for a in ALPHAS]


RENDER_GENS = [("Gen_Render", "Gen_Render_bfs", ["YRender.tla", "YRenderScalar.tla", "YRenderBlock.tla"]),
               ("Gen_Scalar", "Gen_Scalar_quick", ["YRenderScalar.tla"]),
               ("Gen_Block", "Gen_Block_quick", ["YRenderBlock.tla"]),
               ("Gen_Damage", "Gen_Damage_bfs", ["YRender.tla", "YRenderScalar.tla", "YRenderBlock.tla", "YDamage.tla"]),
               ("Gen_Json", "Gen_Json_bfs", ["YJson.tla"])]


def rendered_pool(ck):
    """Pool family 2 (DESIGN 7.0): every text the reference generators render (well-formed by
    construction, damaged, JSON), from the cached exhaustive configurations."""
    files = []
    for mod, cfg, deps in RENDER_GENS:
        d = (PIPE_DEPS if mod != "Gen_Json" else []) + deps
        m = tlc_cached(ck, mod, cfg, d, workers=8, keep_out=True, timeout=3 * 3600)
        out = ck.wd("rendered_%s.ndjson" % mod)
        vh(["tlc2pool", "--in", m["out"], "--out", out, "--origin", "rendered:" + mod, "--dedupe", "1"])
        files.append(out)
    # plus freshly simulated long structure tapes (seeded): shapes the short exhaustive tapes cannot reach
    sim = ck.wd("rendered_sim.out")
    r = tlc("Gen_Render", cfg="Gen_Render_sim2", workers=8, out_path=sim, name=ck.prop + "_rsim", simulate=600 if ck.tier == "quick" else 20000, depth=76, timeout=7200)
    ck.add_tlc(r)
    out = ck.wd("rendered_sim.ndjson")
    vh(["tlc2pool", "--in", sim, "--out", out, "--origin", "rendered:sim", "--dedupe", "1"])
    os.remove(sim)
    files.append(out)
    return files


def full_pool(ck, soups=None, mutants=None, rendered=False):
    files = pipeline_inputs(ck, alpha_plan(ck)) + [base_pool(ck, soups, mutants)]
    if rendered:
        files += rendered_pool(ck)
    return cat(files, ck.wd("pool.ndjson"))


def judge(ck, module, trace, name=None, timeout=3600, chunk=None, start_marker=None):
    """Judge a recorded trace with a Trace_* module in TLC. `chunk` (a number of records): judges whose
    verdict on a record does not depend on other records may be given the trace in pieces (TLC reads a
    trace file into memory whole); reject indices are mapped back to the whole file. `start_marker`: a piece may
    only begin at a record containing this text (for judges that read groups of records)."""
    nm = name or (ck.prop + "_" + module)
    if chunk:
        n = sum(1 for _ in open(trace))
        if n > chunk:
            total = TlcResult()
            total.ok = True
            part, k, off, f = 0, 0, 0, None
            pieces = []
            with open(trace) as src:
                for line in src:
                    if f is not None and k >= chunk and (start_marker is None or start_marker in line[:40]):
                        f.close()
                        f, part, off, k = None, part + 1, off + k, 0
                    if f is None:
                        pp = "%s.part%d" % (trace, part)
                        f = open(pp, "w")
                        pieces.append((pp, off))
                    f.write(line)
                    k += 1
            if f:
                f.close()
            from concurrent.futures import ThreadPoolExecutor
            def one(x):
                return tlc(module, workers=1, env={"TRACE": x[0]}, name="%s_p%d" % (nm, x[1]), timeout=timeout, deque=True)
            with ThreadPoolExecutor(max_workers=4) as ex:
                results = list(ex.map(one, pieces))
            for (pp, off), r in zip(pieces, results):
                os.remove(pp)
                if not r.ok:
                    raise ToolError("judge %s did not complete on records %d..:\n%s" % (module, off + 1, r.out[-2000:]))
                ck.add_tlc(r)
                total.judged += r.judged
                total.states += r.states
                total.distinct += r.distinct
                total.wall += r.wall
                total.rejects += [tuple([x[0] + off] + list(x[1:])) for x in r.rejects]
            return total
    r = tlc(module, workers=1, env={"TRACE": trace}, name=nm, timeout=timeout, deque=True)
    if not r.ok:
        raise ToolError("judge %s did not complete:\n%s" % (module, r.out[-2000:]))
    ck.add_tlc(r)
    return r


def pipeline_trace(ck, pool, limit, maxlen=80):
    """impl -> spec: trace validation of the scanner/parser model on pool texts beyond the exhaustive
    bounds: every event and the parser/scanner state projection after it, recorded from the real
    parser, is compared by TLC with one step of the model (Trace_Pipeline). Differences are drift."""
    out = ck.wd("ptrace.ndjson")
    s = vh_json(["ptrace", "--pool", pool, "--out", out, "--limit", str(limit), "--maxlen", str(maxlen)])
    j = judge(ck, "Trace_Pipeline", out, timeout=7200)
    ck.traces += j.judged
    ck.extra["pipeline_trace_texts"] = s["texts"]
    ck.extra["pipeline_trace_records"] = s["records"]
    if j.rejects:
        recs = read_ndjson(out)
        for rej in j.rejects[:50]:
            k = rej[0] - 1
            while k >= 0 and recs[k]["k"] != "TEXT":
                k -= 1
            ck.note_drift({"text": "".join(recs[k]["t"])[:120] if k >= 0 else "", "record": rej[0], "difference": rej[1]})
    return s


def run_recorder(ck, cmd_args, out, timeout=3600):
    """Run a vh recording command; a crash/timeout of the process is data about the code under
    test (the .cur file names the input being processed)."""
    import subprocess
    try:
        rc, so, se, dt = vh(cmd_args, timeout=timeout, check=False)
    except subprocess.TimeoutExpired:
        rc, so, se = -9, "", "timeout"
    if rc != 0:
        cur = {}
        try:
            cur = json.load(open(out + ".cur"))
        except Exception:
            pass
        return None, {"rc": rc, "cur": cur, "stderr": se[-500:]}
    lines = [l for l in so.strip().split("\n") if l.startswith("{")]
    return json.loads(lines[-1]), None


# ------------------------------------------------------------------------------------------------
def c01(ck):
    ck.rule = ("inputs = all texts <= N over 10 indicator alphabets (TLC-enumerated, model invariants checked in every state) "
               "+ suite corpus + seeded mutants/truncations + token and line soups + boundary families; each run through "
               "6 input back-ends x 4 APIs (counted input operations) and 8 loader configurations; distinct = distinct input texts")
    ck.assumptions = ["panics are caught with catch_unwind in a build with debug assertions and overflow checks",
                      "a spin is observed as the WORKCAP/EVENTCAP panic of the counting input wrapper or as a process time-out",
                      "work other than input operations is observed as CPU time (on-CPU nanoseconds of the measuring thread) at two input sizes 16x apart",
                      "stack exhaustion by deep nesting is owned by C11 (its inputs are not in this pool)"]
    pool = full_pool(ck)
    pipeline_trace(ck, pool, 3000 if ck.tier == "quick" else 100000, maxlen=80 if ck.tier == "quick" else 200)
    out = ck.wd("c01.ndjson")
    s, crash = run_recorder(ck, ["c01", "--pool", pool, "--out", out], out, timeout=5400)
    if crash:
        key = "crash:" + json.dumps(crash["cur"].get("t", ""))
        ck.violation(key, "the process running the real code died or timed out (rc=%s) on cfg %s" % (crash["rc"], crash["cur"].get("cfg")), crash)
        return
    ck.evaluations += s["runs"]
    ck.distinct += len(set(l for l in open(pool)))
    recs = read_ndjson(out)
    # the rendered family (well-formed by construction, damaged, JSON): reduced configuration matrix in the quick tier
    rp = cat(rendered_pool(ck), ck.wd("pool_rendered.ndjson"))
    out2 = ck.wd("c01r.ndjson")
    s2, crash = run_recorder(ck, ["c01", "--pool", rp, "--out", out2] + (["--matrix", "tiny"] if ck.tier == "quick" else []), out2, timeout=5400)
    if crash:
        key = "crash:" + json.dumps(crash["cur"].get("t", ""))
        ck.violation(key, "the process running the real code died or timed out (rc=%s) on cfg %s" % (crash["rc"], crash["cur"].get("cfg")), crash)
        return
    ck.evaluations += s2["runs"]
    ck.distinct += len(set(l for l in open(rp)))
    recs2 = read_ndjson(out2)
    byl = {}
    for r in recs + recs2:
        if r["k"] == "WORK" and (r["len"] not in byl or byl[r["len"]]["work"] < r["work"]):
            byl[r["len"]] = r
    recs = [r for r in recs + recs2 if r["k"] != "WORK"] + [byl[k] for k in sorted(byl)]
    s["worst_ratio"] = max(s["worst_ratio"], s2["worst_ratio"])
    for r in recs:
        if r["k"] == "BAD":
            ck.violation("panic:" + json.dumps(r["t"]) + ":" + r["cfg"], "real code panicked/spun on %r via %s: %s" % (r["t"][:80], r["cfg"], r["panic"][:200]), r)
    work = [r for r in recs if r["k"] == "WORK"]
    # scaling of CPU time over 37 input families x 3 interfaces (work that is not an input operation)
    sf = ck.wd("scale.ndjson")
    sc = vh_json(["scale", "--out", sf] + (["--base", "50000"] if ck.tier == "thorough" else []), timeout=3600)
    scale = read_ndjson(sf)
    ck.evaluations += 5 * len(scale)
    ck.extra["scaling_scenarios"] = len(scale)
    ck.extra["worst_scaling"] = sc["worst"]
    # what the loaders build out of aliases, in the model: as the loader is, the depth of the loaded tree is not bounded
    # (TLC's counterexample is the alias chain of the scaling scenarios); with the withdrawn repair it would be
    na = tlc_cached(ck, "YNestAlias", "MC_NestAlias", [], workers=2)
    nl = tlc_cached(ck, "YNestAlias", "MC_NestAlias_limit", [], workers=4)
    if nl["violated"] or not nl["ok"]:
        raise ToolError("MC_NestAlias_limit: %s" % nl["tail"][-500:])
    chain_died = any(r["shape"] == "alias-chain" and r["api"] == "load" and (r["died"] or r["timed_out"]) for r in scale)
    ck.extra["alias_composition"] = {"model_as_is": "TreeBounded violated" if na["violated"] else "TreeBounded holds", "model_with_expansion_limit": "TreeBounded holds",
                                     "real_alias_chain_load": "process died" if chain_died else "survived"}
    if bool(na["violated"]) != chain_died:
        ck.note_drift({"model": "YNestAlias (ExpLimit = 0) says the depth of loaded trees is %s" % ("unbounded" if na["violated"] else "bounded"), "real": "the alias-chain scenario %s" % ("died" if chain_died else "survived")})
    work += scale
    wf = ck.wd("work.ndjson")
    write_ndjson(wf, work)
    j = judge(ck, "Trace_Work", wf)
    noisy = []
    for rej in j.rejects:
        r = work[rej[0] - 1]
        if r["k"] == "SCALE" and not r["died"] and not r["timed_out"]:
            # a verdict that rests on a measured time is confirmed before it is reported: the family is measured again three
            # times, one scenario at a time (noise only ever adds time); it is a violation only if every measurement is rejected
            confirmed = True
            for k in range(3):
                cf = ck.wd("scale_confirm.ndjson")
                vh_json(["scale", "--out", cf, "--shapes", r["shape"], "--workers", "1"] + (["--base", "50000"] if ck.tier == "thorough" else []), timeout=1800)
                again = [x for x in read_ndjson(cf) if x["api"] == r["api"]]
                jf = ck.wd("scale_confirm_work.ndjson")
                write_ndjson(jf, again)
                if not judge(ck, "Trace_Work", jf, name="scale_confirm").rejects:
                    confirmed = False
                    break
            if not confirmed:
                noisy.append({"shape": r["shape"], "api": r["api"], "t1us": r["t1us"], "t2us": r["t2us"]})
                continue
        if r["k"] == "SCALE":
            ck.violation("scale:%s:%s" % (r["shape"], r["api"]), "input family %s through %s: %d characters took %d us of CPU time, %d characters %s — %s" % (
                r["shape"], r["api"], r["len1"], r["t1us"], r["len2"], ("more than %d ms (stopped)" % r["limit_ms"]) if r["timed_out"] else ("%d us" % r["t2us"]), rej[1]), r)
        else:
            ck.violation("work:" + json.dumps(r["t"]), "input of length %d needed %d input operations (bound %s): %s" % (r["len"], r["work"], "64(len+1)+256", rej[1]), r)
    ck.extra["scaling_measurements_not_confirmed"] = noisy
    work = [r for r in work if r["k"] == "WORK"]
    ck.extra["worst_ops_per_char"] = round(s["worst_ratio"], 2)
    ck.extra["lengths_judged"] = len(work)
    ck.exhaustive = False
    ck.sample({"text": s["worst_text"], "ops_per_char": s["worst_ratio"]})
    for r in work[-2:]:
        ck.sample({"len": r["len"], "work": r["work"], "cfg": r["cfg"]})


def c02(ck):
    ck.rule = ("every pool input x {str, buffered} x {pull, push}: the delivered event sequence abstracted to (kind, anchor id / alias id, error flag) "
               "is judged by the YEvents acceptor in TLC; distinct = distinct abstracted sequences (exact for this property)")
    ck.assumptions = ["the abstraction (kinds, ids, error flag) is everything C02 depends on"]
    # (i) the push-down automaton fed every token sequence (bounded stack depth)
    m = tlc_cached(ck, "MC_ParserPDA", "MC_ParserPDA" if ck.tier == "thorough" else "MC_ParserPDA_quick", PIPE_DEPS, workers=12 if ck.tier == "thorough" else 8)
    if m["violated"]:
        raise ToolError("MC_ParserPDA: invariant %s violated inside the model; see %s" % (m["violated"], m["out"]))
    ck.extra["pda_states"] = m["states"]
    # (ii)+(iii) scanner+parser model over all small texts, replayed; pool judged by the acceptor
    pool = full_pool(ck, rendered=True)
    pipeline_trace(ck, pool, 1500 if ck.tier == "quick" else 30000)
    out = ck.wd("c02.ndjson")
    s, crash = run_recorder(ck, ["c02", "--pool", pool, "--out", out], out)
    if crash:
        raise ToolError("recorder died (C01 owns crashes): %s" % crash)
    ck.evaluations += s["runs"]
    ck.distinct += s["distinct"]
    j = judge(ck, "Trace_Events", out)
    recs = read_ndjson(out)
    ck.traces += j.judged
    for rej in j.rejects:
        r = recs[rej[0] - 1]
        ck.violation("seq:" + json.dumps(r["t"]) + ":" + r["cfg"], "delivered events are not a well-nested sentence (%s) for %r via %s" % (rej[1], r["t"][:80], r["cfg"]), r)
    for r in recs[:2] + recs[-1:]:
        ck.sample({"text": r["t"][:80], "cfg": r["cfg"], "end": r["end"], "kinds": "".join(e["k"][0] + e["k"][-1] for e in r["evs"])[:120]})


CHECKS = {"C01": c01, "C02": c02}
INFO = {}
NOT_APPLICABLE = {}
HOOK_COMMITS = ["8766e8b", "b654880"]


def _load_plugins():
    """bin/checks/cNN.py: ID = "CNN"; def run(ck); INFO = (level text, level note, technique, design ref)"""
    import importlib.util
    d = os.path.join(os.path.dirname(os.path.abspath(__file__)), "checks")
    for f in sorted(glob.glob(os.path.join(d, "c*.py"))):
        spec = importlib.util.spec_from_file_location("checks_" + os.path.basename(f)[:-3], f)
        m = importlib.util.module_from_spec(spec)
        spec.loader.exec_module(m)
        CHECKS[m.ID] = m.run
        INFO[m.ID] = m.INFO
        if hasattr(m, "selftest"):
            SELFTESTS.append(m.selftest)


SELFTESTS = []
_load_plugins()


# ------------------------------------------------------------------------------------------------
def all_modules():
    return sorted(os.path.basename(p)[:-4] for p in glob.glob(os.path.join(SPEC, "*.tla")))


def sany_all():
    for m in all_modules():
        sany(m)
    print("SANY: %d modules parse" % len(all_modules()))
    return 0


def setup():
    build_harness()
    sany_all()
    return selftest()


def selftest():
    """Demonstrate that the judges are bound to what they judge: corrupt recorded data and require
    rejection."""
    os.makedirs(os.path.join(WORK, "selftest"), exist_ok=True)
    t = os.path.join(WORK, "selftest", "ev.ndjson")
    good = {"k": "SEQ", "evs": [{"k": k, "aid": 0} for k in ["StreamStart", "DocumentStart", "MappingStart", "Scalar", "Scalar", "MappingEnd", "DocumentEnd", "StreamEnd"]], "end": "ok"}
    bad1 = json.loads(json.dumps(good)); del bad1["evs"][4]          # odd number of nodes in a mapping
    bad2 = json.loads(json.dumps(good)); bad2["evs"] = bad2["evs"][:-2]  # no error but incomplete
    bad3 = json.loads(json.dumps(good)); bad3["evs"][3] = {"k": "Alias", "aid": 3}  # alias never handed out
    write_ndjson(t, [good, bad1, bad2, bad3])
    r = tlc("Trace_Events", workers=1, env={"TRACE": t}, name="selftest_events")
    got = sorted(x[0] for x in r.rejects)
    if got != [2, 3, 4]:
        print("SELFTEST FAILED: Trace_Events rejected %s, expected [2,3,4]" % got)
        return 2
    # binding of the trace specification: corrupt one recorded state field / drop one event -> rejected
    pool = os.path.join(WORK, "selftest", "pool.ndjson")
    write_ndjson(pool, [{"o": "seed", "t": "a: [b, c]\n- x\n"}, {"o": "seed", "t": "k: |\n  t\n"}])
    tr = os.path.join(WORK, "selftest", "pt.ndjson")
    vh_json(["ptrace", "--pool", pool, "--out", tr, "--limit", "2"])
    recs = read_ndjson(tr)
    r = tlc("Trace_Pipeline", workers=1, env={"TRACE": tr}, name="selftest_pt0", deque=True)
    if r.rejects:
        print("SELFTEST FAILED: Trace_Pipeline rejects an unmodified trace", r.rejects)
        return 2
    evs = [i for i, x in enumerate(recs) if x["k"] == "EV"]
    c1 = json.loads(json.dumps(recs)); c1[evs[3]]["st"]["scanner"]["indent"] += 1
    c2 = json.loads(json.dumps(recs)); del c2[evs[2]]
    for name, c in [("field", c1), ("dropped", c2)]:
        write_ndjson(tr, c)
        r = tlc("Trace_Pipeline", workers=1, env={"TRACE": tr}, name="selftest_pt_" + name, deque=True)
        if not r.rejects:
            print("SELFTEST FAILED: Trace_Pipeline accepts a corrupted trace (%s)" % name)
            return 2
    for st in SELFTESTS:
        rc = st()
        if rc != 0:
            return rc
    print("selftest ok")
    return 0


def replay(prop, path):
    d = json.load(open(path))
    print(json.dumps(d, indent=1, ensure_ascii=False)[:4000])
    print("re-run: bin/check %s --tier quick (the key above identifies the case)" % prop)
    return 0
