"""C09 -- emit then load returns the same tree; re-emission reproduces the text.

spec -> impl: MC_Emitter (TLC) enumerates value trees -- every string over the property's alphabet
in the four positions, spines of nested collections around boundary leaves, tape-built trees --
and prints, per tree and setting, the text the implementation-shaped model YEmitter predicts
(drift-only). The outcome the specification assigns to every case is the statement of C09; `vh
c09-replay` runs the real emitter + loader + emitter and compares exactly; Trace_RoundTrip (TLC)
judges the recorded executions. impl -> spec: `vh c09-random` records seeded random Unicode /
YAML-token strings, boundary lengths and random trees; Trace_RoundTrip judges every record."""
import os, json
import vlib
from vlib import *
import props

ID = "C09"
INFO = ("MC_Emitter: TLC enumerates every string <= N over the 20-symbol alphabet (+ type-like words, + a non-ASCII alphabet) in root / sequence item / mapping key / mapping value position, "
        "spines of <= D nested collections (incl. complex keys) around 90 boundary leaves, and tape-built trees (BFS + simulation); checks the lemma NeedQuotes(s) <= ~PlainSafe(s, pos) "
        "(reference YPlainSafe vs. the decision list of YEmitter) and the layout skeleton in-model; every tree x {compact} x {multiline_strings} is emitted, reloaded and re-emitted by the real library "
        "and compared with the outcome the specification assigns (same tree, one document, same text); Trace_RoundTrip (TLC) judges the recorded executions, incl. seeded random Unicode strings, boundary lengths and random trees.",
        "Small-scope exhaustiveness for strings (length 3 quick / 4 thorough); trees and long strings are sampled. Well-formedness of the emitted text is established by the library's own loader "
        "(no error, one document) plus the printable-character rule of YAML 5.1; floats are symbolic names mapped to f64 by Rust and compared by bit pattern.",
        "TLA+ model checking (TLC) as generator with in-model lemma; behaviours replayed into the real emitter/loader; TLC trace validation of recorded round trips", "7/C09")

DEPS = ["YChars.tla", "YEmitter.tla", "YPlainSafe.tla"]
WORKERS = 6


def _first_diff(a, b):
    """Diagnosis only (for the key of a case without a single scalar under test): the first scalar
    of the original tree whose counterpart in the reloaded tree differs; None if the shapes differ."""
    if not isinstance(b, dict) or a.get("t") != b.get("t"):
        return a if a.get("t") not in ("seq", "map") else None
    if a["t"] == "seq":
        if len(a["v"]) != len(b["v"]):
            return None
        for x, y in zip(a["v"], b["v"]):
            if x != y:
                return _first_diff(x, y)
        return None
    if a["t"] == "map":
        if len(a["v"]) != len(b["v"]):
            return None
        for (k1, v1), (k2, v2) in zip(a["v"], b["v"]):
            if k1 != k2:
                return _first_diff(k1, k2)
            if v1 != v2:
                return _first_diff(v1, v2)
        return None
    return a if a != b else None


def _key(r, reason):
    """Canonical key of a failing case: class prefix, settings, position, the scalar under test (or,
    when there is no single scalar, the first scalar that differs / the whole tree)."""
    f = r.get("focus") or {"t": "none"}
    what = f if f.get("t") != "none" else (_first_diff(r["tree"], r["doc"]) or r["tree"])
    return "%s:%s:%s:%s" % ("np" if reason == "non-printable-output" else "rt", r["cfg"], r["pos"], json.dumps(what, ensure_ascii=False, sort_keys=True))


def _judge(ck, trace, name, recs_out=None):
    """Judge one NDJSON trace with Trace_RoundTrip; report every rejected record."""
    recs = read_ndjson(trace)
    if not recs:
        return 0
    j = props.judge(ck, "Trace_RoundTrip", trace, name="C09_" + name, timeout=3600)
    if j.judged != len(recs):
        raise ToolError("Trace_RoundTrip judged %d of %d records of %s" % (j.judged, len(recs), trace))
    ck.traces += j.judged
    if not hasattr(ck, "c09_keys"):
        ck.c09_keys = set()
    seen = ck.c09_keys
    for rej in j.rejects:
        r = recs[rej[0] - 1]
        reason = rej[1]
        key = _key(r, reason)
        by = ck.extra.setdefault("rejected_by_clause", {})
        by[reason] = by.get(reason, 0) + 1
        if key in seen:
            continue
        seen.add(key)
        if len(ck.violations) >= 2000 and not any(vlib.known_match(k, key) for k in ck.known):
            # enough replay material: the remaining violating cases are only counted
            ck.extra["violating_cases_not_listed"] = ck.extra.get("violating_cases_not_listed", 0) + 1
            continue
        doc = json.dumps(r["doc"], ensure_ascii=False)
        ck.violation(key,
                     "%s [%s, %s, %s]: emitted %s; reload: %s, %d document(s), tree %s; second text %s" % (
                         reason, r["origin"], r["pos"], r["cfg"], json.dumps(r["text"], ensure_ascii=False)[:120], r["load"][:80], r["ndocs"],
                         "equal" if r["doc"] == r["tree"] else doc[:120], "equal" if r["text2"] == r["text"] else json.dumps(r["text2"], ensure_ascii=False)[:80]),
                     {"record": r, "rerun": "work/target/verif/vh c09-one --tree '<record.tree as JSON>'   # prints the four settings"})
    return len(j.rejects)


def _model_part(ck, cfg, sample, simulate=None):
    """One MC_Emitter configuration: TLC (cached: depends on the specification only), replay on the
    real code, judge the recorded executions."""
    if simulate:
        out = ck.wd("tlc_%s.out" % cfg)
        r = tlc("MC_Emitter", cfg=cfg, workers=WORKERS, simulate=simulate, depth=40, out_path=out, name="C09_" + cfg, timeout=3600)
        if r.invariant_violated:
            raise ToolError("MC_Emitter/%s: invariant %s violated inside the model" % (cfg, r.invariant_violated))
        ck.add_tlc(r)
    else:
        m = props.tlc_cached(ck, "MC_Emitter", cfg, DEPS, workers=WORKERS, keep_out=True, timeout=7200)
        if m["violated"] or not m.get("ok"):
            # a counterexample inside the model (layout skeleton) is a problem of the specification
            raise ToolError("MC_Emitter/%s: model-internal invariant %s violated or run incomplete; see %s" % (cfg, m["violated"], m["out"]))
        out = m["out"]
    trace = ck.wd("rt_%s.ndjson" % cfg)
    s = vh_json(["c09-replay", "--in", out, "--out", trace, "--sample", str(sample)], timeout=3600)
    if s["lines"] == 0:
        raise ToolError("MC_Emitter/%s generated no behaviour" % cfg)
    ck.evaluations += s["runs"]
    ck.traces += s["runs"]
    ck.distinct += s["distinct_texts"]
    ck.drift += s["drift"]
    for d in s["drift_samples"][:2]:
        if len(ck.drift_samples) < 5:
            ck.drift_samples.append({"cfg": cfg, "settings": d["cfg"], "pos": d["pos"], "tree": d["tree"], "model_text": d["model_text"], "real_text": d["real_text"]})
    ex = ck.extra.setdefault("parts", {})
    ex[cfg] = {"trees": s["lines"], "runs": s["runs"], "as_specified": s["agree"], "differing": s["differ"], "judged": s["written"],
               "lemma_leads": s["extra"]["lemma_leads"], "lemma_leads_pinned_decision_list": s["extra"]["lemma_leads_pinned"], "styles": s["extra"]["styles"]}
    for x in s["samples"][-2:]:
        ck.sample({"part": cfg, **x}, limit=8)
    _judge(ck, trace, cfg)
    return s


def run(ck):
    thorough = ck.tier == "thorough"
    ck.rule = ("cases = (value tree, compact, multiline_strings); trees: every string of <= %d symbols over {a b 1 0 . - + : # , [ ] { } ' \" \\ SP LF TAB} (+ words null true ~ 0x 0o .inf at <= 3; + a non-ASCII/control alphabet at <= 3) "
               "in root / sequence item / mapping key / mapping value position, spines of <= %d nested collections around 90 leaves, tape-built trees (BFS <= %d choices + simulation), seeded random Unicode / YAML-token strings, "
               "boundary lengths (15..2050) and random trees; each case is emitted, reloaded, re-emitted by the real library. Pre-filter (exact): a case whose recorded outcome is field-by-field identical to the outcome the "
               "specification assigns (emit ok, load ok, one document, projected document = projected tree, second text = first text, text pure printable ASCII) is counted and one in K of them is judged; every other case is judged by Trace_RoundTrip. "
               "distinct = distinct (settings, emitted text) pairs, measured") % (4 if thorough else 3, 5 if thorough else 3, 6 if thorough else 5)
    ck.assumptions = ["well-formedness of the emitted text = the library's own loader accepts it as exactly one document + every character is in YAML's printable set (5.1); over-acceptance of the loader is the business of C05/C06",
                      "floats are symbolic names in TLC (1.0, -0.0, 0.1, 1e16, 123456789.125, -2.5, 1e300, 5e-324) and the non-finite inf, -inf, NaN, mapped to f64 by Rust's parse and compared by bit pattern (NaN = NaN)",
                      "trees contain resolved values only (no Representation / Alias / BadValue), mapping keys unique",
                      "the text predicted by YEmitter is drift-only; the verdict is the round trip itself",
                      "YEmitter models the REPAIRED emitter (fixes/C09a..C09e applied)"]
    parts = [("MC_Emitter_words3", 5), ("MC_Emitter_lines5", 5), ("MC_Emitter_ext3", 1), ("MC_Emitter_spines3", 5), ("MC_Emitter_tapes5", 2)]
    if thorough:
        parts = [("MC_Emitter_base4", 40), ("MC_Emitter_words3", 5), ("MC_Emitter_lines5", 5), ("MC_Emitter_ext3", 1), ("MC_Emitter_spines5", 40), ("MC_Emitter_tapes6", 4)]
    for cfg, k in parts:
        _model_part(ck, cfg, k)
    _model_part(ck, "MC_Emitter_tapesim", 8 if thorough else 4, simulate=6000 if thorough else 600)
    # impl -> spec: random strings / boundary lengths / random trees, every record judged
    n, trees = (60000, 20000) if thorough else (4000, 1500)
    rnd = ck.wd("rt_random.ndjson")
    s, crash = props.run_recorder(ck, ["c09-random", "--n", str(n), "--trees", str(trees), "--out", rnd, "--sample", "6" if thorough else "1"], rnd, timeout=3600)
    if crash:
        raise ToolError("c09-random died: %s" % crash)
    ck.evaluations += s["runs"]
    ck.distinct += s["distinct_texts"]
    ck.extra["parts"]["random"] = {"runs": s["runs"], "as_specified": s["agree"], "differing": s["differ"], "judged": s["written"], "strings": n, "trees": trees}
    for x in s["samples"][-2:]:
        ck.sample({"part": "random", **x}, limit=8)
    # judge in chunks (the judge holds the trace in memory)
    recs_n = 0
    chunk, idx = [], 0
    with open(rnd) as f:
        for line in f:
            chunk.append(line)
            if len(chunk) >= 120000:
                p = ck.wd("rt_random_%d.ndjson" % idx)
                open(p, "w").writelines(chunk)
                _judge(ck, p, "random_%d" % idx)
                os.remove(p)
                recs_n += len(chunk)
                chunk, idx = [], idx + 1
    if chunk:
        p = ck.wd("rt_random_%d.ndjson" % idx)
        open(p, "w").writelines(chunk)
        _judge(ck, p, "random_%d" % idx)
        os.remove(p)
    ck.extra["lemma"] = "NeedQuotes(s) <= ~PlainSafe(s, pos): %d counterexample(s) in-model for the repaired decision list, %d for the pinned one (0o.., +.inf, byte order mark)" % (
        sum(p.get("lemma_leads", 0) for p in ck.extra["parts"].values()), sum(p.get("lemma_leads_pinned_decision_list", 0) for p in ck.extra["parts"].values()))
    # list the violating cases class by class (round robin over judge clause x part x scalar type), so
    # that the replay files written first show every kind of failure
    groups = {}
    for v in ck.violations:
        r = v[2]["record"]
        groups.setdefault((v[1].split(" ", 1)[0], r["origin"], (r.get("focus") or {}).get("t"), r["multiline"]), []).append(v)
    order = []
    while any(groups.values()):
        for g in list(groups):
            if groups[g]:
                order.append(groups[g].pop(0))
    ck.violations = order
    ck.exhaustive = False


def selftest():
    """Corrupt one recorded field at a time; the judge must reject exactly the corrupted records."""
    d = os.path.join(WORK, "selftest")
    os.makedirs(d, exist_ok=True)
    t = os.path.join(d, "c09.ndjson")
    tree = {"t": "map", "v": [[{"t": "str", "v": "k"}, {"t": "seq", "v": [{"t": "int", "v": "1"}, {"t": "float", "bits": "7ff8000000000000", "class": "nan", "disp": "NaN"}, {"t": "null"}, {"t": "bool", "v": True}]}]]}
    good = {"k": "RT", "compact": True, "multiline": False, "cfg": "c1m0", "origin": "selftest", "pos": "tree", "focus": {"t": "none"}, "tree": tree,
            "emit": "ok", "text": "---\nk:\n  - 1\n  - .nan\n  - ~\n  - true", "load": "ok", "ndocs": 1, "doc": tree, "emit2": "ok", "text2": "---\nk:\n  - 1\n  - .nan\n  - ~\n  - true", "odd": []}
    def mut(f):
        r = json.loads(json.dumps(good))
        f(r)
        return r
    bad = [mut(lambda r: r["doc"]["v"][0][1]["v"].__setitem__(0, {"t": "str", "v": "1"})),          # type of a scalar changed
           mut(lambda r: r["doc"]["v"][0][1]["v"].reverse()),                                         # order changed
           mut(lambda r: r.__setitem__("text2", r["text2"] + "\n")),                                  # second text differs
           mut(lambda r: r.__setitem__("ndocs", 2)),                                                  # two documents
           mut(lambda r: r.__setitem__("load", "err: x")),                                            # reload failed
           mut(lambda r: r.__setitem__("odd", [7])),                                                  # BEL in the output
           mut(lambda r: r["doc"]["v"][0][1]["v"][1].__setitem__("bits", "7ff0000000000000")),       # float value changed
           mut(lambda r: r["doc"]["v"][0].__setitem__(0, {"t": "repr", "v": "k", "style": "plain", "tag": []}))]  # unresolved node
    ok2 = mut(lambda r: r.__setitem__("odd", [9, 233, 128512]))                                        # printable non-ASCII is fine
    write_ndjson(t, [good] + bad + [ok2])
    r = tlc("Trace_RoundTrip", workers=1, env={"TRACE": t}, name="selftest_c09", deque=True)
    got = sorted(x[0] for x in r.rejects)
    want = list(range(2, 2 + len(bad)))
    if got != want or r.judged != len(bad) + 2:
        print("SELFTEST FAILED: Trace_RoundTrip rejected %s (judged %d), expected %s" % (got, r.judged, want))
        return 2
    return 0
