"""C08 -- scalar typing follows the core schema and never corrupts text.

spec -> impl : MC_Schema (TLC) enumerates every text <= N over alphabets of schema characters, checks
               the theorems relating YCoreSchema (reference), the model of Rust's std parsers and YSchema
               (the code's decision lists), and prints one REPLAY line per text holding the outcomes the
               property allows and the outcome the model predicts; `vh c08-replay` calls the real entry
               points (5 styles x 10 tags x borrowed/owned/node/loader/load_from_str) and compares.
impl -> spec : `vh c08-record` runs boundary texts (2^63 neighbourhood in three radices, long digit
               strings, letter-case variants, random longer texts) and Trace_Schema (TLC) judges what
               came back with the YCoreSchema predicates."""
import os, json
from vlib import *

ID = "C08"
INFO = (
    "YCoreSchema states the YAML 1.2.2 section 10.3.2 regular expressions, exact integer values (digit-sequence arithmetic) and, per (text, style, tag class), "
    "the set of outcomes the property allows; YSchema transcribes Scalar::parse_from_cow / parse_from_cow_and_metadata / parse_f64 over models of Rust's "
    "i64/f64/bool parsers. MC_Schema (TLC) enumerates every text <= 4 (quick: three 14..17-symbol alphabets, <= 3 over the full 43-symbol alphabet; thorough: "
    "<= 4 over the full alphabet, <= 5 over the three reduced ones), checks the theorems relating the modules in every state and prints one REPLAY line per "
    "text; each line is replayed on the real library through 5 styles x 10 tags x up to 19 entry points (borrowed/owned Scalar, ScalarOwned, node constructors, "
    "YamlLoader::on_event, load_from_str) and compared with the allowed outcomes (violation) and the model's prediction (drift). Boundary and random longer "
    "texts are recorded from the real library and judged by Trace_Schema in TLC.",
    "Small-scope exhaustiveness (length <= 4/5) plus sampled longer texts. Float VALUES are compared with Rust's own parse of the decimal text the "
    "specification names (TLC has no floating point); integer values are exact.",
    "TLA+ reference regexes + implementation-shaped decision lists, TLC enumeration replayed into the real scalar resolution, TLC-judged boundary traces",
    "7/C08")

DEPS = ["YChars.tla", "YDigits.tla", "YCoreSchema.tla", "YSchema.tla"]
SIZES = {"full": 43, "num": 16, "word": 17, "inf": 14}
PLAN = {"quick": [("num", 4), ("word", 4), ("inf", 4), ("full", 3)],
        "thorough": [("full", 4), ("num", 5), ("word", 5), ("inf", 5)]}
THEOREMS = "TableDisjoint DecIntIsFloatSyntax JsonCovered DigitsNative RustDecIsCore RustNumIsCore SamePaths ModelSound PinnedDeviations StylesAlike"


def _cfg(alpha, n, fixed):
    import props
    name = "gen_MC_Schema_%s_%d_%s" % (alpha, n, "fixed" if fixed else "pinned")
    props.write_cfg(name, 'CONSTANTS\n  N = %d\n  AlphaName = "%s"\n  Fixed = %s\nINIT Init\nNEXT Next\nINVARIANT Inv\nCHECK_DEADLOCK FALSE\n' % (n, alpha, "TRUE" if fixed else "FALSE"))
    return name


def _mc(ck, alpha, n, fixed):
    """Cached exhaustive MC_Schema run (its output depends on the specification only)."""
    import props
    cfg = _cfg(alpha, n, fixed)
    try:
        m = props.tlc_cached(ck, "MC_Schema", cfg, DEPS, workers=6, timeout=5400, xmx="6g", keep_out=True)
    finally:
        try:
            os.remove(os.path.join(SPEC, cfg + ".cfg"))
        except OSError:
            pass
    if m["violated"] or not m["ok"]:
        # a failed theorem inside the specification is a defect of the specification (a lead at
        # most), never a verdict about the code
        why = [l for l in m["tail"].splitlines() if "THEOREM-FAILS" in l][:3]
        raise ToolError("MC_Schema(%s,%d,%s): a theorem fails inside the model %s; see %s" % (alpha, n, "fixed" if fixed else "pinned", why, m["out"]))
    expect = sum(SIZES[alpha] ** k for k in range(n + 1))
    if m["states"] != expect:
        raise ToolError("MC_Schema(%s,%d): %d states, expected %d texts" % (alpha, n, m["states"], expect))
    return m


def _key(b):
    if b["kind"] == "owned":
        return "owned:%s:%s:%s" % (b["style"], b["tag"] or "none", b["t"])
    if b["kind"] == "panic":
        return "panic:%s:%s:%s" % (b["style"], b["tag"] or "none", b["t"])
    if b["style"] != "plain":
        return "style:%s:%s:%s" % (b["style"], b["tag"] or "none", b["t"])
    if b["tag"]:
        return "tag:%s:%s" % (b["tag"], b["t"])
    return "untagged:" + b["t"]


def _what(b):
    cfgs = "%s scalar %r%s" % (b["style"], b["t"], (" tagged " + b["tag"]) if b["tag"] else " (no tag)")
    if b["kind"] == "owned":
        return "%s: %s returned %s, but %s" % (cfgs, b["api"], b["got"], b["allowed"])
    if b["kind"] == "panic":
        return "%s: the real code panicked: %s" % (cfgs, b["got"])
    return "%s: %s returned %s; the core schema / property allows only {%s}" % (cfgs, b["api"], b["got"], b["allowed"])


def _shape(b):
    """Presentation only: cases of one family (same call, same text up to digits / letter case)
    are reported after one representative of every family."""
    import re
    t = b["t"]
    t = ("0x" + re.sub(r"[0-9a-fA-F]+", "H", t[2:])) if t.startswith("0x") else re.sub(r"[0-9]+", "0", t)
    return (b["kind"], b["style"] != "plain", b["tag"], t.lower())


class _Found:
    def __init__(self):
        self.items = []

    def add(self, b, what, replay):
        self.items.append((_shape(b), _key(b), what, replay))

    def report(self, ck):
        seen = set()
        rest = []
        for sh, key, what, replay in self.items:
            if sh in seen:
                rest.append((key, what, replay))
            else:
                seen.add(sh)
                ck.violation(key, what, replay)
        for key, what, replay in rest:
            ck.violation(key, what, replay)
        ck.extra["violation_families"] = len(seen)


def _replay(ck, found, m, name, extra=None):
    out = ck.wd("replay_%s.ndjson" % name)
    s = vh_json(["c08-replay", "--in", m["out"], "--out", out] + (extra or []), timeout=5400)
    ck.traces += s["replayed"]
    ck.evaluations += s["evals"]
    ck.extra["load_from_str_calls"] = ck.extra.get("load_from_str_calls", 0) + s["loads"]
    recs = read_ndjson(out)
    for r in recs:
        if r["k"] == "MALFORMED":
            raise ToolError("malformed REPLAY record for %r" % r["t"])
        if r["k"] == "BAD":
            found.add(r, _what(r), r)
        elif r["k"] == "DRIFT":
            ck.note_drift({"text": r["t"], "style": r["style"], "tag": r["tag"], "real": r["got"], "model": r["model"]})
    # note_drift counted one per written line; the recorder counts every drifting cell
    ck.drift += max(0, s["drift"] - sum(1 for r in recs if r["k"] == "DRIFT"))
    if s["bad"] and not any(r["k"] == "BAD" for r in recs):
        raise ToolError("replay reported %d bad results but wrote none" % s["bad"])
    return s


def _judge(ck, trace, name):
    import props
    j = props.judge(ck, "Trace_Schema", trace, name=name, timeout=3600)
    recs = read_ndjson(trace)
    if j.judged != len(recs):
        raise ToolError("Trace_Schema judged %d of %d records" % (j.judged, len(recs)))
    ck.traces += j.judged
    return j, recs


def run(ck):
    ck.rule = ("texts = every string <= N over alphabets of core-schema characters (TLC-enumerated; per tier: %s) + seeded boundary families (powers of two +-3 in "
               "decimal/0x/0o with sign and prefix variants, 15..42-digit strings, all letter-case variants of null/true/false/inf/nan/infinity with sign and dot "
               "prefixes, random texts of length 5..13 over the 43-symbol alphabet, random concatenations of literal fragments); each text x 5 styles x 10 tags "
               "(7 tag classes) x up to 19 entry points; distinct_nontrivial = distinct texts that are core-schema literals (RefType # str) among the enumerated ones "
               "+ distinct boundary texts judged" % json.dumps(PLAN))
    ck.assumptions = [
        "float VALUES are not computed by TLC: the specification names the decimal text whose value is meant and the harness compares the library's f64 bit pattern "
        "with Rust's own `parse::<f64>()` of that text (numeric accuracy of Rust's float parsing is trusted)",
        "a float obtained from a 0x/0o integer under !!float is value-checked by the exhaustive replay only (the trace judge accepts its type); the pinned and the "
        "repaired code return BadValue there",
        "quoted/block scalars under a core-schema tag: the property text speaks of plain scalars, so an identical string, a value allowed for the plain scalar, or "
        "BadValue are all accepted there",
        "load_from_str is exercised only for documents which the real parser presents as exactly one scalar with the intended text, style and tag (binding condition)",
        "YSchema models the tree with fixes/C08.patch applied (Fixed = TRUE); on the pinned tree the check reports the violations and, in addition, model/code drift",
    ]
    build_harness()
    import props
    for mod in ["YDigits", "YCoreSchema", "YSchema", "MC_Schema", "Trace_Schema"]:
        sany(mod)
    # (a') the pinned decision lists leave the property only on the two characterised families
    for alpha in (["num", "inf"] if ck.tier == "quick" else ["num", "inf", "word"]):
        mp = _mc(ck, alpha, 4, False)
        ck.extra["pinned_model_states"] = ck.extra.get("pinned_model_states", 0) + mp["states"]
    # (a)+(b) enumerate, check the theorems, replay on the real code
    found = _Found()
    literal = 0
    texts = 0
    tlc_wall = 0.0
    for alpha, n in PLAN[ck.tier]:
        m = _mc(ck, alpha, n, True)
        tlc_wall += m.get("wall", 0.0)
        s = _replay(ck, found, m, "%s_%d" % (alpha, n))
        if s["replayed"] != m["states"]:
            raise ToolError("replayed %d of %d enumerated texts (%s,%d)" % (s["replayed"], m["states"], alpha, n))
        texts += s["replayed"]
        literal += s["literal"]
        for x in s["samples"]:
            if not any(y.get("text") == x["text"] for y in ck.samples):
                ck.sample({"origin": "exhaustive:%s<=%d" % (alpha, n), **x}, limit=4)
                break
        log("[C08] %s<=%d: %d texts, %d calls, bad=%d drift=%d" % (alpha, n, s["replayed"], s["evals"], s["bad"], s["drift"]))
    ck.extra["enumerated_texts"] = texts
    ck.extra["enumerated_literals"] = literal
    ck.extra["tlc_wall_s_uncached"] = round(tlc_wall, 1)
    ck.extra["theorems_checked_in_every_state"] = THEOREMS.split()
    ck.exhaustive = True   # of the stated finite spaces; the boundary families below are samples
    # impl -> spec: boundary and random longer texts, judged by TLC
    trace = ck.wd("boundary.ndjson")
    s = vh_json(["c08-record", "--out", trace, "--tier", ck.tier])
    ck.evaluations += s["evals"]
    ck.extra["load_from_str_calls"] = ck.extra.get("load_from_str_calls", 0) + s["loads"]
    j, recs = _judge(ck, trace, "C08_Trace_Schema")
    ck.extra["boundary_texts"] = len(recs)
    ck.extra["boundary_cells_judged"] = s["cells"]
    ck.distinct = literal + len(recs)
    for rej in j.rejects:
        r = recs[rej[0] - 1]
        c = r["cells"][rej[1] - 1]
        b = {"kind": "owned" if len(c["rs"]) != 1 else "value", "t": r["s"], "style": c["style"], "tag": c["tag"], "api": "real library", "got": json.dumps([{k: v for k, v in x.items() if v not in ("", [])} for x in c["rs"]], ensure_ascii=False)[:300], "allowed": rej[2]}
        found.add(b, "%s scalar %r%s (origin %s): %s; recorded results %s" % (c["style"], r["s"], (" tagged " + c["tag"]) if c["tag"] else " (no tag)", r["o"], rej[2], b["got"]),
                  {"text": r["s"], "chars": r["t"], "cell": c, "verdict": rej[2], "rerun": "work/target/verif/vh c08-show --text <text>"})
    found.report(ck)
    def brief(x):
        return {k: ("".join(v) if isinstance(v, list) else v) for k, v in x.items() if v not in ("", [])}
    for x in s["samples"][:2]:
        ck.sample({"origin": "boundary:" + x["origin"], "text": x["text"], "untagged_plain": brief(x["untagged"])}, limit=8)
    for r in recs[-1:]:
        ck.sample({"origin": "boundary:" + r["o"], "text": r["s"], "untagged_plain": brief(r["cells"][0]["rs"][0])}, limit=8)


def selftest():
    """Binding demonstration: (1) the judge rejects corrupted recordings, (2) the replay comparison
    rejects a corrupted expectation."""
    import props
    build_harness()
    d = os.path.join(WORK, "selftest")
    os.makedirs(d, exist_ok=True)

    def res(ty, **kw):
        r = {"ty": ty, "b": "", "iv": [], "s": [], "fk": "", "fbits": "", "pbits": ""}
        r.update(kw)
        return r

    def rec(t, style, cls, rs):
        return {"t": list(t), "s": t, "o": "selftest", "cells": [{"style": style, "class": cls, "tag": "", "n": len(rs), "rs": rs, "apis": []}]}

    good = [rec("0x10", "plain", "none", [res("int", iv=list("16"))]),
            rec("1.5", "plain", "float", [res("float", fk="fin", fbits="3ff8000000000000", pbits="3ff8000000000000")]),
            rec("Null", "plain", "none", [res("str", s=list("Null"))]),
            rec("12", "double", "none", [res("str", s=list("12"))])]
    bad = [rec("0x10", "plain", "none", [res("int", iv=list("17"))]),            # wrong value
           rec("inf", "plain", "none", [res("float", fk="inf+", fbits="7ff0000000000000", pbits="7ff0000000000000")]),  # not a literal
           rec("abc", "plain", "str", [res("str", s=list("abd"))]),              # corrupted content
           rec("12", "plain", "none", [res("str", s=list("12"))]),               # demanded literal left a string
           rec("true", "plain", "bool", [res("bad")]),                          # own-tag literal refused
           rec("1", "plain", "int", [res("float", fk="fin", fbits="3ff0000000000000", pbits="3ff0000000000000")]),  # another type
           rec("~", "plain", "none", [res("null"), res("str", s=list("~"))]),    # borrowed != owned
           rec("9223372036854775808", "plain", "none", [res("int", iv=list("9223372036854775807"))])]  # saturated
    t = os.path.join(d, "c08.ndjson")
    write_ndjson(t, good + bad)
    r = tlc("Trace_Schema", workers=1, env={"TRACE": t}, name="selftest_schema", deque=True)
    got = sorted(set(x[0] for x in r.rejects))
    want = list(range(len(good) + 1, len(good) + len(bad) + 1))
    if got != want or r.judged != len(good) + len(bad):
        print("SELFTEST FAILED: Trace_Schema rejected %s, expected %s" % (got, want))
        return 2
    # replay binding: one true line, one with a corrupted expectation, one with a corrupted prediction
    cells_ok = "int:12;int:12;float:12|bad;bad;bad;str;str;str;int:12|str;float:12|str|bad;str|bad;str|bad;str;str"
    model_ok = "int:12;int:12;float:12;bad;bad;str;str;str;str;str;str;str;str;str"

    def line(a, m):
        return '<<"REPLAY", %s>>' % json.dumps(json.dumps({"t": ["1", "2"], "ref": "int", "must": "int", "iv": "12", "a": a, "m": m}))
    f = os.path.join(d, "c08.replay")
    with open(f, "w") as o:
        o.write(line(cells_ok, model_ok) + "\n")
    s1 = vh_json(["c08-replay", "--in", f, "--out", f + ".out1"])
    with open(f, "w") as o:
        o.write(line(cells_ok.replace("int:12;int:12", "int:13;int:12", 1), model_ok.replace("float:12", "float:12.5")) + "\n")
    s2 = vh_json(["c08-replay", "--in", f, "--out", f + ".out2"])
    if s1["bad"] != 0 or s1["drift"] != 0 or s2["bad"] == 0 or s2["drift"] == 0:
        print("SELFTEST FAILED: c08-replay binding: true line %s, corrupted line %s" % (s1, s2))
        return 2
    return 0
