"""C19 — all node types and loading modes hold the same data (DESIGN.md section 7/C19)."""
import os, json, hashlib, shutil
from vlib import *
import props

ID = "C19"
INFO = ("YNodeApi (TLA+): node trees as data, REFERENCE resolution (Resolve/ResolveRec, SameTreeUpToSpans) and the AS-CODED "
        "parse_representation(_recursive) with take(); MC_NodeApi: TLC enumerates every tree of <= 4 (thorough 5-6) nodes over a leaf pool "
        "with representations x every call history, checks idempotence / identity on resolved trees / as-coded = reference, and every history "
        "is replayed on the four real node types; Trace_NodeData: every distinct outcome of loading each accepted pool input as 4 node types x "
        "{eager, deferred + recursive / per-node resolution, resolution applied again} + span-blind equality/hash + scalar round trips is judged by TLC.",
        "Small-scope exhaustive for the API histories; pool inputs beyond that are sampled (corpus, enumerated texts, soups, mutants). Scalar typing itself is C08's (resolution table taken from the real eager resolver).",
        "TLA+ model checking of the node API (TLC) with replay of generated call histories on the real types + TLC trace validation of recorded loads",
        "7/C19")

DEPS = ["YNodeApi.tla"]
KIND = {"null": "Value", "bool": "Value", "int": "Value", "float": "Value", "str": "Value", "seq": "Sequence", "map": "Mapping",
        "alias": "Alias", "bad": "BadValue", "repr": "Representation"}
OPN = {"pr": "parse_representation", "prr": "parse_representation_recursive", "node": "parse_representation@every-node"}


def has_repr(n):
    t = n.get("t")
    if t == "repr":
        return True
    if t == "seq":
        return any(has_repr(x) for x in n["items"])
    if t == "map":
        return any(has_repr(k) or has_repr(v) for k, v in n["pairs"])
    return False


def mc_nodeapi(ck, cfg, restable, workers=6, timeout=3000):
    """MC_NodeApi depends on the specification and on the resolution table only: cached on both."""
    hs = props.spec_hash(DEPS + ["MC_NodeApi.tla"]) + hashlib.sha1(open(os.path.join(SPEC, cfg + ".cfg"), "rb").read() + open(restable, "rb").read()).hexdigest()[:10]
    cdir = os.path.join(WORK, "cache")
    os.makedirs(cdir, exist_ok=True)
    meta = os.path.join(cdir, "%s_%s.json" % (cfg, hs))
    out = meta[:-5] + ".out"
    if os.path.exists(meta) and os.path.exists(out):
        m = json.load(open(meta))
    else:
        r = tlc("MC_NodeApi", cfg=cfg, workers=workers, name=cfg, timeout=timeout, xmx="6g", out_path=out, env={"RESTABLE": restable})
        m = {"states": r.distinct, "transitions": r.states, "violated": r.invariant_violated, "ok": r.ok, "wall": r.wall, "out": out, "tail": r.out[-1500:]}
        if r.ok:
            json.dump(m, open(meta, "w"))
    ck.states += m["states"]
    ck.transitions += m["transitions"]
    return m


def replay_histories(ck, m, tag):
    """spec -> impl: replay every generated history; a result different from the REFERENCE result is
    a violation of the real code, a result different from the AS-CODED result only is drift."""
    out = ck.wd("replay_%s.ndjson" % tag)
    s = vh_json(["c19-replay", "--in", m["out"], "--out", out])
    ck.traces += s["replayed"]
    ck.evaluations += s["evaluations"]
    for x in s["samples"][:1]:
        ck.sample({"kind": "history replayed on 4 node types", **x})
    nref = 0
    for r in read_ndjson(out):
        calls = "+".join(OPN[o] for o in r["hist"])
        if not r["ref_ok"]:
            nref += 1
            pre = "resolve" if has_repr(r["start"]) else "reparse"
            key = "%s:%s:%s:%s" % (pre, KIND.get(r["start"]["t"], "?"), r["ty"], calls)
            ck.violation(key, "%s: %s on %s gives %s, the reference result is %s" % (r["ty"], calls, json.dumps(r["start"]), json.dumps(r["got"]), json.dumps(r["ref"])),
                         {"start": r["start"], "calls": r["hist"], "node_type": r["ty"], "strings_owned": r["own"], "got": r["got"], "reference": r["ref"], "as_coded_model": r["coded"]})
        elif not r["coded_ok"]:
            ck.note_drift({"node_type": r["ty"], "start": r["start"], "calls": r["hist"], "got": r["got"], "ret": r["ret"], "model": r["coded"], "model_ret": r["ok"]})
    ck.extra.setdefault("model_counterexamples", 0)
    ck.extra["model_counterexamples"] += s["model_cex"]
    if s["model_cex"] and not nref:
        ck.note_drift({"what": "the as-coded model departs from the reference on %d histories but the real code does not" % s["model_cex"]})
    return s


def judge_chunks(ck, module, trace, chunk=15000, name=None):
    """Judge an NDJSON trace in chunks (TLC holds a whole chunk in memory). Returns [(index, code, i)]."""
    lines = [x for x in open(trace).read().split("\n") if x]
    rej = []
    for c in range(0, max(len(lines), 1), chunk):
        part = lines[c:c + chunk]
        if not part:
            break
        p = trace + ".part%d" % (c // chunk)
        with open(p, "w") as f:
            f.write("\n".join(part) + "\n")
        j = props.judge(ck, module, p, name=(name or module) + "_%d" % (c // chunk))
        if j.judged != len(part):
            raise ToolError("%s judged %d of %d records" % (module, j.judged, len(part)))
        ck.traces += j.judged
        for x in j.rejects:
            rej.append((c + x[0] - 1, x[1], x[2] if len(x) > 2 else 0))
        os.remove(p)
    return lines, rej


def run(ck):
    ck.rule = ("(spec->impl) every tree of <= N nodes over {null, true, 1, 'a', '1', 1.5, BadValue, alias, 5 representations (values from the real eager resolver)} x every "
               "history of <= D calls of parse_representation / parse_representation_recursive / parse_representation on every node, replayed on 4 node types x {borrowed, owned strings}, "
               "result compared with the reference result; (impl->spec) every accepted pool input x 4 node types x {eager via load_from_str and via load_from_parser (node types compared per entry point), deferred, deferred + 3 resolution histories, "
               "eager + 3 resolution histories} + span-reset equality/hash + scalar round trips; records are de-duplicated by their complete content (observations of one input that are "
               "byte-identical are grouped, so TLC sees one representative per distinct outcome; inputs rejected identically everywhere are represented once per error message); "
               "distinct = distinct records judged by TLC")
    ck.assumptions = ["the value a representation resolves to is taken from saphyr's eager resolver (Yaml::value_from_cow_and_metadata); its correctness is C08's",
                      "a mapping rebuilt with colliding keys follows hashlink's insert (later value wins, entry moves to the back) in the reference ResolveRec; a difference there is reported as drift, not as a violation",
                      "inputs that abort the process (stack exhaustion) are C11's and are not in the pool",
                      "records deeper than 250 JSON levels (flow nesting > ~120) or larger than 400 kB cannot be read by TLC's JSON module and are counted in records_too_big_skipped"]
    variant_cfgs = ["MC_NodeApi", "MC_NodeApi_hist"] if ck.tier != "thorough" else ["MC_NodeApi_thorough", "MC_NodeApi_tiny", "MC_NodeApi_hist"]
    if os.environ.get("C19_MODEL") == "pinned":
        # how the defects were found: the model of the code as pinned, its counterexamples replayed
        variant_cfgs = ["MC_NodeApi_pinned"]
    restable = ck.wd("restable.ndjson")
    vh(["c19-restable", "--out", restable])
    for cfg in variant_cfgs:
        m = mc_nodeapi(ck, cfg, restable)
        if m["violated"] or not m["ok"]:
            raise ToolError("%s: invariant %s violated inside the model (a lead, replay it): %s" % (cfg, m["violated"], m["tail"][-800:]))
        replay_histories(ck, m, cfg)
    ck.exhaustive = False
    # impl -> spec over the pool
    pool = props.full_pool(ck)
    out = ck.wd("c19.ndjson")
    s, crash = props.run_recorder(ck, ["c19", "--pool", pool, "--out", out], out, timeout=5400)
    if crash:
        raise ToolError("recorder died (C01/C11 own crashes): %s" % crash)
    ck.evaluations += s["runs"]
    ck.distinct += s["distinct"]
    ck.extra["pool_inputs"] = s["inputs"]
    ck.extra["accepted_inputs"] = s["accepted"]
    ck.extra["records_too_big_skipped"] = s["skipped_big"]
    lines, rej = judge_chunks(ck, "Trace_NodeData", out)
    for (i, code, g) in rej:
        r = json.loads(lines[i])
        text = r["t"]
        if code.startswith("drift:"):
            ck.note_drift({"what": code, "text": text[:120]})
            continue
        if code in ("post", "post-badkey"):
            grp = r["post"][g - 1]
            eager = r["eager"][0]["o"]["docs"]
            got = grp["o"].get("docs")
            kind = "?"
            for d in range(len(eager)):
                if got is None or d >= len(got) or strip(got[d]) != strip(eager[d]):
                    kind = KIND.get(eager[d]["t"], "?")
                    break
            for lab in grp["l"]:
                ty, op = lab.split("/", 1)
                pre = "lazy" if op.startswith("lazy") else "reparse"
                if code == "post-badkey":
                    pre += "-badkey"
                key = "%s:%s:%s:%s" % (pre, kind, ty, op)
                ck.violation(key, "%s on %r: %s gives %s but the eager load is %s" % (ty, text[:80], op, json.dumps(got)[:300], json.dumps([strip(x) for x in eager])[:300]),
                             {"text": text, "node_type": ty, "calls": op, "got": grp["o"], "eager": r["eager"][0]["o"], "deferred_unresolved": r["lazy0"][0]["o"]})
        elif code in ("types", "types2", "lazy0", "lazyerr", "panic"):
            src = r["eager"] if code in ("types", "panic") else r["eager2"] if code == "types2" else r["lazy0"]
            grp = src[max(g, 1) - 1]
            key = "%s:%s" % (code, grp["l"][0])
            ck.violation(key, "loading %r: outcome of %s differs from %s (%s)" % (text[:80], grp["l"], src[0]["l"][0] if code != "lazyerr" else "the eager load", code),
                         {"text": text, "groups": src, "eager_first": r["eager"][0]})
        elif code == "eqh":
            grp = r["eqh"][g - 1]
            ck.violation("eqh:%s:eq=%s:samehash=%s" % (grp["l"][0], grp["o"].get("eq"), grp["o"].get("h1") == grp["o"].get("h2")),
                         "marked documents of %r compared with a copy whose spans are reset: %s" % (text[:80], json.dumps(grp["o"])), {"text": text, "obs": grp})
        elif code == "scalar":
            t3 = r["sc"][g - 1]
            ck.violation("scalar:%s" % t3[0]["t"], "scalar round trip changed %s -> %s -> %s" % tuple(json.dumps(x) for x in t3), {"text": text, "trip": t3})
        else:
            ck.violation("judge:" + code, "record %d rejected: %s" % (i + 1, code), {"text": text})
    # "marked nodes differ only by carrying spans, and their equality ignores the spans": constructed pairs of nodes of the four
    # types -- the same data under other spans, other data under the same span, borrowed against owned -- with the real == and
    # the real hashes, judged by YNodeApi!EqHashLaw (== is equality of the data; equal nodes hash equally)
    eqf = ck.wd("c19_eq.ndjson")
    se = vh_json(["c20", "--out", eqf, "--n", "2000" if ck.tier != "thorough" else "30000", "--hash-only", "1"])
    ck.evaluations += se["evaluations"]
    lines2, rej2 = judge_chunks(ck, "Trace_NodeApi", eqf)
    ck.extra["equality_pairs_judged"] = len(lines2)
    for (i, code, g) in rej2:
        r = json.loads(lines2[i])
        ck.violation("eq:%s:eq=%s" % (r["l"][0], r.get("eq")), "%s: %s == %s is %s (hashes %s / %s)" % (r["l"], json.dumps(r["x"])[:200], json.dumps(r["y"])[:200], r.get("eq"), r.get("hx"), r.get("hy")), r)
    mine = []
    for ln in lines:
        r = json.loads(ln)
        if r["eager"][0]["o"]["k"] == "docs" and len(r["t"]) > 8 and len(r["res"]) > 2:
            mine.append({"kind": "pool input loaded as 4 node types x loading modes", "text": r["t"][:80], "origin": r["o"], "eager_outcome_groups": [g["l"] for g in r["eager"]],
                         "post_resolution_outcome_groups": len(r["post"]), "representations": len(r["res"])})
            if len(mine) >= 3:
                break
    ck.samples = [x for x in ck.samples if x.get("kind")] + mine + [x for x in ck.samples if not x.get("kind")]


def strip(n):
    t = n.get("t")
    o = {k: v for k, v in n.items() if k != "span"}
    if t == "seq":
        o["items"] = [strip(x) for x in n["items"]]
    elif t == "map":
        o["pairs"] = [[strip(k), strip(v)] for k, v in n["pairs"]]
    return o


def selftest():
    """Binding demonstrations: (1) the pinned as-coded variant is the negative control — TLC must find
    it departing from the reference exactly on the defect shapes; (2) a recorded trace with one
    corrupted field must be rejected by Trace_NodeData; (3) a REPLAY expectation flipped must be
    reported by the replay comparison."""
    os.makedirs(os.path.join(WORK, "selftest"), exist_ok=True)
    rt = os.path.join(WORK, "selftest", "restable.ndjson")
    vh(["c19-restable", "--out", rt])
    r = tlc("MC_NodeApi", cfg="MC_NodeApi_pinned", workers=4, name="selftest_nodeapi_pinned", env={"RESTABLE": rt}, out_path=os.path.join(WORK, "selftest", "pinned.out"))
    cex = sum(1 for l in open(r.replay_path) if l.startswith('<<"REPLAY"') and '\\"cex\\":true' in l)
    if not r.ok or cex == 0:
        print("SELFTEST FAILED: pinned variant of YNodeApi: ok=%s counterexamples=%d (expected PinnedExact to hold and counterexamples to exist)" % (r.ok, cex))
        return 2
    r2 = tlc("MC_NodeApi", cfg="MC_NodeApi_pinned_inv", workers=1, name="selftest_nodeapi_pinned_inv", env={"RESTABLE": rt})
    if r2.invariant_violated != "CodedIsRef":
        print("SELFTEST FAILED: CodedIsRef not violated by the pinned variant")
        return 2
    # (2) trace judge
    pool = os.path.join(WORK, "selftest", "c19pool.ndjson")
    write_ndjson(pool, [{"o": "st", "t": "a: [1, x]\nb: {c: ~}\n"}, {"o": "st", "t": "- &x 1\n- *x\n"}])
    tr = os.path.join(WORK, "selftest", "c19.ndjson")
    vh(["c19", "--pool", pool, "--out", tr])
    good = read_ndjson(tr)
    base = tlc("Trace_NodeData", workers=1, env={"TRACE": tr}, name="selftest_nodedata0")
    base_rej = set((x[0], x[1]) for x in base.rejects if not str(x[1]).startswith("drift"))
    bad = json.loads(json.dumps(good))
    bad[0]["post"][0]["o"]["docs"][0]["pairs"][0][1]["items"][0] = {"t": "str", "v": "1"}     # a resolved integer turned into a string
    bad[1]["eager"][-1]["o"]["docs"][0]["items"][1] = {"t": "int", "v": "2", "span": [[0, 1, 0], [1, 1, 1]]}   # marked types see other data
    bad.append(json.loads(json.dumps(good[0])))
    bad[2]["sc"][0][2] = {"t": "str", "v": "changed"}
    bad.append(json.loads(json.dumps(good[1])))
    bad[3]["eqh"][0]["o"]["h2"] = "0000000000000000"
    tb = os.path.join(WORK, "selftest", "c19bad.ndjson")
    write_ndjson(tb, bad)
    j = tlc("Trace_NodeData", workers=1, env={"TRACE": tb}, name="selftest_nodedata1")
    got = set((x[0], x[1]) for x in j.rejects if not str(x[1]).startswith("drift")) - base_rej
    want = {(1, "post"), (2, "types"), (3, "scalar"), (4, "eqh")}
    if not want <= got:
        print("SELFTEST FAILED: Trace_NodeData rejected %s, expected at least %s" % (sorted(got), sorted(want)))
        return 2
    # (3) replay comparison
    rp = os.path.join(WORK, "selftest", "c19replay.out")
    rec = {"start": {"t": "seq", "items": [{"t": "int", "v": "1"}]}, "hist": ["prr"], "ref": {"t": "seq", "items": [{"t": "int", "v": "2"}]},
           "coded": {"t": "seq", "items": [{"t": "int", "v": "2"}]}, "ok": True, "cex": False}
    with open(rp, "w") as f:
        f.write('<<"REPLAY", %s>>\n' % json.dumps(json.dumps(rec)))
    s = vh_json(["c19-replay", "--in", rp, "--out", rp + ".mm"])
    if s["mismatch_ref"] != 8:
        print("SELFTEST FAILED: a flipped REPLAY expectation was not reported (%s)" % s)
        return 2
    return 0
