"""C15 — documents in a stream are parsed independently of each other."""
import json, os
from vlib import *
import props

ID = "C15"
INFO = ("YRel!ConcatWhy (TLA+ reference relation: A, B accepted, A ends with a break => A ++ '...\\n' ++ B parses to docs(A) ++ docs(B) with anchor ids renumbered). "
        "MC_Concat: theorem checked by TLC on the scanner/parser model for every pair of texts (|A| <= 3, |B| <= 2 quick; 4/3 thorough) over a 10-symbol alphabet incl. anchors, "
        "aliases, tags and block scalars. Random pairs and chains of up to 4 accepted pool texts (model-independent: corpus, soups, multi-document streams with directives and anchors) "
        "are concatenated and parsed by the real code (pull on the string back-end and load() on the buffered one); every (A, B, AB) triple is judged by Trace_Rel in TLC.",
        "Positions are not compared (they shift); explicit/implicit document start of B's documents is kept as B has it.",
        "TLA+ model checking of a relational theorem + TLC trace validation of real concatenations", "7/C15")


def run(ck):
    ck.rule = "random pairs (A, B) of accepted pool texts <= 120 characters, A ending with a break, plus chains of up to 4; both pull and push; distinct = triples judged"
    ck.assumptions = ["texts containing NUL or starting with a byte-order mark are not used as parts"]
    m = props.tlc_cached(ck, "MC_Concat", "MC_Concat" if ck.tier == "thorough" else "MC_Concat_quick", props.PIPE_DEPS + ["YRel.tla"], workers=8)
    if m["violated"]:
        raise ToolError("MC_Concat: theorem violated inside the model; see %s" % m["out"])
    pool = props.full_pool(ck)
    out = ck.wd("c15.ndjson")
    s, crash = props.run_recorder(ck, ["c15", "--pool", pool, "--out", out, "--pairs", "20000" if ck.tier == "quick" else "400000"], out)
    if crash:
        raise ToolError("recorder died: %s" % crash)
    ck.evaluations += s["records"]
    ck.distinct += s["records"]
    ck.extra["accepted_texts"] = s["accepted"]
    j = props.judge(ck, "Trace_Rel", out, timeout=5400, chunk=40000)
    ck.traces += j.judged
    if j.rejects:
        recs = read_ndjson(out)
        for rej in j.rejects[:300]:
            r = recs[rej[0] - 1]
            ck.violation("concat:%s:%s" % (json.dumps(r["ta"]), json.dumps(r["tb"])), "%s — A=%r B=%r (%s)" % (rej[1], r["ta"][:80], r["tb"][:80], r["via"]), r)
    for x in s["samples"]:
        ck.sample(x)
