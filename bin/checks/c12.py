"""C12 — reported positions are true positions in the input."""
import json, os
from vlib import *
import props

ID = "C12"
INFO = ("YPos (TLA+ reference: position table by counting breaks and characters, bounds, span order, nesting, exact one-line plain spans, quoted spans, printed error form, "
        "marked-node spans) is an invariant (PosTrue) of MC_Pipeline on every text <= N over 10 alphabets (the model computes marks the way the scanner does; replay binds it to the code), "
        "and Trace_Pos judges in TLC the spans, errors, printed errors and MarkedYaml/MarkedYamlOwned node spans the real code produced for every pool text (<= 160 characters), both back-ends.",
        "NUL ends the input for the scanner: positions are judged against the input up to the first NUL. The synthesized null scalar '~' is exempt from the exact-span rule. "
        "Marked-node spans are judged against the tree the events denote (an alias node carries the Alias event's span, its children the anchored node's); inputs with a duplicated key (a node is dropped) are not judged for that clause.",
        "TLA+ invariant in exhaustive model checking + TLC trace validation of recorded spans", "7/C12")


def run(ck):
    ck.rule = "every distinct pool text of <= 160 characters (valid or not), both back-ends (one record when they agree), marked loads where applicable; distinct = records judged"
    ck.assumptions = ["both back-ends agreeing byte for byte are judged once"]
    pool = props.full_pool(ck)
    out = ck.wd("c12.ndjson")
    s, crash = props.run_recorder(ck, ["c12", "--pool", pool, "--out", out], out)
    if crash:
        raise ToolError("recorder died: %s" % crash)
    ck.evaluations += 2 * s["texts"] + 2 * s["marked"]
    ck.distinct += s["records"]
    ck.extra["characters_judged"] = s["chars"]
    ck.extra["marked_loads_judged"] = s["marked"]
    j = props.judge(ck, "Trace_Pos", out, timeout=5400, chunk=40000)
    ck.traces += j.judged
    if j.rejects:
        recs = read_ndjson(out)
        for rej in j.rejects[:300]:
            r = recs[rej[0] - 1]
            t = "".join(c if len(c) == 1 else c for c in r["t"])
            ck.violation("pos:%s:%s" % (json.dumps(t), r["be"]), "%s — input %r (%s)" % (rej[1], t[:100], r["be"]), {"text": t, "be": r["be"], "evs": r["evs"], "err": r["err"], "marked": r["marked"]})
    for x in s["samples"][:3]:
        ck.sample({"text": x["text"][:120], "spans": x["spans"][:6]})


def selftest():
    d = os.path.join(WORK, "selftest")
    os.makedirs(d, exist_ok=True)
    t = list("a: b\n")
    ev = lambda k, a, b, v="", st="": {"k": k, "a": a, "b": b, "v": list(v), "style": st, "aid": 0}
    evs = [ev("StreamStart", [0, 1, 0], [0, 1, 0]), ev("DocumentStart", [0, 1, 0], [0, 1, 0]), ev("MappingStart", [0, 1, 0], [0, 1, 0]), ev("Scalar", [0, 1, 0], [1, 1, 1], "a", "plain"),
           ev("Scalar", [3, 1, 3], [4, 1, 4], "b", "plain"), ev("MappingEnd", [5, 2, 0], [5, 2, 0]), ev("DocumentEnd", [5, 2, 0], [5, 2, 0]), ev("StreamEnd", [5, 2, 0], [5, 2, 0])]
    good = {"k": "POS", "t": t, "be": "x", "evs": evs, "err": [], "marked": []}
    bad1 = json.loads(json.dumps(good)); bad1["evs"][4]["a"] = [3, 1, 2]      # wrong column
    bad2 = json.loads(json.dumps(good)); bad2["evs"][4]["b"] = [5, 1, 5]      # span does not cover exactly the text
    bad3 = json.loads(json.dumps(good)); bad3["err"] = [{"at": [3, 1, 3], "words": "x at byte 3 line 1 column 3".split()}]  # 0-based column printed
    good["marked"] = [[[e["a"], e["b"]] for e in evs if e["k"] in ("Scalar", "MappingStart")]]
    bad4 = json.loads(json.dumps(good)); bad4["marked"][0][1] = [[0, 1, 0], [0, 1, 0]]     # a marked node with another node's span
    write_ndjson(os.path.join(d, "pos.ndjson"), [good, bad1, bad2, bad3, bad4])
    r = tlc("Trace_Pos", workers=1, env={"TRACE": os.path.join(d, "pos.ndjson")}, name="selftest_pos")
    if sorted(x[0] for x in r.rejects) != [2, 3, 4, 5]:
        print("SELFTEST FAILED: Trace_Pos rejects", r.rejects)
        return 2
    return 0
