"""C07 — loaded documents mirror the event stream exactly."""
import json, os
from vlib import *
import props

ID = "C07"
INFO = ("YLoader (TLA+): reference Compose (what a sentence denotes: order, key/value pairing, alias = copy of the completed anchored node, BadValue for an open one, "
        "later duplicate wins) and the implementation-shaped loader (doc_stack/key_stack/anchor_map); MC_Loader checks Load = Compose and the loader's unwrap sites on every "
        "grammatical event sentence of <= 11 (quick) / 13 (thorough) events over 3 scalar values, 2 anchors, aliases (also to open nodes, also as keys), duplicate and complex keys; "
        "every sentence is replayed directly into the real YamlLoader::on_event for the four node types, and every pool text is loaded; (events, documents, failure flags) are "
        "judged by Trace_Loader (Compose) in TLC.",
        "The composition is judged with the library's own resolution of each scalar; that resolution is judged separately, for every distinct (text, style, tag) met in the pool "
        "and in a family of documents holding the core schema's boundary scalars in every style and under every tag class, by YCoreSchema (Trace_Schema). The resulting position of a duplicated key is not asserted. Nesting deeper than 60 is left to C11.",
        "TLA+ model checking of the loader model against a reference composition + TLC trace validation of real loads", "7/C07")


def run(ck):
    ck.rule = ("MC_Loader sentences (finite space enumerated completely) replayed into the real loader x 4 node types + every pool text loaded x 4 node types; "
               "records identical across the four types are judged once; distinct = distinct (events, documents) records judged")
    ck.assumptions = ["events fed to YamlLoader::on_event directly carry default spans", "the event list of a text is taken from the pull parser on the buffered back-end (C17 relates pull and push)"]
    cfg = "MC_Loader_thorough" if ck.tier == "thorough" else "MC_Loader_quick"
    m = props.tlc_cached(ck, "MC_Loader", cfg, ["YLoader.tla", "YEvents.tla"], workers=8, keep_out=True)
    if m["violated"]:
        raise ToolError("MC_Loader: %s violated inside the model; see %s" % (m["violated"], m["out"]))
    pool = props.full_pool(ck, soups=30000 if ck.tier == "quick" else None)
    out = ck.wd("c07.ndjson")
    sc = ck.wd("c07_scalars.ndjson")
    s, crash = props.run_recorder(ck, ["c07", "--in", m["out"], "--pool", pool, "--out", out, "--scalars", sc], out)
    if crash:
        raise ToolError("recorder died: %s" % crash)
    ck.evaluations += 4 * (s["sentences"] + s["texts"])
    ck.distinct += s["records"]
    j = props.judge(ck, "Trace_Loader", out, chunk=40000)
    ck.traces += j.judged
    if j.rejects:
        recs = read_ndjson(out)
        for rej in j.rejects[:300]:
            r = recs[rej[0] - 1]
            ident = r.get("t") if r["src"] == "text" else " ".join("%s%s" % (e["k"], ("&%d" % e["aid"]) if e["aid"] else "") for e in r["evs"])
            ck.violation("%s:%s:%s" % (r["src"], r["ty"], json.dumps(ident)), "%s (%s, node type %s): %s" % (rej[1], r["src"], r["ty"], str(ident)[:200]), r)
    # "each scalar becomes the value chosen by its text, style and tag": every distinct (text, style, tag) met in an accepted
    # text, as resolved by the library's entry points (loader included), judged by the core-schema reference (YCoreSchema)
    js = props.judge(ck, "Trace_Schema", sc, name="c07_scalars", timeout=3600, chunk=40000)
    srecs = read_ndjson(sc)
    ck.traces += js.judged
    ck.evaluations += s.get("scalar_cells", 0)
    ck.extra["scalar_cells_judged"] = s.get("scalar_cells", 0)
    if js.judged != len(srecs):
        raise ToolError("Trace_Schema judged %d of %d scalar records" % (js.judged, len(srecs)))
    for rej in js.rejects[:300]:
        r = srecs[rej[0] - 1]
        c = r["cells"][rej[1] - 1]
        ck.violation("scalar:%s:%s:%s" % (c["style"], c["tag"] or "none", r["s"]), "%s scalar %r%s resolves to %s: %s" % (
            c["style"], r["s"], (" tagged " + c["tag"]) if c["tag"] else "", json.dumps(c["rs"])[:200], rej[2]), {"t": r["s"], "cell": c})
    for x in s["samples"]:
        ck.sample(x)


def selftest():
    """Negative control: the loader model with the BadValue placeholder must violate Mirror;
    a corrupted recorded document must be rejected by the judge."""
    r = tlc("MC_Loader", cfg="MC_Loader_neg", workers=4, name="selftest_loader")
    if r.invariant_violated != "Mirror":
        print("SELFTEST FAILED: MC_Loader with the sentinel should violate Mirror, got", r.invariant_violated)
        return 2
    d = os.path.join(WORK, "selftest")
    os.makedirs(d, exist_ok=True)
    evs = [{"k": k, "aid": 0} for k in ["StreamStart", "DocumentStart", "SequenceStart"]] + [{"k": "Scalar", "aid": 0, "res": {"t": "str", "v": "a"}}, {"k": "Scalar", "aid": 0, "res": {"t": "str", "v": "b"}}] + [{"k": k, "aid": 0} for k in ["SequenceEnd", "DocumentEnd", "StreamEnd"]]
    good = {"k": "LOAD", "evs": evs, "failed": False, "panic": False, "perr": False, "docs": [{"t": "seq", "v": [{"t": "str", "v": "a"}, {"t": "str", "v": "b"}]}]}
    bad = json.loads(json.dumps(good)); bad["docs"][0]["v"].reverse()
    write_ndjson(os.path.join(d, "ld.ndjson"), [good, bad])
    r = tlc("Trace_Loader", workers=1, env={"TRACE": os.path.join(d, "ld.ndjson")}, name="selftest_tloader")
    if [x[0] for x in r.rejects] != [2]:
        print("SELFTEST FAILED: Trace_Loader should reject the reordered document", r.rejects)
        return 2
    return 0
