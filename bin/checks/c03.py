"""C03 — block and flow structure parses to the node tree the document denotes."""
import json, os
from vlib import *
import props

ID = "C03"
INFO = ("YRender (TLA+ reference): a tape-driven renderer from abstract node trees and layout choices to text, written from the YAML 1.2.2 productions, with the events the tree "
        "denotes (block sequences/mappings: implicit, explicit '?', compact, sequences at the key's indentation, indent 1-3 per level, same-line/next-line placement, empty keys and "
        "values, explicit keys without a ':' line, flow collections as implicit keys, tabs as separation after '-', '?', ':' and before comments, block scalars and multi-line "
        "flow scalars as entries, values, keys and document roots; flow sequences/mappings: single pairs, empty key/value, explicit keys, multi-line layout, trailing commas; properties in both orders and on their own line, aliases, "
        "comments, blank lines, document markers, %YAML, a %TAG redefinition of '!!' and '!' for one document, the non-specific tag '!', implicit keys of 1023 and 1024 characters, bare documents after '...'). TLC enumerates every tape of length 5 over 8 choices (Gen_Render, breadth-first) and simulates long random tapes; each "
        "behaviour (text + denoted events) is replayed on the real parser through both back-ends and compared event by event (kind, value, style, anchor, tag), also with the final line break removed when it does not belong to a block scalar. In the model, "
        "the implementation-shaped scanner/parser must read each rendered text as the denoted events (cross-check of renderer and model; disagreement = drift). "
        "Plus the 308 non-error yaml-test-suite cases with the suite's event trees and their CRLF / CR / appended '...' / appended comment variants.",
        "The renderer is sound for YAML, not complete: constructs it does not emit (named %TAG handles: C16; the full scalar presentations: C04/C05) are covered by their own generators and the suite corpus. "
        "An omitted node is expected as the plain scalar '~' (the parser's representation of null), or '' when it carries properties.",
        "TLA+ reference renderer; TLC-generated behaviours (exhaustive short tapes + simulation) replayed into the real parser", "7/C03")


def gen(ck, cfg, name, simulate=None, depth=None, workers=8):
    out = ck.wd(name + ".out")
    r = tlc("Gen_Render", cfg=cfg, workers=workers, out_path=out, name="c03_" + name, simulate=simulate, depth=depth, timeout=7200, xmx="8g")
    ck.add_tlc(r)
    return out


def run(ck):
    ck.rule = ("rendered streams: all tapes of length 5 over 8 choices (exhaustive) + simulated tapes of length 48/72 over 64 choices, depth <= 3/4, 1-3 documents; "
               "distinct = distinct rendered texts replayed; plus 308 suite cases x up to 5 layout-preserving variants x 2 back-ends")
    ck.assumptions = ["YAML 1.2.2 as read in DESIGN.md appendix A", "the suite's event trees are taken as given (anchor names renumbered, flow/block style markers dropped, as the repository's own harness does)"]
    outs = [gen(ck, "Gen_Render_bfs", "bfs")]
    if ck.tier == "quick":
        outs.append(gen(ck, "Gen_Render_sim", "sim", simulate=1500, depth=50))
        outs.append(gen(ck, "Gen_Render_sim2", "sim2", simulate=800, depth=76))
    else:
        outs.append(gen(ck, "Gen_Render_sim", "sim", simulate=40000, depth=50, workers=12))
        outs.append(gen(ck, "Gen_Render_sim2", "sim2", simulate=40000, depth=76, workers=12))
    for o in outs:
        bad = o + ".bad"
        s = vh_json(["c03", "--in", o, "--out", bad, "--chop", "1", "--breaks", "1"])
        ck.evaluations += s["runs"]
        ck.distinct += s["distinct"]
        ck.traces += s["behaviours"]
        ck.drift += s["model_disagrees"]
        ck.extra["longest_rendered_text"] = max(ck.extra.get("longest_rendered_text", 0), s["longest"])
        for b in read_ndjson(bad):
            ck.violation("render:%s" % json.dumps(b["t"]), "%s — rendered stream %r (%s)" % (b["why"], b["t"][:160], b["be"]), b)
        for x in s["samples"][:2]:
            ck.sample(x)
    sb = ck.wd("suite.bad")
    s = vh_json(["c03-suite", "--suite", SUITE, "--out", sb])
    ck.evaluations += s["runs"]
    ck.distinct += s["cases"]
    ck.extra["suite_cases"] = s["cases"]
    for b in read_ndjson(sb):
        ck.violation("suite:%s:%s" % (b["id"], b["variant"]), "yaml-test-suite %s (%s, %s): %s" % (b["id"], b["variant"], b["be"], b["why"]), b)
    os.remove(outs[0]) if False else None


def selftest():
    """Flip one denoted scalar in a generated behaviour: the replay comparison must report it."""
    d = os.path.join(WORK, "selftest")
    os.makedirs(d, exist_ok=True)
    ev = lambda k, v="", st="": {"k": k, "v": list(v), "style": st, "aid": 0, "tag": []}
    rec = {"tape": [], "text": list("- a\n"), "model": True,
           "evs": [ev("StreamStart"), ev("DocumentStart", st="implicit"), ev("SequenceStart"), ev("Scalar", "b", "plain"), ev("SequenceEnd"), ev("DocumentEnd"), ev("StreamEnd")]}
    with open(os.path.join(d, "render.out"), "w") as f:
        f.write('<<"REPLAY", %s>>\n' % json.dumps(json.dumps(rec)))
    s = vh_json(["c03", "--in", os.path.join(d, "render.out")])
    if s["bad"] != 2:
        print("SELFTEST FAILED: c03 replay accepted a corrupted expectation", s)
        return 2
    return 0
