"""C20 — mapping lookups, equality and hashing are mutually consistent (DESIGN.md section 7/C20)."""
import os, json
from vlib import *
import props

ID = "C20"
INFO = ("YNodeApi (TLA+): REFERENCE lookup (found exactly when some key is a resolved string equal to k; integer indexing; Equal => same hash) and the AS-CODED "
        "lookups (hash of a synthetic string node + raw-entry probe for plain and marked types, the map's own lookup) over three lawful hash abstractions; "
        "MC_NodeLookup: TLC builds every mapping of <= 3 (thorough 4) keys from a 16-key pool (strings, integer/null/Boolean/float with the same text, collections, "
        "unresolved representation, BadValue) in every order, checks as-coded = reference for 13 probe strings and 4 indices, and every mapping/probe with the "
        "expected answer is replayed on 7 string accessors + 4 integer accessors of the 4 real node types (constructed with borrowed and owned strings, and loaded from text); "
        "Trace_NodeApi: TLC judges recorded answers for random larger mappings, for mappings of loaded pool documents, and eq/hash pairs.",
        "Small-scope exhaustive for mapping x probe; larger mappings and loaded documents are sampled. Hash collisions are covered by the constant-hash abstraction in the model and by volume on the real hasher.",
        "TLA+ model checking of the lookup API (TLC) with replay of generated mappings/probes on the real types + TLC trace validation of recorded answers",
        "7/C20")

DEPS = ["YNodeApi.tla"]


def way_key(r):
    return "%s:%s:%s:%s" % (r["what"], r["ty"], r["way"], r["form"].split("/")[0])


def run(ck):
    ck.rule = ("(spec->impl) every insertion history of <= K distinct keys from a pool of 16 keys x 13 probe strings x 4 indices, expected answer computed by YNodeApi.RefGetStr / RefIntIndex, "
               "asked through as_mapping_get, contains_mapping_key, Index<&str> (panic = absent), as_mapping_get_mut, IndexMut<&str>, Mapping::get / contains_key with an explicitly built string node, "
               "Index/IndexMut<usize>, as_sequence_get(_mut), Mapping::get(&Integer) on 4 node types x {built with borrowed strings, built with owned strings, loaded from rendered YAML text when that loads to the same mapping}; "
               "(impl->spec) seeded random mappings of <= 12 keys with nested keys, sequences, every mapping/sequence of loaded pool documents (first 12 per input), probes = texts of all keys + word list + absent, "
               "indices incl. usize::MAX and i64::MAX+1; eq/hash pairs borrowed vs owned, equal vs different, same data under other spans; identical records of several node types/forms are judged once; "
               "distinct = distinct records judged by TLC + distinct mappings replayed")
    ck.assumptions = ["an Index panic of any message is the observable 'absent'", "std::hash::Hash is observed through DefaultHasher::new() (fixed keys)",
                      "no equality is defined between Yaml and YamlOwned, so nothing is asserted across those two types"]
    cfg = "MC_NodeLookup_thorough" if ck.tier == "thorough" else "MC_NodeLookup"
    m = props.tlc_cached(ck, "MC_NodeLookup", cfg, DEPS, workers=6, keep_out=True)
    if m["violated"] or not m["ok"]:
        raise ToolError("%s: invariant %s violated inside the model (a lead): %s" % (cfg, m["violated"], m["tail"][-800:]))
    ck.exhaustive = False
    out = ck.wd("replay.ndjson")
    s = vh_json(["c20-replay", "--in", m["out"], "--out", out])
    ck.traces += s["replayed"]
    ck.evaluations += s["evaluations"]
    ck.distinct += s["replayed"]
    ck.extra["loaded_forms_replayed"] = s["loaded_forms"]
    for x in s["samples"][:2]:
        ck.sample({"kind": "mapping x probe replayed on 4 node types", **x})
    for r in read_ndjson(out):
        node = r.get("map") or r.get("node")
        ck.violation(way_key(r), "%s (%s) %s with %s on %s answers %s, the specification says %s" % (r["ty"], r["form"], r["way"], json.dumps(r.get("key", r.get("idx"))), json.dumps(node)[:300], json.dumps(r["got"]), json.dumps(r["want"])), r)
    # impl -> spec
    pool = props.base_pool(ck, soups=2000 if ck.tier != "thorough" else 50000, mutants=1 if ck.tier != "thorough" else 6)
    tr = ck.wd("c20.ndjson")
    s2, crash = props.run_recorder(ck, ["c20", "--out", tr, "--n", "3000" if ck.tier != "thorough" else "60000", "--pool", pool], tr)
    if crash:
        raise ToolError("recorder died: %s" % crash)
    ck.evaluations += s2["evaluations"]
    ck.distinct += s2["records"]
    ck.extra["pool_inputs_with_collections"] = s2["pool_inputs"]
    import importlib.util
    c19 = importlib.util.spec_from_file_location("checks_c19_for_c20", os.path.join(os.path.dirname(os.path.abspath(__file__)), "c19.py"))
    mod = importlib.util.module_from_spec(c19)
    c19.loader.exec_module(mod)
    lines, rej = mod.judge_chunks(ck, "Trace_NodeApi", tr, chunk=20000)
    ways_s = ["as_mapping_get", "Index<&str>", "as_mapping_get_mut", "IndexMut<&str>", "Mapping::get(&string node)"]
    for (i, code, g) in rej:
        r = json.loads(lines[i])
        lab = r["l"][0]
        ty, form = lab.split("/", 1)
        if code == "str":
            p = r["probes"][g - 1]
            ck.violation("str:%s:%s" % (ty, form.split("/")[0]), "%s: asking %s for key %r: answers %s / contains %s" % (r["l"], json.dumps(r["map"])[:300], p["key"], json.dumps(dict(zip(ways_s, p["a"])))[:400], p["c"]),
                         {"labels": r["l"], "map": r["map"], "probe": p})
        elif code == "int":
            p = r["probes"][g - 1]
            ck.violation("int:%s:%s" % (ty, r["node"]["t"]), "%s: index %s on %s: answers %s" % (r["l"], p["idx"], json.dumps(r["node"])[:300], json.dumps(p["a"])[:300]), {"labels": r["l"], "node": r["node"], "probe": p})
        elif code == "hash":
            ck.violation("hash:%s:%s" % (ty, form), "%s: x=%s y=%s eq=%s hash(x)=%s hash(y)=%s" % (r["l"], json.dumps(r["x"])[:200], json.dumps(r["y"])[:200], r["eq"], r["hx"], r["hy"]), r)
        else:
            ck.violation("judge:%s" % code, "record %d rejected: %s" % (i + 1, code), r)
    n = 0
    for ln in lines:
        r = json.loads(ln)
        if r["k"] == "STR" and len(r["map"]["pairs"]) >= 3 and any(p["a"][0]["found"] for p in r["probes"]):
            ck.sample({"labels": r["l"][:3], "map": json.dumps(r["map"])[:160], "probes": [p["key"] for p in r["probes"]][:8], "found": [p["key"] for p in r["probes"] if p["a"][0]["found"]][:4]})
            n += 1
            if n >= 2:
                break


def selftest():
    """(1) negative control in the model: with the needle hashed as a bare string the as-coded lookup
    must violate the reference (TLC reports BareHashIsRef violated); (2) corrupted recorded answers
    must be rejected by Trace_NodeApi; (3) a flipped expectation in a REPLAY line must be reported."""
    d = os.path.join(WORK, "selftest")
    os.makedirs(d, exist_ok=True)
    r = tlc("MC_NodeLookup", cfg="MC_NodeLookup_barehash", workers=1, name="selftest_lookup_barehash")
    if r.invariant_violated != "BareHashIsRef":
        print("SELFTEST FAILED: the bare-string-hash control did not violate the lookup law")
        return 2
    tr = os.path.join(d, "c20.ndjson")
    vh(["c20", "--out", tr, "--n", "40"])
    recs = read_ndjson(tr)
    base = tlc("Trace_NodeApi", workers=1, env={"TRACE": tr}, name="selftest_nodeapi0")
    if base.rejects or base.judged != len(recs):
        print("SELFTEST FAILED: Trace_NodeApi rejects an untouched recording: %s" % base.rejects[:3])
        return 2
    want = set()
    si = next(i for i, x in enumerate(recs) if x["k"] == "STR" and any(p["a"][0]["found"] for p in x["probes"]))
    pj = next(j for j, p in enumerate(recs[si]["probes"]) if p["a"][0]["found"])
    recs[si]["probes"][pj]["a"][1] = {"found": False}          # Index<&str> "panicked" although the others found the key
    want.add((si + 1, "str", pj + 1))
    ii = next(i for i, x in enumerate(recs) if x["k"] == "INT" and x["node"]["t"] == "seq" and len(x["node"]["items"]) >= 1)
    recs[ii]["probes"][0]["a"][0] = {"found": True, "val": {"t": "str", "v": "not the first item"}}
    want.add((ii + 1, "int", 1))
    hi = next(i for i, x in enumerate(recs) if x["k"] == "HASH" and x["eq"] == "true")
    recs[hi]["hy"] = "0123456789abcdef"
    want.add((hi + 1, "hash", 0))
    tb = os.path.join(d, "c20bad.ndjson")
    write_ndjson(tb, recs)
    j = tlc("Trace_NodeApi", workers=1, env={"TRACE": tb}, name="selftest_nodeapi1")
    got = set((x[0], x[1], x[2]) for x in j.rejects)
    if got != want:
        print("SELFTEST FAILED: Trace_NodeApi rejected %s, expected %s" % (sorted(got), sorted(want)))
        return 2
    rp = os.path.join(d, "c20replay.out")
    rec = {"map": {"t": "map", "pairs": [[{"t": "str", "v": "a"}, {"t": "int", "v": "1"}]]}, "seq": {"t": "seq", "items": [{"t": "str", "v": "a"}]},
           "probes": [{"k": "a", "ans": {"found": False}}], "ints": []}
    with open(rp, "w") as f:
        f.write('<<"REPLAY", %s>>\n' % json.dumps(json.dumps(rec)))
    s = vh_json(["c20-replay", "--in", rp, "--out", rp + ".mm"])
    if s["mismatch"] == 0:
        print("SELFTEST FAILED: a flipped REPLAY expectation was not reported (%s)" % s)
        return 2
    return 0
