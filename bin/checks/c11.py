"""C11 — nesting depth cannot crash the process."""
import json, os
from vlib import *
import props

ID = "C11"
INFO = ("YNest (TLA+): the recursion that nesting causes as a counter machine (one level of recursion in Parser::load / Drop / Clone / Eq / Hash / the emitter per open collection), "
        "with the parser's nesting limit; MC_Nest checks that the recursion is bounded by a constant independent of the input (and MC_Nest_nolimit, the code before the repair, violates it). "
        "YParser carries the same limit, so MC_Pipeline/MC_ParserPDA cover its error path. Scenarios {8 nesting shapes: '- ', 'k:' per level, '? ', '[', '{a:', alternating block, "
        "alternating flow, '- k:', a block scalar under '- ' levels (every depth 1..80, with and without a final line break)} x depth {1 .. 10^5 (thorough: also 3*10^5), dense around the limits 255 and 1000} x API {iterator, load, load_from_str + drop, clone + eq + hash, emit} "
        "each run in its own process on the default 8 MiB main-thread stack; exit status and the recursion depth seen by the `load` hook are judged by Trace_Nest in TLC.",
        "Stack bytes are not modelled (recursion depth is); the byte-level consequence is observed in a child process with the default main-thread stack.",
        "TLA+ model checking of the recursion bound + TLC trace validation of per-process scenario outcomes", "7/C11")


def run(ck):
    ck.rule = "every (shape, depth, API) scenario in its own process; distinct = scenarios"
    ck.assumptions = ["default 8 MiB main-thread stack of the child process", "release build with debug assertions (larger frames than a plain release build)"]
    m = props.tlc_cached(ck, "YNest", "MC_Nest", [], workers=2)
    if m["violated"]:
        raise ToolError("MC_Nest: Bounded violated inside the model")
    # unbounded safety of the same recursion bound: an inductive invariant discharged by Apalache (bonus; the
    # property does not depend on it -- TLC covers inputs of up to 10^5 collections)
    import subprocess, shutil
    ap = []
    try:
        adir = os.path.join(SPEC, "apalache")
        for args in (["--init=Init", "--inv=IndInv", "--length=0"], ["--init=IndInit", "--inv=IndInv", "--length=1"], ["--init=IndInit", "--inv=Bounded", "--length=0"]):
            p = subprocess.run(["timeout", "240", "apalache-mc", "check", "--out-dir=" + ck.wd("apalache")] + args + ["YNestInd.tla"], cwd=adir, stdout=subprocess.PIPE, stderr=subprocess.STDOUT, text=True)
            ap.append("NoError" in p.stdout and p.returncode == 0)
        shutil.rmtree(ck.wd("apalache"), ignore_errors=True)
    except Exception as e:
        ap.append("unavailable: %s" % e)
    ck.extra["apalache_inductive_invariant"] = {"obligations": ["Init => IndInv", "IndInv /\\ Next => IndInv'", "IndInv => Bounded"], "discharged": ap}
    depths = "1,10,100,254,255,256,257,900,998,999,1000,1001,1002,1100,3000,10000,30000,100000"
    if ck.tier == "thorough":
        depths += ",300000"
    out = ck.wd("c11.ndjson")
    s = vh_json(["c11", "--out", out, "--depths", depths], timeout=7200)
    ck.evaluations += s["scenarios"]
    ck.distinct += s["scenarios"]
    ck.exhaustive = False
    recs = read_ndjson(out)
    # the TLC JSON reader has no null: hand it the fields the judge reads
    tr = ck.wd("c11.trace.ndjson")
    write_ndjson(tr, [{"k": "NEST", "shape": r["shape"], "depth": r["depth"], "api": r["api"], "died": bool(r.get("died")), "maxstates": r.get("maxstates", 0)} for r in recs])
    j = props.judge(ck, "Trace_Nest", tr)
    ck.traces += j.judged
    for rej in j.rejects:
        r = recs[rej[0] - 1]
        how = "neither succeeded nor failed within 30 s" if r.get("exit") == 124 else ("panicked" if r.get("exit") == 101 else rej[1])
        ck.violation("nest:%s:%s:depth=%d" % (r["shape"], r["api"], r["depth"]), "%s — shape %s nested %d deep through %s (exit %s, signal %s)" % (how, r["shape"], r["depth"], r["api"], r.get("exit"), r.get("signal")), r)
    for r in recs:
        if r.get("maxstates", 0) > 1002:
            ck.note_drift({"shape": r["shape"], "depth": r["depth"], "states": r["maxstates"], "note": "state stack higher than the model's nesting limit"})
    for x in s["samples"]:
        ck.sample(x)
    deep = [r for r in recs if r["depth"] >= 3000 and r.get("outcome")]
    for r in deep[:2]:
        ck.sample({"shape": r["shape"], "depth": r["depth"], "api": r["api"], "outcome": r["outcome"]})


def selftest():
    r = tlc("YNest", cfg="MC_Nest_nolimit", workers=1, name="selftest_nest")
    if r.invariant_violated != "Bounded":
        print("SELFTEST FAILED: YNest without a limit should violate Bounded")
        return 2
    d = os.path.join(WORK, "selftest")
    os.makedirs(d, exist_ok=True)
    write_ndjson(os.path.join(d, "nest.ndjson"), [{"k": "NEST", "died": False, "maxstates": 12}, {"k": "NEST", "died": True, "maxstates": 0}, {"k": "NEST", "died": False, "maxstates": 5000}])
    r = tlc("Trace_Nest", workers=1, env={"TRACE": os.path.join(d, "nest.ndjson")}, name="selftest_tnest")
    if sorted(x[0] for x in r.rejects) != [2]:
        print("SELFTEST FAILED: Trace_Nest rejects", r.rejects)
        return 2
    return 0
