"""C05 — block scalars yield exactly the text YAML assigns to them."""
import json, os
from vlib import *
import props

ID = "C05"
INFO = ("YRenderBlock (TLA+ reference): BlockValue = the text a block scalar denotes (literal: lines verbatim; folded: adjacent text lines joined by a space, empty and more-indented "
        "lines kept; strip/clip/keep chomping) and its rendering (header with indentation indicator and chomping indicator in either order, optional comment; content indentation "
        "0-2 beyond the minimum and a 13-deeper family that reaches the buffer-size path; empty lines with and without spaces; nine parent contexts (including a following sibling at the parent's own column, and an entry after a plain scalar and an empty line); end of input with final newline, "
        "without, with trailing empty lines, or followed by a less-indented node). Gen_Block: TLC enumerates every list of <= 2 (quick) / 3 (thorough) lines over 11 line kinds (text, number-like, marker-like, "
        "comment-like, entry-like, key-like, more-indented by space / by tab, empty with 0 / 1 spaces) x all parameters and simulates lists of <= 6 lines; each rendered stream is "
        "replayed on the real parser (both back-ends; the buffered one exercises the raw-read path) and the scalar's value and style compared, and loaded (the scalar must be a string with that value); the scanner model must agree (drift otherwise).",
        "At top level an explicit indicator is the content indentation itself (the property's wording; YAML's production counts from -1 there). An unterminated last line is a content line, or blanks only when not under keep chomping (where the readings differ).",
        "TLA+ reference semantics of block scalars; TLC-enumerated behaviours replayed into the real parser", "7/C05")


def run(ck):
    ck.rule = "all (line list <= NL, style, chomping, indentation, header variant, context, ending) combinations (exhaustive) + simulated longer line lists; distinct = distinct rendered texts"
    ck.assumptions = ["YAML 1.2.2 section 8.1 as read in DESIGN.md appendix A.8"]
    deps = props.PIPE_DEPS + ["YRenderBlock.tla"]
    m = props.tlc_cached(ck, "Gen_Block", "Gen_Block" if ck.tier == "thorough" else "Gen_Block_quick", deps, workers=12 if ck.tier == "thorough" else 8, keep_out=True, timeout=3 * 3600)
    if not m["ok"]:
        raise ToolError("Gen_Block did not complete: %s" % m["tail"][-800:])
    outs = [m["out"]]
    sim = ck.wd("sim.out")
    # note: in simulation mode TLC evaluates the printing invariant on every successor it generates
    r = tlc("Gen_Block", cfg="Gen_Block_sim", workers=8, out_path=sim, name="c05_sim", simulate=8 if ck.tier == "quick" else 400, depth=10, timeout=7200)
    ck.add_tlc(r)
    outs.append(sim)
    for o in outs:
        bad = ck.wd(os.path.basename(o) + ".bad")
        s = vh_json(["c03", "--in", o, "--out", bad, "--load", "1", "--breaks", "1"])
        ck.evaluations += s["runs"]
        ck.distinct += s["distinct"]
        ck.traces += s["behaviours"]
        ck.drift += s["model_disagrees"]
        for b in read_ndjson(bad):
            ck.violation("block:%s" % json.dumps(b["t"]), "%s — %s block scalar (%s, ending %s) in %s context, rendered %r (%s)" % (b["why"], b["info"][1], b["info"][2], b["info"][3], b["info"][0], b["t"][:120], b["be"]), b)
        for x in s["samples"][:2]:
            ck.sample(x)
    os.remove(sim)
    if len(ck.samples) < 3:
        ck.sample({"text": "k: >-2 # c\n   ab\n\n    m\n", "note": "shape of a generated case"})
