"""C10 — all input back-ends behave identically."""
import json, os
from vlib import *
import props

ID = "C10"
INFO = ("YInput (TLA+): the Input contract as an abstract machine and its two refinements (string slice with a high-water mark, ring buffer of capacity K with NUL padding); "
        "MC_Input checks on every contract-respecting operation sequence over small texts that both refinements answer every operation as the abstract input does. "
        "Gen_Input: the abstract input's answers to all 30 trait operations at every offset of every text <= 3 (quick) / 4 (thorough) over 16 symbols are replayed on the real "
        "StrInput and BufferedInput (difference from the specification on both alike = drift; difference between the two = lead, followed up by parsing documents that embed the text). "
        "Every pool text is parsed by the real code through StrInput, BufferedInput and contract-asserting inputs of capacity 8/16/64/128; pairs that differ in any event, span or error, "
        "and a 1% sample of identical ones, are judged by Trace_Rel (YRel!SameRun) in TLC.",
        "Byte-identical recordings satisfy SameRun trivially and are only sampled into TLC. The contract-asserting inputs panic when the scanner breaks a precondition (counted as a difference).",
        "TLA+ model checking of an input refinement + TLC trace validation of differing pairs", "7/C10")


def run(ck):
    ck.rule = "every distinct pool text x 5 alternative back-ends compared with the string back-end; distinct = texts"
    m = props.tlc_cached(ck, "MC_Input", "MC_Input" if ck.tier == "thorough" else "MC_Input_quick", ["YInput.tla", "YChars.tla"], workers=8)
    if m["violated"]:
        raise ToolError("MC_Input: refinement violated inside the model; see %s" % m["out"])
    pool = props.full_pool(ck, rendered=True)
    out = ck.wd("c10.ndjson")
    s, crash = props.run_recorder(ck, ["c10", "--pool", pool, "--out", out], out)
    if crash:
        raise ToolError("recorder died: %s" % crash)
    ck.evaluations += 6 * s["texts"]
    ck.distinct += s["texts"]
    ck.extra["pairs_identical"] = s["pairs_same"]
    ck.extra["pairs_differing"] = s["pairs_diff"]
    j = props.judge(ck, "Trace_Rel", out, chunk=40000)
    ck.traces += j.judged
    if j.rejects:
        recs = read_ndjson(out)
        for rej in j.rejects[:300]:
            r = recs[rej[0] - 1]
            ck.violation("backend:%s:%s" % (json.dumps(r["t"]), r["be"]), "%s differs from the string back-end: %s — input %r" % (r["be"], rej[1], r["t"][:100]), r)
    for x in s["samples"]:
        ck.sample(x)
    # method level: the abstract input's answers to every trait operation at every offset of every small text, replayed on
    # the real StrInput and BufferedInput; a difference between the two is followed up with documents embedding the text
    g = props.tlc_cached(ck, "Gen_Input", "Gen_Input" if ck.tier == "thorough" else "Gen_Input_quick", ["YInput.tla", "YChars.tla"], workers=8, keep_out=True)
    if not g["ok"]:
        raise ToolError("Gen_Input did not complete: %s" % g["tail"][-800:])
    ops, rel = ck.wd("ops.ndjson"), ck.wd("ops_rel.ndjson")
    so = vh_json(["c10-ops", "--in", g["out"], "--out", ops, "--rel", rel])
    ck.traces += so["records"]
    ck.evaluations += so["ops"]
    ck.drift += so["drift"]
    ck.drift_samples += so["drift_samples"][:max(0, 5 - len(ck.drift_samples))]
    ck.extra["input_operations_replayed"] = so["ops"]
    ck.extra["method_level_differences"] = {"leads": so["leads"], "shown_by_a_document": so["confirmed"], "not_observable_through_the_parser": so["unconfirmed"]}
    if so["confirmed"]:
        jr = props.judge(ck, "Trace_Rel", rel, name="C10_ops_rel")
        rr = read_ndjson(rel)
        for rej in jr.rejects[:100]:
            r = rr[rej[0] - 1]
            ck.violation("backend:%s:%s" % (json.dumps(r["t"]), r["be"]), "%s differs from the string back-end: %s — input %r (found from a difference of the input operations %s on %r at offset %d)" % (
                r["be"], rej[1], r["t"][:100], ", ".join(r["lead"]["ops"]) or "look-ahead helpers", r["lead"]["text"], r["lead"]["off"]), r)
    for x in so["samples"][:2]:
        ck.sample(x)
