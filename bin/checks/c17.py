"""C17 — pull, peek and push interfaces tell the same story."""
import json, os
from vlib import *
import props

ID = "C17"
INFO = ("YApi (TLA+): reference semantics of peek/next/load over an abstract event source; MC_Api checks the implementation-shaped API model "
        "(current cache, stream_end_emitted, error latch) against it on every call history over every source of <= 6 items; call histories "
        "(all histories up to a bound for streams of <= 5 items, peek-count patterns at every position for <= 12 items, random ones beyond) and "
        "load(true) / repeated load(false) deliveries are executed on the real parser (both back-ends) and judged record by record by Trace_Api in TLC.",
        "Plain iteration of the same real parser on the same text is the base the relation refers to (as the property states). After an error has been returned by next nothing is required.",
        "TLA+ model checking (TLC) of the API model + TLC trace validation of recorded call histories", "7/C17")


def run(ck):
    ck.rule = ("texts: up to 3 (quick) / 8 (thorough) pool texts per (stream length <= 12, ending) + random longer ones; histories: all of length <= 7 for short streams, "
               "k in {0,1,2} peeks before every next, single/double peeks at every position, random; both back-ends; distinct = (text, history) pairs executed")
    ck.assumptions = ["the base of the comparison is plain iteration on the string back-end"]
    m = props.tlc_cached(ck, "MC_Api", "MC_Api", ["YApi.tla"], workers=4)
    if m["violated"]:
        raise ToolError("MC_Api: invariant violated inside the model: %s" % m["out"])
    ck.exhaustive = False
    pool = props.full_pool(ck, soups=20000 if ck.tier == "quick" else None)
    out = ck.wd("c17.ndjson")
    s, crash = props.run_recorder(ck, ["c17", "--pool", pool, "--out", out, "--tier", ck.tier], out)
    if crash:
        raise ToolError("recorder died: %s" % crash)
    ck.evaluations += s["histories"] + s["pushes"]
    ck.distinct += s["histories"]
    j = props.judge(ck, "Trace_Api", out, chunk=150000, start_marker='{"base":', timeout=7200)
    ck.traces += j.judged
    if j.rejects:
        recs = read_ndjson(out)
        for rej in j.rejects[:200]:
            l = rej[0]
            # find the TEXT and NEW records this call belongs to
            t, h, k = None, None, l - 1
            while k >= 0 and (t is None):
                r = recs[k]
                if r["k"] == "NEW" and h is None:
                    h = r.get("h")
                if r["k"] == "TEXT":
                    t = r["t"]
                k -= 1
            r = recs[l - 1]
            what = "%s on %r: %s" % (r["k"] if r["k"] != "CALL" else ("history %s, call %s" % (h, r["op"])), (t or "")[:80], rej[1])
            ck.violation("%s:%s:%s" % (r["k"], json.dumps(t), h if r["k"] == "CALL" else r.get("be")), what, {"text": t, "history": h, "record": r})
    for x in s["samples"]:
        ck.sample(x)


def selftest():
    """Negative control: the API model without the error latch must violate Agree."""
    r = tlc("MC_Api", cfg="MC_Api_nolatch", workers=2, name="selftest_api")
    if r.invariant_violated != "Agree":
        print("SELFTEST FAILED: MC_Api without the error latch should violate Agree")
        return 2
    # corrupt one recorded return value: the judge must reject it
    d = os.path.join(WORK, "selftest")
    os.makedirs(d, exist_ok=True)
    ev = lambda k, last=False: {"kind": "ev", "last": last, "ev": {"k": k}}
    base = [ev("StreamStart"), ev("StreamEnd", True)]
    recs = [{"k": "TEXT", "t": "", "base": base}, {"k": "NEW"}, {"k": "CALL", "op": "peek", "ret": base[0]}, {"k": "CALL", "op": "next", "ret": base[1]}]
    write_ndjson(os.path.join(d, "api.ndjson"), recs)
    r = tlc("Trace_Api", workers=1, env={"TRACE": os.path.join(d, "api.ndjson")}, name="selftest_tapi")
    if [x[0] for x in r.rejects] != [4]:
        print("SELFTEST FAILED: Trace_Api should reject record 4, got", r.rejects)
        return 2
    return 0
