"""C04 — plain and quoted scalars yield exactly the text YAML assigns to them."""
import json, os
from vlib import *
import props

ID = "C04"
INFO = ("YRenderScalar (TLA+ reference): the presentations YAML 1.2.2 allows for a target string -- plain where representable in the context, single-quoted ('' doubling), "
        "double-quoted with a per-character choice of literal / short escape / \\x / \\u / \\U, line folding (k line feeds = k+1 breaks, one space = one break, padding before and "
        "indentation after a break are not content), escaped line breaks -- in ten syntactic contexts (top level, block key/value, sequence entry, the same after a plain scalar and an empty line, nested value, flow entry/key/value, "
        "explicit key). Gen_Scalar: TLC enumerates every target of <= 2 characters over an 11-symbol tricky alphabet x style x context x every choice vector, "
        "every single character of a 27-symbol alphabet that has every named escape of section 5.7 (\\0 \\a \\b \\t \\<TAB> \\n \\v \\f \\r \\e \\<space> \\\" \\/ \\\\ \\N \\_ \\L \\P) in every form and context, 28 fixed "
        "targets whose middle word looks like syntax (--- ... - # ? : | > &x *x !t %Y [x] {x} quotes) under every placement of <= 2 line folds / escaped breaks, "
        "10 targets with blanks next to folds (blanks written as escapes before / after a fold inside double quotes; padding before a break, empty lines and interior blanks together) under every <= 2 non-default choices, "
        "80 long words (14..257 characters) with '#', ':', a blank or a non-ASCII character at the sizes of the scanner's buffers, "
        "and simulates targets of <= 7 characters over the 27-symbol alphabet (NUL, ESC, NEL, astral, flow indicators); every rendered stream is replayed on the real parser through "
        "both back-ends and the scalar's value and style compared with the target; the scanner model must agree too (drift otherwise).",
        "Presentation rules as read in DESIGN.md appendix A.6/A.7 (conservative: a top-level plain scalar is continued at column >= 1; no continuation line starts with an indicator).",
        "TLA+ reference presentation rules; TLC-enumerated behaviours replayed into the real parser", "7/C04")


def run(ck):
    ck.rule = ("all (target <= N, style, context, per-character choices, continuation indent, padding) combinations (exhaustive) + simulated longer targets; "
               "distinct = distinct rendered texts replayed on both back-ends")
    ck.assumptions = ["YAML 1.2.2 flow-scalar folding as read in DESIGN.md appendix A"]
    deps = props.PIPE_DEPS + ["YRenderScalar.tla"]
    # (N = 3 with every choice vector is ~10^8 behaviours / tens of GB of TLC output: the thorough tier keeps the
    # exhaustive N = 2 space and deepens by simulation instead)
    m = props.tlc_cached(ck, "Gen_Scalar", "Gen_Scalar_quick", deps, workers=8, keep_out=True, timeout=4 * 3600, xmx="12g")
    if not m["ok"]:
        raise ToolError("Gen_Scalar did not complete: %s" % m["tail"][-800:])
    outs = [m["out"]]
    # every character of the wide alphabet alone (the complete table of named escapes, every escape form, every context), and the
    # fixed targets (words that look like syntax -- document markers, indicators, comments -- at the start of a continuation line)
    for cfg in ["Gen_Scalar_esc", "Gen_Scalar_fixed", "Gen_Scalar_long", "Gen_Scalar_fold"]:
        mm = props.tlc_cached(ck, "Gen_Scalar", cfg, deps, workers=8, keep_out=True, timeout=3600)
        if not mm["ok"]:
            raise ToolError("%s did not complete: %s" % (cfg, mm["tail"][-800:]))
        outs.append(mm["out"])
    sim = ck.wd("sim.out")
    r = tlc("Gen_Scalar", cfg="Gen_Scalar_sim", workers=8, out_path=sim, name="c04_sim", simulate=300 if ck.tier == "quick" else 6000, depth=20, timeout=7200)
    ck.add_tlc(r)
    outs.append(sim)
    for o in outs:
        bad = ck.wd(os.path.basename(o) + ".bad")
        s = vh_json(["c03", "--in", o, "--out", bad, "--load", "1", "--breaks", "1"])
        ck.evaluations += s["runs"]
        ck.distinct += s["distinct"]
        ck.traces += s["behaviours"]
        ck.drift += s["model_disagrees"]
        for b in read_ndjson(bad):
            ck.violation("scalar:%s" % json.dumps(b["t"]), "%s — %s scalar in %s context, rendered %r (%s)" % (b["why"], b["info"][1], b["info"][0], b["t"][:120], b["be"]), b)
        for x in s["samples"][:2]:
            ck.sample(x)
    os.remove(sim)
    ck.exhaustive = False
    if len(ck.samples) < 3:
        ck.sample({"text": "k: \"a\\\n  b\"\n", "note": "shape of a generated case (escaped line break in a block value)"})
