"""C13 — every JSON text loads with its JSON meaning."""
import json, os
from vlib import *
import props

ID = "C13"
INFO = ("YJson (TLA+ reference): JSON values drawn from a choice tape (objects with distinct hostile string keys, arrays, all literals, boundary integers, floats, strings with every JSON "
        "escape, YAML indicators, type-like and blank-edged strings, NUL / astral / line-separator characters), their serialisations with insignificant white space from "
        "{nothing, space, two spaces, tab, LF, CR LF, LF + spaces, LF + tab} around every token, and the data a JSON parser yields. Gen_Json: TLC enumerates all tapes of length 5 over 8 choices and "
        "simulates long tapes (depth <= 5, below the flow limit); each text is loaded with Yaml::load_from_str and compared member by member with the JSON meaning (structure, key order, "
        "string contents, literal types, integer values; float values against an independent JSON parser). The flow-collection paths of the scanner model are checked by MC_Pipeline/Gen_Render.",
        "Float values are compared with serde_json's parse of the same literal (TLC has no reals); serde_json must also accept every generated text (generator sanity). No surrogate-pair escapes.",
        "TLA+ reference generator; TLC-generated behaviours replayed into the real loader", "7/C13")


def run(ck):
    ck.rule = "all tapes of length 5 over 8 choices (exhaustive) + simulated tapes of length 60 over 64 choices, nesting <= 5; distinct = distinct JSON texts loaded"
    ck.assumptions = ["serde_json as the independent JSON parser for float values and generator sanity"]
    m = props.tlc_cached(ck, "Gen_Json", "Gen_Json_bfs", ["YJson.tla"], workers=8, keep_out=True)
    if not m["ok"]:
        raise ToolError("Gen_Json did not complete: %s" % m["tail"][-800:])
    sim = ck.wd("sim.out")
    r = tlc("Gen_Json", cfg="Gen_Json_sim", workers=8, out_path=sim, name="c13_sim", simulate=3000 if ck.tier == "quick" else 40000, depth=64, timeout=7200)
    ck.add_tlc(r)
    for o in [m["out"], sim]:
        bad = ck.wd(os.path.basename(o) + ".bad")
        s = vh_json(["c13", "--in", o, "--out", bad])
        ck.evaluations += s["distinct"]
        ck.distinct += s["distinct"]
        ck.traces += s["behaviours"]
        ck.extra["longest_json_text"] = max(ck.extra.get("longest_json_text", 0), s["longest"])
        for b in read_ndjson(bad):
            if b["why"].startswith("GENERATOR"):
                raise ToolError("the JSON generator produced a text an independent JSON parser rejects: %r (%s)" % (b["t"], b["why"]))
            ck.violation("json:%s" % json.dumps(b["t"]), "%s — JSON text %r" % (b["why"], b["t"][:160]), b)
        for x in s["samples"][:2]:
            ck.sample(x)
    os.remove(sim)
    if len(ck.samples) < 3:
        ck.sample({"json": "{\t\"a\":\t1}"})
        ck.sample({"json": "[null , true]"})


def selftest():
    d = os.path.join(WORK, "selftest")
    os.makedirs(d, exist_ok=True)
    rec = {"tape": [], "text": list('{"a": 1}'), "node": {"t": "map", "v": [[{"t": "str", "v": ["a"]}, {"t": "int", "v": ["2"]}]]}}
    with open(os.path.join(d, "json.out"), "w") as f:
        f.write('<<"REPLAY", %s>>\n' % json.dumps(json.dumps(rec)))
    s = vh_json(["c13", "--in", os.path.join(d, "json.out")])
    if s["bad"] != 1:
        print("SELFTEST FAILED: c13 replay accepted a corrupted expectation", s)
        return 2
    return 0
