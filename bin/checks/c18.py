"""C18 -- byte input decodes to the same documents, and decoding always ends.

 (1) spec/YDecode.tla is model-checked (MC_Decode*.cfg): Termination (<>done under weak fairness),
     StrictMeansError, the progress measure, ... hold for the repaired growth rule against an
     adversarial decoder that honours only encoding_rs' documented contract; the growth rule of
     the pinned code (MC_Decode_pinned.cfg) is kept as a negative control -- TLC must find the lasso
     OutputFull -> reserve(0) -> OutputFull -- and the input of that counterexample is turned into
     bytes and replayed on the real code (a counterexample in the model is a lead, not a verdict).
 (2) `vh c18-decode` runs the real YamlDecoder on generated texts x 6 encodings, on all short byte
     strings over ten indicator bytes, on random bytes and on truncated / garbled encodings, with
     every trap, each call in a child process under a watchdog, and records loop heads (`dec` hook),
     result kind and document equality.
 (3) spec/Trace_Decode.tla judges every record."""
import os, json, re, hashlib
from concurrent.futures import ThreadPoolExecutor
from vlib import *
import props

ID = "C18"
INFO = (
    "YDecode (TLA+): decode_loop over an abstract decoder that honours only encoding_rs' documented contract; TLC checks Termination (<>done, weak fairness), "
    "StrictMeansError, the progress measure and completeness for all inputs of <= 6 (thorough: 8) abstract code units x BOM x 4 traps x {UTF-8, UTF-16} with the repaired growth rule, "
    "and finds the lasso of the pinned rule (negative control, replayed on the real code as bytes). Byte level: detection (BOM / NUL pattern) and UTF-8/UTF-16 well-formedness are "
    "TLA+ operators; TLC checks that all in-scope texts <= 3 characters over a 7-code-point alphabet are recognised in all six encodings. The real YamlDecoder is run, every call in a "
    "watchdog-supervised child process, on generated texts (ASCII/Latin/CJK/astral, 0..4096 characters, dense below 64) x 6 encodings x 5 trap configurations, on ALL byte strings "
    "<= 4 (thorough: 6) over {00,0A,20,2D,41,80,C3,E4,FE,FF}, on random bytes and on truncated/garbled encodings; TLC (Trace_Decode) judges every record: no time-out/panic, same documents as the "
    "direct load for in-scope texts, strict trap + malformed input => decode error, other traps continue, and the recorded loop heads are a behaviour of YDecode.",
    "encoding_rs is abstracted to its documented contract (checked on every observed call); exhaustive bounds are small (model: <= 8 units; bytes: <= 6 over ten values), beyond them sampled executions. "
    "Document equality is computed on the JSON projection in the harness (pure equality), everything else by TLC.",
    "TLA+ model checking (TLC, liveness under weak fairness) of the decode loop + TLC trace validation of recorded decode runs (watchdog-supervised child processes)",
    "7/C18")

MC_DEPS = ["YDecode.tla"]
VIOLATION_REASONS = {"timeout", "panic", "docs", "strict", "trapstop"}
DRIFT_REASONS = {"head", "step", "measure", "contract", "wfdecode", "detect"}


class _Sink:
    """stand-in for a Check where only TLC statistics are wanted"""
    states = 0
    transitions = 0


# ------------------------------------------------------------------------------------------------
# model level
# ------------------------------------------------------------------------------------------------
def model_holds(ck, cfg):
    import props
    m = props.tlc_cached(ck, "MC_Decode", cfg, MC_DEPS, workers=6, timeout=3000, xmx="8g")
    if m["violated"] or m["liveness_violated"] or not m["ok"]:
        raise ToolError("%s: the repaired model violates its own properties (invariant %s, liveness %s); see %s" % (cfg, m["violated"], m["liveness_violated"], m["out"]))
    return m


def negative_control(ck, cfg="MC_Decode_pinned"):
    """TLC must find the lasso of the pinned growth rule; returns (meta, counterexample text)."""
    import props
    m = props.tlc_cached(ck, "MC_Decode", cfg, MC_DEPS, workers=6, timeout=3000, xmx="8g", keep_out=True)
    if not m["liveness_violated"]:
        raise ToolError("%s: TLC no longer reports the Termination lasso of the pinned growth rule (negative control lost)" % cfg)
    return m, open(m["out"], errors="replace").read()


UNIT8 = {(1, 1, False): "61", (3, 3, False): "E4B8AD", (4, 4, False): "F09F9880", (1, 0, True): "80", (3, 0, False): "EFBBBF"}
UNIT16 = {(2, 1, False): "6100", (2, 3, False): "2D4E", (4, 4, False): "3DD800DE", (2, 0, True): "00DC", (2, 0, False): "FFFE"}


def lead_of(cex):
    """The first state of TLC's counterexample -> concrete bytes (UTF-8, or UTF-16LE) + trap."""
    i = cex.find("State 1:")
    j = cex.find("State 2:", i)
    st = cex[i:j if j > 0 else len(cex)]
    enc = re.search(r'enc = "(\w+)"', st).group(1)
    trap = re.search(r'trap = "(\w+)"', st).group(1)
    cap = int(re.search(r'cap = (\d+)', st).group(1))
    units = [(int(a), int(b), c == "TRUE") for a, b, c in re.findall(r'\[inb \|-> (\d+), need \|-> (\d+), bad \|-> (TRUE|FALSE)\]', st)]
    table = UNIT8 if enc == "utf8" else UNIT16
    hx = "".join(table[u] for u in units)
    return {"hex": hx, "trap": trap, "enc": enc, "units": units, "cap0": cap, "note": "lasso of MC_Decode_pinned: %s units %s trap %s" % (enc, units, trap)}


# ------------------------------------------------------------------------------------------------
# judging (chunks in parallel, at most 4 TLC processes with one worker each)
# ------------------------------------------------------------------------------------------------
def judge_trace(ck, trace, name, chunk=20000, par=4):
    """Split the trace into parts (streaming), judge the parts with up to `par` single-worker TLC
    processes, and return (rejects, judged, lead records); a reject is (index, reason, trap, record)."""
    parts = []
    leads = []
    with open(trace) as f:
        k, n, out = 0, 0, None
        for line in f:
            if out is None:
                p = "%s.part%d" % (trace, len(parts))
                parts.append((k, p))
                out = open(p, "w")
            out.write(line)
            if '"fam":"lead"' in line:
                leads.append(json.loads(line))
            k += 1
            n += 1
            if n == chunk:
                out.close()
                out, n = None, 0
        if out is not None:
            out.close()

    def one(kp):
        k, p = kp
        r = tlc("Trace_Decode", workers=1, env={"TRACE": p}, name="%s_%s_%d" % (ck.prop if ck else "selftest", name, k // chunk), timeout=3000, deque=True, xmx="5g")
        if not r.ok:
            raise ToolError("judge Trace_Decode did not complete on %s:\n%s" % (p, r.out[-2000:]))
        want = {}
        for rej in r.rejects:
            want.setdefault(rej[0], []).append((rej[1], rej[2] if len(rej) > 2 else "-"))
        found = []
        if want:
            with open(p) as f:
                for i, line in enumerate(f, 1):
                    if i in want:
                        rec = json.loads(line)
                        for why, trap in want[i]:
                            found.append((k + i, why, trap, rec))
        os.remove(p)
        return r, found

    rejects, judged = [], 0
    with ThreadPoolExecutor(max_workers=par) as ex:
        for r, found in ex.map(one, parts):
            judged += r.judged
            if ck:
                ck.add_tlc(r)
            rejects.extend(found)
    return rejects, judged, leads


def case_key(reason, r, trap):
    hx = r["hex"] if r["blen"] <= 64 else r["hex"] + "#" + r["id"]
    if reason == "timeout":
        return "spin:%s:%s" % (hx, trap)
    if reason == "docs":
        cls = "bomfirst" if r["first"] == 65279 else "ascii"
        return "docs:%s:%s:%s:%s:%s" % (cls, r["enc"], "bom" if r["bom"] else "nobom", hx, trap)
    return "%s:%s:%s" % (reason, hx, trap)


WHAT = {
    "timeout": "decode() did not return within the watchdog time (it spins)",
    "panic": "decode() panicked or the process died",
    "docs": "documents differ from Yaml::load_from_str(text)",
    "strict": "malformed input was not reported as a decode error",
    "trapstop": "a continuing trap ended in a decode error",
}


def full_hex(trace, r):
    if r["blen"] <= 64:
        return r["hex"]
    try:
        for l in open(trace + ".long"):
            j = json.loads(l)
            if j["id"] == r["id"]:
                return j["hex"]
    except OSError:
        pass
    return None


def run(ck):
    thorough = ck.tier == "thorough"
    ck.rule = ("cases = generated texts (ASCII / Latin-1 / CJK / astral mixes and homogeneous runs, 0..4096 characters, every length <= 64, first character ASCII or U+FEFF) x {UTF-8, UTF-16LE, UTF-16BE} x {BOM, no BOM} "
               "+ ALL byte strings of length <= %d over {00,0A,20,2D,41,80,C3,E4,FE,FF} + seeded random bytes + truncated/substituted/spliced encodings + the byte form of the model's lasso; each x {ignore, strict, replace, "
               "continuing callback, breaking callback}, every decode() call in a child process under a %d ms watchdog; one record per byte string, judged by Trace_Decode in TLC; plus double-quoted scalars alternating well-formed text and single malformed sequences in the three encodings, "
               "whose loaded content under ignore / replace / a continuing callback and the bytes shown to the callback are judged by Trace_DecodeTraps; "
               "distinct = distinct byte strings longer than one byte (measured)") % (6 if thorough else 4, 1500)
    ck.assumptions = [
        "encoding_rs is abstracted to its documented contract (progress with >= 4 spare bytes; never writes beyond the capacity); the contract is checked on every recorded loop head (drift if broken)",
        "String::reserve(n) is modelled by its guarantee capacity >= len + n (worst case); MinCap = 8 (what std allocates) is used only to make the negative control's lasso concrete",
        "malformedness of arbitrary bytes is asserted only where it is beyond dispute: in the detected encoding and, if the NUL-pattern guess rests on a non-ASCII byte, also as UTF-8; UTF-32 is out of scope",
        "texts contain no NUL (a NUL as second character makes UTF-8 indistinguishable from UTF-16, see MC_Decode) and no unpaired surrogates; the empty text is in scope for termination only",
        "document equality is computed in the harness on the JSON projection of the loaded documents (pure equality); a direct load that fails must correspond to a scan error of the decode path",
        "a watchdog expiry of 1.5 s, confirmed by a second run alone in a fresh process with 4.5 s, for inputs <= 16 KB is taken as non-termination",
    ]
    # (1) model level
    m = model_holds(ck, "MC_Decode" if thorough else "MC_Decode_quick")
    ck.extra["model_states_repaired_rule"] = m["states"]
    neg, cex = negative_control(ck)
    lead = lead_of(cex)
    ck.extra["negative_control"] = {"cfg": "MC_Decode_pinned", "termination_violated": True, "states": neg["states"], "lead": lead["note"], "lead_hex": lead["hex"]}
    if thorough:
        neg2, _ = negative_control(ck, "MC_Decode_div100")
        ck.extra["negative_control_div100_states"] = neg2["states"]
    leads = ck.wd("leads.ndjson")
    write_ndjson(leads, [lead])
    # (2) record the real code
    trace = ck.wd("c18.ndjson")
    s = vh_json(["c18-decode", "--tier", ck.tier, "--out", trace, "--leads", leads], timeout=3000)
    ck.evaluations += s["decode_calls"]
    ck.distinct += s["distinct_byte_strings"]
    ck.extra["records_by_family"] = s["by_family"]
    ck.extra["results"] = s["by_result"]
    ck.extra["watchdog_timeouts"] = s["timeouts"]
    ck.extra["exhaustive_family"] = "all %d byte strings of length <= %d over ten indicator bytes" % (s["by_family"].get("bytes", 0), 6 if thorough else 4)
    if s["skipped_after_max_timeouts"]:
        ck.extra["cases_not_run_after_too_many_timeouts"] = s["skipped_after_max_timeouts"]
        log("[C18] recording stopped after %d watchdog time-outs; %d byte strings were not run" % (s["timeouts"], s["skipped_after_max_timeouts"]))
    for x in s["samples"][:4]:
        ck.sample({"fam": x["fam"], "hex": x["hex"], "text": x.get("text", ""), "enc": x["enc"], "bom": x["bom"], "direct": x["direct"],
                   "runs": [{"trap": y["trap"], "res": y["res"], "same": y["same"], "heads": y["its"][:4]} for y in x["runs"][:2]]})
    # (3) judge
    rejects, judged, lead_recs = judge_trace(ck, trace, "judge", chunk=20000 if thorough else 6000)
    ck.traces += judged
    for idx, reason, trap, r in rejects:
        if reason in VIOLATION_REASONS:
            run_ = [y for y in r["runs"] if y["trap"] == trap]
            hx = full_hex(trace, r)
            replay = {k: v for k, v in r.items() if k not in ("b", "runs")}
            replay.update({"trap": trap, "run": run_[0] if run_ else None, "hex_full": hx,
                           "rerun": "work/target/verif/vh c18-decode --only %s --out /dev/stdout" % (hx if hx and len(hx) <= 400 else "<hex_full>")})
            what = "%s: %s; %s input of %d bytes %s%s, trap %s, result %s" % (
                reason, WHAT[reason], r["fam"], r["blen"], r["hex"][:64],
                (" (text %r in %s %s)" % (r.get("text", "")[:24], r["enc"], "with BOM" if r["bom"] else "without BOM")) if r["fam"] == "text" else "",
                trap, run_[0]["res"] if run_ else "?")
            ck.violation(case_key(reason, r, trap), what, replay)
        else:
            ck.note_drift({"reason": reason, "trap": trap, "hex": r["hex"][:64], "heads": [y["its"][:6] for y in r["runs"] if y["trap"] == trap][:1]})
    # (4) "it continues as configured": the content of what the continuing traps produce, and what the callback is shown
    tf = ck.wd("c18_traps.ndjson")
    st = vh_json(["c18-traps", "--out", tf, "--n", "30000" if thorough else "1500"])
    ck.evaluations += st["evaluations"]
    jt = props.judge(ck, "Trace_DecodeTraps", tf, name="C18_traps", chunk=20000)
    ck.traces += jt.judged
    ck.extra["trap_content_cases"] = st["records"]
    if jt.rejects:
        tr = read_ndjson(tf)
        for rej in jt.rejects[:200]:
            r = tr[rej[0] - 1]
            ck.violation("traps:%s:%s" % (r["enc"], r["hex"]), "%s — %s input %s (malformed groups %s): ignore %r, replace %r, callback %r, shown %s" % (
                rej[1], r["enc"], r["hex"][:80], r["bad"], "".join(r["runs"]["ignore"]["s"])[:40], "".join(r["runs"]["replace"]["s"])[:40], "".join(r["runs"]["callhex"]["s"])[:40], r["slices"]), r)
    # was the model's lead reproduced by the real code?
    for r in lead_recs:
        if r["fam"] == "lead":
            spun = [y["trap"] for y in r["runs"] if y["res"] == "timeout"]
            ck.extra["negative_control"]["lead_reproduced_on_real_code"] = bool(spun)
            ck.sample({"fam": "lead", "hex": r["hex"], "model_trap": lead["trap"], "real_results": {y["trap"]: y["res"] for y in r["runs"]}})


# ------------------------------------------------------------------------------------------------
def selftest():
    """(a) the negative control: TLC must report the liveness violation of the pinned growth rule and
    no violation for the repaired one; (b) the judge is bound to what it judges: corrupt one field
    of a good record at a time and require exactly those records to be rejected."""
    os.makedirs(os.path.join(WORK, "selftest"), exist_ok=True)
    sink = _Sink()
    model_holds(sink, "MC_Decode_quick")
    _, cex = negative_control(sink)
    lead = lead_of(cex)
    if not lead["hex"]:
        print("SELFTEST FAILED: C18 no lead extracted from the counterexample")
        return 2

    def rec(b, runs, fam="bytes", enc="", bom=False, first=-1, direct="none"):
        return {"k": "DEC", "fam": fam, "blen": len(b), "hasb": True, "b": b, "hex": "".join("%02X" % x for x in b), "id": "0", "enc": enc, "bom": bom,
                "first": first, "tlen": 0, "text": "", "note": "", "direct": direct, "runs": runs}

    def run1(trap, res, same=False, its=None, n=8):
        return {"trap": trap, "res": res, "same": same, "cb": 0, "its": its if its is not None else [[0, n, 0, n]]}

    cjk = [0x61, 0x00, 0x2D, 0x4E, 0x2D, 0x4E, 0x2D, 0x4E]          # "a" + 3 CJK, UTF-16LE
    bad8 = [0x41, 0x80, 0x41]                                       # malformed UTF-8
    good_heads = [[0, 8, 0, 8], [6, 8, 7, 16]]
    t = [
        rec(cjk, [run1("strict", "ok", True, good_heads)], fam="text", enc="utf16le", first=0x61, direct="ok"),          # 1 accepted
        rec(cjk, [run1("strict", "timeout", False, [])], fam="text", enc="utf16le", first=0x61, direct="ok"),            # 2 timeout
        rec(cjk, [run1("strict", "ok", False, good_heads)], fam="text", enc="utf16le", first=0x61, direct="ok"),         # 3 docs
        rec(bad8, [run1("strict", "ok", n=3)]),                                                                          # 4 strict
        rec(bad8, [run1("ignore", "decode", n=3)]),                                                                      # 5 trapstop
        rec(cjk, [run1("ignore", "ok", True, [[0, 8, 0, 8], [6, 8, 7, 8], [6, 8, 7, 8]])], fam="text", enc="utf16le", first=0x61, direct="ok"),  # 6 measure (+contract? no: 1 spare byte)
        rec(bad8, [run1("strict", "decode", n=3), run1("replace", "ok", n=3)]),                                          # 7 accepted
        rec(cjk, [run1("strict", "scan", False, good_heads)], fam="text", enc="utf16le", first=0x61, direct="scan"),     # 8 accepted (both fail with a scan error)
        rec(cjk, [run1("strict", "ok", True, good_heads)], fam="text", enc="utf16be", first=0x61, direct="ok"),          # 9 detect (label says BE, bytes are LE)
    ]
    p = os.path.join(WORK, "selftest", "c18.ndjson")
    write_ndjson(p, t)
    rejects, judged, _ = judge_trace(None, p, "selftest", par=1)
    got = sorted((i, why) for i, why, _, _ in rejects)
    want = [(2, "timeout"), (3, "docs"), (4, "strict"), (5, "trapstop"), (6, "measure"), (9, "detect")]
    if judged != len(t) or got != want:
        print("SELFTEST FAILED: Trace_Decode rejected %s, expected %s (judged %d)" % (got, want, judged))
        return 2
    return 0
