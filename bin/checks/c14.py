"""C14 — line-break style does not change the parse."""
import json, os
from vlib import *
import props

ID = "C14"
INFO = ("YRel!SameModuloIndex (TLA+ reference relation). MC_Breaks: for every CR-free text <= N over a 10-symbol alphabet the scanner/parser model gives the same run modulo "
        "character indices for the text, its CRLF variant and its CR variant (theorem checked by TLC; MC_Pipeline over the alphabet containing CR binds the model to the code). "
        "Every CR-free pool text containing a line feed is run on the real parser in the three variants (both back-ends); variants that are not identical after dropping indices, "
        "and a 1% sample of those that are, are judged by Trace_Rel in TLC.",
        "Identity after dropping the index field is decided by a byte comparison (exact for an equality relation); TLC judges every differing pair.",
        "TLA+ model checking of a relational theorem + TLC trace validation of differing pairs", "7/C14")


def run(ck):
    ck.rule = "CR-free pool texts containing LF x {CRLF, CR} x {str, buffered}; distinct = texts; pairs equal modulo indices are counted, 1% of them and all unequal ones judged by TLC"
    ck.assumptions = ["the LF version is parsed on the string back-end (C10 relates the back-ends)"]
    m = props.tlc_cached(ck, "MC_Breaks", "MC_Breaks" if ck.tier == "thorough" else "MC_Breaks_quick", props.PIPE_DEPS + ["YRel.tla"], workers=8)
    if m["violated"]:
        raise ToolError("MC_Breaks: theorem violated inside the model; see %s" % m["out"])
    props.pipeline_inputs(ck, [("break", 5 if ck.tier == "thorough" else 4)])
    pool = props.full_pool(ck, rendered=True)
    out = ck.wd("c14.ndjson")
    s, crash = props.run_recorder(ck, ["c14", "--pool", pool, "--out", out], out)
    if crash:
        raise ToolError("recorder died: %s" % crash)
    ck.evaluations += 5 * s["texts"]
    ck.distinct += s["texts"]
    ck.extra["pairs_equal_modulo_index"] = s["pairs_same"]
    ck.extra["pairs_differing"] = s["pairs_diff"]
    j = props.judge(ck, "Trace_Rel", out, chunk=40000)
    ck.traces += j.judged
    if j.rejects:
        recs = read_ndjson(out)
        for rej in j.rejects[:300]:
            r = recs[rej[0] - 1]
            ck.violation("breaks:%s:%s" % (json.dumps(r["t"]), r["variant"]), "LF -> %s variant (%s): %s — input %r" % (r["variant"].upper(), r["be"], rej[1], r["t"][:100]), r)
    for x in s["samples"]:
        ck.sample(x)
