"""C06 — ill-formed YAML is rejected with an error, never silently accepted."""
import json, os
from vlib import *
import props

ID = "C06"
INFO = ("YDamage (TLA+ reference): 123 damage operators plus six truncation operators (tape-driven flow collections whose closing bracket never comes) covering the fifteen classes of the property (unclosed quotes / flow collections, mismatched closers, tab indentation (also of the continuation lines of scalars and flow collections), compact collections after a tab, entries "
        "between two open levels, flow collections continued no deeper than their block (also behind an anchor or tag in a sequence entry, as a mapping value and as an explicit key), quoted implicit keys spanning lines, quoted scalars continued no deeper than their block collection, 1025-character keys, second root nodes, unknown / truncated "
        "escapes, alias without anchor, undeclared handle, repeated %YAML, directives (also reserved ones, also in later documents) without '---', content after '...'), each built so that the result is ill-formed whatever precedes "
        "it. Gen_Damage: TLC applies every operator (inline fragments in 6 placements: own document, block sequence entry, mapping value, flow sequence entry after a plain / an explicit entry, flow mapping value) after every well-formed stream of the C03 renderer (all tapes of length 3 + simulated long tapes) and after the empty "
        "stream; each damaged stream is replayed on the real parser (both back-ends): it must end in an error before StreamEnd, also with CR LF / CR line breaks and with keep_tags(true) through the pull and the push interface. The scanner/parser model must reject too (drift otherwise). "
        "Plus the 94 error cases of the yaml-test-suite.",
        "Operators append a fresh final document / stream tail (the ill-formedness does not depend on the surrounding text).",
        "TLA+ reference damage operators over renderer output; TLC-generated behaviours replayed into the real parser", "7/C06")


def run(ck):
    ck.rule = "every damage operator x placement x base stream (exhaustive short tapes + simulated long tapes); distinct = distinct damaged texts; plus 94 suite error cases x 2 back-ends"
    ck.assumptions = ["YAML 1.2.2 as read in DESIGN.md appendix A.9"]
    deps = props.PIPE_DEPS + ["YRender.tla", "YDamage.tla"]
    m = props.tlc_cached(ck, "Gen_Damage", "Gen_Damage_bfs", deps, workers=8, keep_out=True)
    if not m["ok"]:
        raise ToolError("Gen_Damage did not complete: %s" % m["tail"][-800:])
    sim = ck.wd("sim.out")
    r = tlc("Gen_Damage", cfg="Gen_Damage_sim", workers=8, out_path=sim, name="c06_sim", simulate=60 if ck.tier == "quick" else 800, depth=44, timeout=7200)
    ck.add_tlc(r)
    for o in [m["out"], sim]:
        bad = ck.wd(os.path.basename(o) + ".bad")
        s = vh_json(["c03", "--in", o, "--out", bad, "--keeptags", "1", "--breaks", "1"])
        ck.evaluations += s["runs"]
        ck.distinct += s["distinct"]
        ck.traces += s["behaviours"]
        ck.drift += s["model_disagrees"]
        for b in read_ndjson(bad):
            ck.violation("damage:%s:%s:%s" % (b["info"][0], b["info"][1], json.dumps(b["t"][-200:])), "%s — damage operator %s (placement %s), stream tail %r (%s)" % (b["why"], b["info"][0], b["info"][1], b["t"][-100:], b["be"]), b)
        for x in s["samples"][:2]:
            ck.sample(x)
    os.remove(sim)
    # the error cases of the yaml-test-suite
    import subprocess
    n = 0
    for l in open(SUITE):
        c = json.loads(l)
        if c["fail"]:
            n += 1
    s = vh_json(["c06-suite", "--suite", SUITE, "--out", ck.wd("suite.bad")])
    ck.evaluations += s["runs"]
    ck.distinct += s["cases"]
    for b in read_ndjson(ck.wd("suite.bad")):
        ck.violation("suite:%s" % b["id"], "yaml-test-suite error case %s accepted (%s): %r" % (b["id"], b["be"], b["t"][:100]), b)
    if len(ck.samples) < 3:
        ck.sample({"text": "--- [a, b}\n", "reject": True})
        ck.sample({"text": "---\nk:\n    - a\n  - b\n", "reject": True})
        ck.sample({"text": "%YAML 1.2\na\n", "reject": True})
