"""C16 — tags resolve through the directives in force for their document."""
import json, os
from vlib import *
import props

ID = "C16"
INFO = ("YTagsRef (TLA+ reference: directive tables per document, handle resolution, percent-decoding, keep_tags) and the generator MC_Tags: TLC enumerates every "
        "directive set (0-2 %TAG lines over 4 handles x 2 prefixes incl. duplicates, optional %YAML) x 8 tag spellings x node kind over 1-2 documents x keep_tags, renders "
        "each to text and prints the tag (or error) the reference assigns; every behaviour is replayed on the real parser through both back-ends and compared. The "
        "implementation-shaped directive/tag logic (YParser!ProcessDirectives/ResolveTag, YScanner!ScanTag) is model-checked in MC_Pipeline (alphabets prop, dir).",
        "With keep_tags on, later documents carry no %TAG lines (extend-or-replace is left open by the property). The lone '!' is represented as (\"\", \"!\") as the parser does.",
        "TLA+ reference model; TLC-enumerated behaviours replayed into the real parser (exhaustive over the stated finite space)", "7/C16")


def run(ck):
    ck.rule = "every (directive sets, spellings, kinds, keep) combination of MC_Tags (finite space, enumerated completely); distinct = distinct rendered texts"
    ck.assumptions = ["the renderer of MC_Tags writes directives, '--- <tag> <node>' and '...' lines only (unambiguous YAML)"]
    # quick: two documents, later documents with the small directive lists and scalars only; thorough: that, and in addition
    # (MC_Tags.cfg, Full) every directive list and node kind in the later document too
    for cfg in (["MC_Tags_quick", "MC_Tags"] if ck.tier == "thorough" else ["MC_Tags_quick"]):
        m = props.tlc_cached(ck, "MC_Tags", cfg, ["YTagsRef.tla", "YChars.tla"], workers=8, keep_out=True, xmx="12g")
        if not m["ok"]:
            raise ToolError("%s did not complete: %s" % (cfg, m["tail"][-800:]))
        bad = ck.wd("bad_%s.ndjson" % cfg)
        s = vh_json(["c16", "--in", m["out"], "--out", bad], timeout=7200)
        ck.evaluations += s["runs"]
        ck.distinct += s["distinct"]
        ck.traces += s["cases"]
        for b in read_ndjson(bad):
            ck.violation("tags:%s:keep=%s" % (json.dumps(b["t"]), b["keep"]), "%s — on %r (keep_tags=%s, %s)" % (b["why"], b["t"][:120], b["keep"], b["be"]), b)
        for x in s["samples"]:
            ck.sample({"text": x["text"], "keep": x["keep"], "expect": ["err" if e["err"] else ["".join(p) for p in e["tag"]] for e in x["expect"]]})
    ck.exhaustive = True
    # the directive / tag paths of the implementation-shaped model, exhaustively over small texts (drift only)
    props.pipeline_inputs(ck, [("prop", 4), ("dir", 4)] if ck.tier == "quick" else [("prop", 5), ("dir", 5)])


def selftest():
    """Flip one expected tag in a generated behaviour: the replay comparison must report it."""
    d = os.path.join(WORK, "selftest")
    os.makedirs(d, exist_ok=True)
    rec = {"text": list("%TAG !a! tag:x:\n--- !a!t v\n...\n"), "keep": False, "expect": [{"err": False, "tag": [list("tag:y:"), ["t"]], "kind": "scalar"}]}
    with open(os.path.join(d, "tags.out"), "w") as f:
        f.write('<<"REPLAY", %s>>\n' % json.dumps(json.dumps(rec)))
    s = vh_json(["c16", "--in", os.path.join(d, "tags.out")])
    if s["bad"] != s["runs"] or s["runs"] < 2:       # (every back-end / interface the case is replayed through must report it)
        print("SELFTEST FAILED: c16 replay accepted a corrupted expectation", s)
        return 2
    return 0
