#!/usr/bin/env python3
"""Merge the results of later runs of bin/seedcheck.py (one JSON pair per line in a log) into seeded/<name>/meta.json:
the first run's results are kept as `first_run`, `checks` / `caught_by` hold the latest run.   bin/seedmerge.py <log>"""
import json, os, sys
V = os.path.dirname(os.path.dirname(os.path.abspath(__file__)))
dec = json.JSONDecoder()
for l in open(sys.argv[1]):
    if not l.startswith("{"):
        continue
    head, i = dec.raw_decode(l)
    mp = os.path.join(V, "seeded", head["name"], "meta.json")
    if not os.path.exists(mp):
        continue
    m = json.load(open(mp))
    try:
        res, _ = dec.raw_decode(l[i:].lstrip())
        res = {k.split(":")[0]: v for k, v in res.items()}
    except ValueError:
        # the results part of the line was cut in the log: the summary part says which checks reported it
        if not head["caught_by"] or head["caught_by"] == m.get("caught_by"):
            continue
        res = {c: {"exit": 1, "violations": "n/a (log line cut)"} for c in head["caught_by"]}
    if res == m.get("checks") or not res:
        continue
    if any(r["exit"] == 2 for r in res.values()):
        continue          # a tool error is not a result
    if "first_run" not in m:
        m["first_run"] = {"checks": m.get("checks"), "caught_by": m.get("caught_by")}
    m["checks"] = res
    m["caught_by"] = [c for c, r in res.items() if r["exit"] == 1]
    m["valid"] = head["valid"]
    json.dump(m, open(mp, "w"), indent=1)
    print(head["name"], m["first_run"]["caught_by"], "->", m["caught_by"])
