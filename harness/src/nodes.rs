//! Projection of the four node types (Yaml, YamlOwned, MarkedYaml, MarkedYamlOwned) to one JSON
//! shape, and helpers that load text / replay events into the real loader.
use crate::{m3, panic_msg, ErrRec};
use saphyr::{
    LoadableYamlNode, MarkedYaml, MarkedYamlOwned, Scalar, ScalarOwned, Yaml, YamlData, YamlDataOwned, YamlLoader, YamlOwned,
};
use saphyr_parser::{Event, Parser, ScalarStyle, Span, SpannedEventReceiver, Tag};
use serde_json::{json, Value};

fn tagj(t: &Option<Tag>) -> Value {
    match t {
        Some(t) => json!([t.handle, t.suffix]),
        None => json!([]),
    }
}
fn fl(v: f64) -> Value {
    // floats are carried as opaque bit patterns + class (TLC has no reals)
    let class = if v.is_nan() {
        "nan"
    } else if v.is_infinite() {
        if v > 0.0 {
            "+inf"
        } else {
            "-inf"
        }
    } else {
        "fin"
    };
    json!({"t": "float", "bits": format!("{:016x}", if v.is_nan() { f64::NAN.to_bits() } else { v.to_bits() }), "class": class, "disp": format!("{v}")})
}
pub fn scalar_json(s: &Scalar) -> Value {
    match s {
        Scalar::Null => json!({"t": "null"}),
        Scalar::Boolean(b) => json!({"t": "bool", "v": b}),
        Scalar::Integer(i) => json!({"t": "int", "v": i.to_string()}),
        Scalar::FloatingPoint(f) => fl(f.into_inner()),
        Scalar::String(s) => json!({"t": "str", "v": s.as_ref()}),
    }
}
pub fn scalar_owned_json(s: &ScalarOwned) -> Value {
    match s {
        ScalarOwned::Null => json!({"t": "null"}),
        ScalarOwned::Boolean(b) => json!({"t": "bool", "v": b}),
        ScalarOwned::Integer(i) => json!({"t": "int", "v": i.to_string()}),
        ScalarOwned::FloatingPoint(f) => fl(f.into_inner()),
        ScalarOwned::String(s) => json!({"t": "str", "v": s}),
    }
}
fn reprj(v: &str, style: ScalarStyle, tag: &Option<Tag>) -> Value {
    json!({"t": "repr", "v": v, "style": crate::style_name(style), "tag": tagj(tag)})
}

pub trait Proj {
    fn proj(&self, spans: bool) -> Value;
}
impl Proj for Yaml<'_> {
    fn proj(&self, spans: bool) -> Value {
        match self {
            Yaml::Representation(v, s, t) => reprj(v, *s, t),
            Yaml::Value(s) => scalar_json(s),
            Yaml::Sequence(v) => json!({"t": "seq", "v": v.iter().map(|x| x.proj(spans)).collect::<Vec<_>>()}),
            Yaml::Mapping(m) => json!({"t": "map", "v": m.iter().map(|(k, v)| json!([k.proj(spans), v.proj(spans)])).collect::<Vec<_>>()}),
            Yaml::Alias(n) => json!({"t": "alias", "v": n}),
            Yaml::BadValue => json!({"t": "bad"}),
        }
    }
}
impl Proj for YamlOwned {
    fn proj(&self, spans: bool) -> Value {
        match self {
            YamlOwned::Representation(v, s, t) => reprj(v, *s, t),
            YamlOwned::Value(s) => scalar_owned_json(s),
            YamlOwned::Sequence(v) => json!({"t": "seq", "v": v.iter().map(|x| x.proj(spans)).collect::<Vec<_>>()}),
            YamlOwned::Mapping(m) => json!({"t": "map", "v": m.iter().map(|(k, v)| json!([k.proj(spans), v.proj(spans)])).collect::<Vec<_>>()}),
            YamlOwned::Alias(n) => json!({"t": "alias", "v": n}),
            YamlOwned::BadValue => json!({"t": "bad"}),
        }
    }
}
fn with_span(mut v: Value, sp: &Span, spans: bool) -> Value {
    if spans {
        v.as_object_mut().unwrap().insert("span".into(), json!([m3(&sp.start), m3(&sp.end)]));
    }
    v
}
impl Proj for MarkedYaml<'_> {
    fn proj(&self, spans: bool) -> Value {
        let v = match &self.data {
            YamlData::Representation(v, s, t) => reprj(v, *s, t),
            YamlData::Value(s) => scalar_json(s),
            YamlData::Sequence(v) => json!({"t": "seq", "v": v.iter().map(|x| x.proj(spans)).collect::<Vec<_>>()}),
            YamlData::Mapping(m) => json!({"t": "map", "v": m.iter().map(|(k, v)| json!([k.proj(spans), v.proj(spans)])).collect::<Vec<_>>()}),
            YamlData::Alias(n) => json!({"t": "alias", "v": n}),
            YamlData::BadValue => json!({"t": "bad"}),
        };
        with_span(v, &self.span, spans)
    }
}
impl Proj for MarkedYamlOwned {
    fn proj(&self, spans: bool) -> Value {
        let v = match &self.data {
            YamlDataOwned::Representation(v, s, t) => reprj(v, *s, t),
            YamlDataOwned::Value(s) => scalar_owned_json(s),
            YamlDataOwned::Sequence(v) => json!({"t": "seq", "v": v.iter().map(|x| x.proj(spans)).collect::<Vec<_>>()}),
            YamlDataOwned::Mapping(m) => json!({"t": "map", "v": m.iter().map(|(k, v)| json!([k.proj(spans), v.proj(spans)])).collect::<Vec<_>>()}),
            YamlDataOwned::Alias(n) => json!({"t": "alias", "v": n}),
            YamlDataOwned::BadValue => json!({"t": "bad"}),
        };
        with_span(v, &self.span, spans)
    }
}

#[derive(Clone, Copy, Debug, PartialEq, Eq)]
pub enum NodeTy {
    Yaml,
    Owned,
    Marked,
    MarkedOwned,
}
pub const ALL_NODETY: [NodeTy; 4] = [NodeTy::Yaml, NodeTy::Owned, NodeTy::Marked, NodeTy::MarkedOwned];
impl NodeTy {
    pub fn name(self) -> &'static str {
        match self {
            NodeTy::Yaml => "Yaml",
            NodeTy::Owned => "YamlOwned",
            NodeTy::Marked => "MarkedYaml",
            NodeTy::MarkedOwned => "MarkedYamlOwned",
        }
    }
}

/// Outcome of a load: documents (projected), or error, or panic.
#[derive(Clone, Debug, PartialEq)]
pub struct Loaded {
    pub docs: Option<Vec<Value>>,
    pub err: Option<ErrRec>,
    pub panic: Option<String>,
}
impl Loaded {
    pub fn json(&self) -> Value {
        json!({"docs": self.docs, "err": self.err.as_ref().map(|e| e.json()), "panic": self.panic})
    }
}

fn finish<N: Proj>(r: std::thread::Result<Result<Vec<N>, saphyr::ScanError>>, spans: bool) -> Loaded {
    match r {
        Err(p) => Loaded { docs: None, err: None, panic: Some(panic_msg(p)) },
        Ok(Err(e)) => Loaded { docs: None, err: Some(ErrRec::from(&e)), panic: None },
        Ok(Ok(d)) => Loaded { docs: Some(d.iter().map(|x| x.proj(spans)).collect()), err: None, panic: None },
    }
}

/// `load_from_str` for the given node type.
pub fn load_str(text: &str, ty: NodeTy, spans: bool) -> Loaded {
    crate::note_input(text);
    use std::panic::{catch_unwind, AssertUnwindSafe};
    match ty {
        NodeTy::Yaml => finish(catch_unwind(AssertUnwindSafe(|| Yaml::load_from_str(text))), spans),
        NodeTy::Owned => finish(catch_unwind(AssertUnwindSafe(|| YamlOwned::load_from_str(text))), spans),
        NodeTy::Marked => finish(catch_unwind(AssertUnwindSafe(|| MarkedYaml::load_from_str(text))), spans),
        NodeTy::MarkedOwned => finish(catch_unwind(AssertUnwindSafe(|| MarkedYamlOwned::load_from_str(text))), spans),
    }
}

/// Load through `load_from_parser` on the string back-end (borrowing input).
pub fn load_parser_str(text: &str, ty: NodeTy, spans: bool) -> Loaded {
    crate::note_input(text);
    use std::panic::{catch_unwind, AssertUnwindSafe};
    match ty {
        NodeTy::Yaml => finish(catch_unwind(AssertUnwindSafe(|| Yaml::load_from_parser(&mut Parser::new_from_str(text)))), spans),
        NodeTy::Owned => finish(catch_unwind(AssertUnwindSafe(|| YamlOwned::load_from_parser(&mut Parser::new_from_str(text)))), spans),
        NodeTy::Marked => finish(catch_unwind(AssertUnwindSafe(|| MarkedYaml::load_from_parser(&mut Parser::new_from_str(text)))), spans),
        NodeTy::MarkedOwned => finish(catch_unwind(AssertUnwindSafe(|| MarkedYamlOwned::load_from_parser(&mut Parser::new_from_str(text)))), spans),
    }
}

/// Load with `early_parse(false)` (deferred scalar resolution), then optionally resolve.
/// mode: 0 = leave representations, 1 = parse_representation_recursive on each document.
pub fn load_lazy(text: &str, ty: NodeTy, mode: u8) -> Loaded {
    crate::note_input(text);
    use std::panic::{catch_unwind, AssertUnwindSafe};
    macro_rules! go {
        ($t:ty, $rec:expr) => {{
            let r = catch_unwind(AssertUnwindSafe(|| {
                let mut loader: YamlLoader<$t> = YamlLoader::default();
                loader.early_parse(false);
                let mut p = Parser::new_from_str(text);
                p.load(&mut loader, true)?;
                let mut docs = loader.into_documents();
                if mode == 1 {
                    for d in docs.iter_mut() {
                        let _ = $rec(d);
                    }
                }
                Ok(docs)
            }));
            finish(r, false)
        }};
    }
    match ty {
        NodeTy::Yaml => go!(Yaml, |d: &mut Yaml| d.parse_representation_recursive()),
        NodeTy::Owned => go!(YamlOwned, |d: &mut YamlOwned| d.parse_representation_recursive()),
        NodeTy::Marked => go!(MarkedYaml, |d: &mut MarkedYaml| d.data.parse_representation_recursive()),
        NodeTy::MarkedOwned => go!(MarkedYamlOwned, |d: &mut MarkedYamlOwned| d.data.parse_representation_recursive()),
    }
}

// ---------------------------------------------------------------------------------------------
// abstract events (from TLC) replayed directly into the real loader
// ---------------------------------------------------------------------------------------------

/// Abstract event as produced by the specification: {"k": kind, "v": text, "style":…, "aid": n, "tag": [h,s] | []}
pub fn event_from_json(e: &Value) -> Event<'static> {
    let k = e["k"].as_str().unwrap_or("");
    let aid = e["aid"].as_u64().unwrap_or(0) as usize;
    let tag = match e["tag"].as_array() {
        Some(a) if a.len() == 2 => Some(Tag { handle: a[0].as_str().unwrap().to_string(), suffix: a[1].as_str().unwrap().to_string() }),
        _ => None,
    };
    let style = match e["style"].as_str().unwrap_or("plain") {
        "single" => ScalarStyle::SingleQuoted,
        "double" => ScalarStyle::DoubleQuoted,
        "literal" => ScalarStyle::Literal,
        "folded" => ScalarStyle::Folded,
        _ => ScalarStyle::Plain,
    };
    match k {
        "StreamStart" => Event::StreamStart,
        "StreamEnd" => Event::StreamEnd,
        "DocumentStart" => Event::DocumentStart(false),
        "DocumentEnd" => Event::DocumentEnd,
        "Alias" => Event::Alias(aid),
        "Scalar" => Event::Scalar(crate::text_of(&e["v"]).into(), style, aid, tag),
        "SequenceStart" => Event::SequenceStart(aid, tag),
        "SequenceEnd" => Event::SequenceEnd,
        "MappingStart" => Event::MappingStart(aid, tag),
        "MappingEnd" => Event::MappingEnd,
        _ => Event::Nothing,
    }
}

/// Feed a sentence of abstract events to the real `YamlLoader<ty>`; return documents and the
/// loader's state projection after every event.
pub fn replay_events(evs: &[Value], ty: NodeTy) -> (Loaded, Vec<Value>) {
    use std::panic::{catch_unwind, AssertUnwindSafe};
    macro_rules! go {
        ($t:ty) => {{
            let mut states = vec![];
            let r = catch_unwind(AssertUnwindSafe(|| {
                let mut loader: YamlLoader<$t> = YamlLoader::default();
                for e in evs {
                    loader.on_event(event_from_json(e), Span::default());
                    states.push(serde_json::from_str::<Value>(&loader.verif_state()).unwrap());
                }
                Ok(loader.into_documents())
            }));
            (finish(r, false), states)
        }};
    }
    match ty {
        NodeTy::Yaml => go!(Yaml),
        NodeTy::Owned => go!(YamlOwned),
        NodeTy::Marked => go!(MarkedYaml),
        NodeTy::MarkedOwned => go!(MarkedYamlOwned),
    }
}
