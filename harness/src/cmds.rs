//! Per-property recording commands.
use crate::{out_file, read_pool, read_replays, Args};
use serde_json::{json, Value};
use std::collections::HashMap;
use std::io::Write;
use vh::nodes::*;
use vh::*;

pub fn dispatch(cmd: &str, a: &Args) -> bool {
    if crate::p::dispatch(cmd, a) {
        return true;
    }
    match cmd {
        "show" => show(a),
        "c01" => c01(a),
        "c02" => c02(a),
        "pipeline-replay" => pipeline_replay(a),
        _ => return false,
    }
    true
}

/// Write a "current input" marker so the driver can name the input when the process hangs/aborts.
/// The input being processed, kept in a side file so that a crash or a hang of the code under test can be attributed; a
/// watchdog thread ends the process (exit 86) when no new input has been started for 40 seconds (a spin that performs no
/// input operation is not seen by the counting wrapper).
pub struct Cur(std::fs::File, std::sync::Arc<std::sync::atomic::AtomicU64>);
impl Cur {
    pub fn new(path: &str) -> Cur {
        use std::sync::atomic::{AtomicU64, Ordering};
        let ticks = std::sync::Arc::new(AtomicU64::new(0));
        let t2 = ticks.clone();
        let limit: u64 = std::env::var("VERIF_STALL_SECS").ok().and_then(|x| x.parse().ok()).unwrap_or(40);
        std::thread::spawn(move || {
            let (mut last, mut since) = (u64::MAX, 0u64);
            loop {
                std::thread::sleep(std::time::Duration::from_secs(2));
                let now = t2.load(Ordering::Relaxed);
                if now == last {
                    since += 2;
                    if since >= limit && now > 0 {
                        eprintln!("STALL: no progress for {since} s on the input named in the .cur file");
                        std::process::exit(86);
                    }
                } else {
                    last = now;
                    since = 0;
                }
            }
        });
        Cur(std::fs::File::create(path).unwrap(), ticks)
    }
    pub fn set(&mut self, text: &str, cfg: &str) {
        use std::io::{Seek, SeekFrom};
        let s = json!({"t": text, "cfg": cfg}).to_string();
        let _ = self.0.seek(SeekFrom::Start(0));
        let _ = self.0.set_len(0);
        let _ = self.0.write_all(s.as_bytes());
        self.1.fetch_add(1, std::sync::atomic::Ordering::Relaxed);
    }
}

/// C02: record, for every pool input × {str, buf} × {pull, push}, the abstraction of the delivered
/// event sequence the property depends on (kinds, anchor ids, alias ids, error flag), de-duplicated.
fn c02(a: &Args) {
    let pool = read_pool(a.req("pool"));
    let mut w = out_file(a.req("out"));
    let mut cur = Cur::new(&format!("{}.cur", a.req("out")));
    let mut seen: HashMap<String, (usize, String, String)> = HashMap::new();
    let mut order: Vec<String> = vec![];
    let mut runs = 0usize;
    let mut panics: Vec<Value> = vec![];
    for (_o, t) in &pool {
        for be in [Backend::Str, Backend::Buf] {
            for api in [Api::Iter, Api::PeekNext, Api::PushMulti] {
                let cfg = format!("{}/{}", be.name(), api.name());
                cur.set(t, &cfg);
                let r = run_parser(t, be, api);
                runs += 1;
                if let Some(p) = &r.panic {
                    // panics are C01's business; here the delivered prefix is unknown, skip
                    if panics.len() < 5 {
                        panics.push(json!({"t": t, "cfg": cfg, "panic": p}));
                    }
                    continue;
                }
                let mut key = String::with_capacity(r.evs.len() * 3);
                for e in &r.evs {
                    key.push(e.code());
                    if e.aid != 0 {
                        key.push_str(&e.aid.to_string());
                        key.push(';');
                    }
                }
                key.push(if r.err.is_some() { '!' } else { '.' });
                match seen.get_mut(&key) {
                    Some(x) => x.0 += 1,
                    None => {
                        order.push(key.clone());
                        let evs: Vec<Value> = r.evs.iter().map(|e| json!({"k": e.k, "aid": e.aid})).collect();
                        seen.insert(key, (1, json!({"k": "SEQ", "evs": evs, "end": if r.err.is_some() { "err" } else { "ok" }, "t": t, "cfg": cfg}).to_string(), t.clone()));
                    }
                }
            }
        }
    }
    for k in &order {
        writeln!(w, "{}", seen[k].1).unwrap();
    }
    w.flush().unwrap();
    println!("{}", json!({"runs": runs, "distinct": order.len(), "inputs": pool.len(), "panics": panics}));
}

#[allow(dead_code)]
fn unused(_: &Args) {
    let _ = read_replays;
    let _ = load_str;
}

/// Model event (from a REPLAY line) -> the same shape as `Ev`, for exact comparison.
pub fn model_ev(e: &Value) -> Ev {
    let k = match e["k"].as_str().unwrap_or("") {
        "StreamStart" => "StreamStart",
        "StreamEnd" => "StreamEnd",
        "DocumentStart" => "DocumentStart",
        "DocumentEnd" => "DocumentEnd",
        "Alias" => "Alias",
        "Scalar" => "Scalar",
        "SequenceStart" => "SequenceStart",
        "SequenceEnd" => "SequenceEnd",
        "MappingStart" => "MappingStart",
        "MappingEnd" => "MappingEnd",
        _ => "?",
    };
    let m = |v: &Value| -> M3 {
        let a = v.as_array().unwrap();
        [a[0].as_u64().unwrap() as usize, a[1].as_u64().unwrap() as usize, a[2].as_u64().unwrap() as usize]
    };
    let style = match e["style"].as_str().unwrap_or("") {
        "plain" => "plain",
        "single" => "single",
        "double" => "double",
        "literal" => "literal",
        "folded" => "folded",
        _ => "",
    };
    let tag = match e["tag"].as_array() {
        Some(t) if t.len() == 2 => Some((text_of(&t[0]), text_of(&t[1]))),
        _ => None,
    };
    let (v, style) = if k == "DocumentStart" { (e["style"].as_str().unwrap_or("").to_string(), "") } else { (text_of(&e["v"]), style) };
    Ev { k, v, style, aid: e["aid"].as_u64().unwrap_or(0) as usize, tag, a: m(&e["a"]), b: m(&e["b"]) }
}

/// Spec -> impl: replay every behaviour TLC generated for MC_Pipeline on the real parser and
/// compare the complete observable outcome with the one the model assigns. A difference is
/// *drift* between the implementation-shaped model and the code (reported, not a violation).
/// Also writes the texts as pool entries.
fn pipeline_replay(a: &Args) {
    let reps = read_replays(a.req("in"));
    let mut pool = a.get("pool").map(out_file);
    let mut drift_out = a.get("drift").map(out_file);
    let (mut n, mut drift, mut panics) = (0usize, 0usize, 0usize);
    let mut samples: Vec<Value> = vec![];
    let mut dsamples: Vec<Value> = vec![];
    let mut nreps = 0usize;
    for v in reps {
        nreps += 1;
        let v = &v;
        let text = text_of(&v["text"]);
        n += 1;
        if let Some(w) = pool.as_mut() {
            writeln!(w, "{}", json!({"o": a.get("origin").unwrap_or("exhaustive"), "t": text})).unwrap();
        }
        let r = run_str(&text);
        let mevs: Vec<Ev> = v["evs"].as_array().map(|x| x.iter().map(model_ev).collect()).unwrap_or_default();
        let merr = v["err"].as_str().unwrap_or("");
        let mm = &v["errmark"];
        let mut same = r.panic.is_none() && r.evs == mevs;
        if same {
            match &r.err {
                None => same = merr.is_empty(),
                Some(e) => {
                    same = e.msg == merr && json!(e.at) == *mm;
                }
            }
        }
        if r.panic.is_some() {
            panics += 1;
        }
        if !same {
            drift += 1;
            let d = json!({"t": text, "model": {"evs": mevs.iter().map(|e| e.json_s()).collect::<Vec<_>>(), "err": merr, "errmark": mm},
                           "real": {"evs": r.evs.iter().map(|e| e.json_s()).collect::<Vec<_>>(), "err": r.err.as_ref().map(|e| e.json()), "panic": r.panic}});
            if dsamples.len() < 5 {
                dsamples.push(d.clone());
            }
            if let Some(w) = drift_out.as_mut() {
                writeln!(w, "{d}").unwrap();
            }
        } else if samples.len() < 3 && mevs.len() > 5 {
            samples.push(json!({"text": text, "events": mevs.len(), "err": merr}));
        }
    }
    println!("{}", json!({"replayed": n, "drift": drift, "panics": panics, "samples": samples, "drift_samples": dsamples}));
}

/// C01: every pool input through every back-end x API (counted input operations, panics and
/// caps recorded as data) and through the four loaders. Output: one WORK record per input length
/// (the maximum work seen, which is exact for a monotone bound) and one BAD record per input that
/// panicked / hit a cap.
fn c01(a: &Args) {
    let pool = read_pool(a.req("pool"));
    let mut w = out_file(a.req("out"));
    let mut cur = Cur::new(&format!("{}.cur", a.req("out")));
    let full = a.get("matrix").is_none();
    let tiny = a.get("matrix") == Some("tiny");
    let mut maxw: HashMap<usize, (u64, String, String)> = HashMap::new();
    let (mut runs, mut bad) = (0usize, 0usize);
    let mut worst = (0f64, String::new());
    for (_o, t) in &pool {
        let len = t.chars().count();
        let bes: &[Backend] = if full { &ALL_BACKENDS } else if tiny { &[Backend::Buf, Backend::S8] } else { &[Backend::Str, Backend::Buf, Backend::S8] };
        let apis: &[Api] = if tiny { &[Api::Iter, Api::PushMulti] } else { &ALL_APIS };
        for &be in bes {
            for &api in apis {
                let cfg = format!("{}/{}", be.name(), api.name());
                cur.set(t, &cfg);
                let r = run_parser(t, be, api);
                runs += 1;
                if let Some(p) = &r.panic {
                    bad += 1;
                    writeln!(w, "{}", json!({"k": "BAD", "t": t, "cfg": cfg, "panic": p})).unwrap();
                }
                let e = maxw.entry(len).or_insert((0, String::new(), String::new()));
                if r.work > e.0 {
                    *e = (r.work, t.clone(), cfg.clone());
                }
                let ratio = r.work as f64 / (len as f64 + 1.0);
                if ratio > worst.0 {
                    worst = (ratio, t.clone());
                }
            }
        }
        for ty in ALL_NODETY {
            if tiny && !matches!(ty, NodeTy::Yaml | NodeTy::MarkedOwned) {
                continue;
            }
            for via in 0..2 {
                if tiny && via == 1 {
                    continue;
                }
                let cfg = format!("load/{}/{}", ty.name(), if via == 0 { "iter" } else { "str" });
                cur.set(t, &cfg);
                let l = if via == 0 { load_str(t, ty, false) } else { load_parser_str(t, ty, false) };
                runs += 1;
                if let Some(p) = &l.panic {
                    bad += 1;
                    writeln!(w, "{}", json!({"k": "BAD", "t": t, "cfg": cfg, "panic": p})).unwrap();
                }
            }
        }
    }
    let mut lens: Vec<_> = maxw.keys().cloned().collect();
    lens.sort();
    for l in &lens {
        let (wk, t, cfg) = &maxw[l];
        writeln!(w, "{}", json!({"k": "WORK", "len": l, "work": wk, "t": t, "cfg": cfg})).unwrap();
    }
    w.flush().unwrap();
    println!("{}", json!({"runs": runs, "inputs": pool.len(), "bad": bad, "lengths": lens.len(), "worst_ratio": worst.0, "worst_text": worst.1}));
}

/// Debug helper: print the events the real parser delivers for --text (or each line of --file).
fn show(a: &Args) {
    let texts: Vec<String> = if let Some(t) = a.get("text") { vec![t.replace("\\n", "\n").replace("\\t", "\t")] } else { std::fs::read_to_string(a.req("file")).unwrap().lines().map(|l| serde_json::from_str::<String>(l).unwrap()).collect() };
    for t in texts {
        let r = run_str(&t);
        println!("{:?}", t);
        for e in &r.evs {
            println!("   {} {:?} {} &{} {:?} {:?}-{:?}", e.k, e.v, e.style, e.aid, e.tag, e.a, e.b);
        }
        if let Some(e) = &r.err {
            println!("   ERROR {} at {:?}", e.msg, e.at);
        }
        if let Some(p) = &r.panic {
            println!("   PANIC {p}");
        }
    }
}
