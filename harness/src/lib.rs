//! Recording side of the verification harness: runs the real saphyr code and writes down what it
//! did. No oracle logic lives here; judgement is done by TLC against the TLA+ specification.
#![allow(clippy::all)]

use saphyr_parser::input::SkipTabs;
use saphyr_parser::{Event, Input, Parser, ScalarStyle, ScanError, Span, SpannedEventReceiver};
use serde_json::{json, Value};
use std::cell::Cell;
use std::collections::VecDeque;
use std::rc::Rc;

pub mod gen;
pub mod nodes;

// ---------------------------------------------------------------------------------------------
// deterministic RNG (xorshift*), seeded from VERIF_SEED
// ---------------------------------------------------------------------------------------------
pub struct Rng(pub u64);
impl Rng {
    pub fn new(seed: u64) -> Self {
        Rng(seed.wrapping_mul(0x9E3779B97F4A7C15) ^ 0xD1B54A32D192ED03 | 1)
    }
    pub fn next(&mut self) -> u64 {
        let mut x = self.0;
        x ^= x >> 12;
        x ^= x << 25;
        x ^= x >> 27;
        self.0 = x;
        x.wrapping_mul(0x2545F4914F6CDD1D)
    }
    pub fn below(&mut self, n: usize) -> usize {
        (self.next() % (n as u64)) as usize
    }
    pub fn chance(&mut self, num: usize, den: usize) -> bool {
        self.below(den) < num
    }
}

pub fn seed_from_env() -> u64 {
    std::env::var("VERIF_SEED").ok().and_then(|s| s.parse().ok()).unwrap_or(1)
}

// ---------------------------------------------------------------------------------------------
// recorded events
// ---------------------------------------------------------------------------------------------
pub type M3 = [usize; 3];
pub fn m3(m: &saphyr_parser::Marker) -> M3 {
    [m.index(), m.line(), m.col()]
}

#[derive(Clone, Debug, PartialEq, Eq, Hash)]
pub struct Ev {
    pub k: &'static str,
    pub v: String,
    pub style: &'static str,
    pub aid: usize,
    pub tag: Option<(String, String)>,
    pub a: M3,
    pub b: M3,
}

pub fn style_name(s: ScalarStyle) -> &'static str {
    match s {
        ScalarStyle::Plain => "plain",
        ScalarStyle::SingleQuoted => "single",
        ScalarStyle::DoubleQuoted => "double",
        ScalarStyle::Literal => "literal",
        ScalarStyle::Folded => "folded",
    }
}

impl Ev {
    pub fn from(ev: &Event, sp: &Span) -> Ev {
        let (k, v, style, aid, tag): (&'static str, String, &'static str, usize, Option<(String, String)>) = match ev {
            Event::Nothing => ("Nothing", String::new(), "", 0, None),
            Event::StreamStart => ("StreamStart", String::new(), "", 0, None),
            Event::StreamEnd => ("StreamEnd", String::new(), "", 0, None),
            Event::DocumentStart(x) => ("DocumentStart", if *x { "explicit".into() } else { "implicit".into() }, "", 0, None),
            Event::DocumentEnd => ("DocumentEnd", String::new(), "", 0, None),
            Event::Alias(id) => ("Alias", String::new(), "", *id, None),
            Event::Scalar(v, st, aid, tag) => (
                "Scalar",
                v.to_string(),
                style_name(*st),
                *aid,
                tag.as_ref().map(|t| (t.handle.clone(), t.suffix.clone())),
            ),
            Event::SequenceStart(aid, tag) => ("SequenceStart", String::new(), "", *aid, tag.as_ref().map(|t| (t.handle.clone(), t.suffix.clone()))),
            Event::SequenceEnd => ("SequenceEnd", String::new(), "", 0, None),
            Event::MappingStart(aid, tag) => ("MappingStart", String::new(), "", *aid, tag.as_ref().map(|t| (t.handle.clone(), t.suffix.clone()))),
            Event::MappingEnd => ("MappingEnd", String::new(), "", 0, None),
        };
        Ev { k, v, style, aid, tag, a: m3(&sp.start), b: m3(&sp.end) }
    }
    /// Full JSON form. Scalar values are arrays of one-character strings (TLC cannot index strings).
    pub fn json(&self) -> Value {
        json!({"k": self.k, "v": chars(&self.v), "style": self.style, "aid": self.aid,
               "tag": match &self.tag { Some((h, s)) => json!([chars(h), chars(s)]), None => json!([]) },
               "a": self.a, "b": self.b})
    }
    /// Compact JSON with the value as a plain string.
    pub fn json_s(&self) -> Value {
        json!({"k": self.k, "v": self.v, "style": self.style, "aid": self.aid,
               "tag": match &self.tag { Some((h, s)) => json!([h, s]), None => json!([]) },
               "a": self.a, "b": self.b})
    }
    /// One-letter code of the kind, used for the structural abstraction of C02.
    pub fn code(&self) -> char {
        match self.k {
            "StreamStart" => 'S',
            "StreamEnd" => 'E',
            "DocumentStart" => 'D',
            "DocumentEnd" => 'd',
            "Alias" => 'A',
            "Scalar" => 'v',
            "SequenceStart" => '[',
            "SequenceEnd" => ']',
            "MappingStart" => '{',
            "MappingEnd" => '}',
            _ => '?',
        }
    }
}

/// Character naming shared with the specification (YChars): printable ASCII, tab, LF, CR are
/// themselves; anything else is "<uN>" with N the decimal code point.
pub fn cname(c: char) -> String {
    if (' '..='~').contains(&c) || c == '\t' || c == '\n' || c == '\r' {
        c.to_string()
    } else {
        format!("<u{}>", c as u32)
    }
}
pub fn chars(s: &str) -> Vec<String> {
    s.chars().map(cname).collect()
}
pub fn unname(x: &str) -> char {
    if x == "<eof>" {
        return '\0';
    }
    if let Some(n) = x.strip_prefix("<u").and_then(|r| r.strip_suffix('>')) {
        if let Ok(n) = n.parse::<u32>() {
            return char::from_u32(n).unwrap_or('\u{FFFD}');
        }
    }
    x.chars().next().unwrap_or('\0')
}

#[derive(Clone, Debug, PartialEq, Eq, Hash)]
pub struct ErrRec {
    pub msg: String,
    pub at: M3,
    pub display: String,
}
impl ErrRec {
    pub fn from(e: &ScanError) -> ErrRec {
        ErrRec { msg: e.info().to_string(), at: m3(e.marker()), display: format!("{e}") }
    }
    pub fn json(&self) -> Value {
        json!({"msg": self.msg, "at": self.at, "display": self.display})
    }
}

#[derive(Clone, Debug, Default, PartialEq, Eq)]
pub struct Run {
    pub evs: Vec<Ev>,
    pub err: Option<ErrRec>,
    /// panic message if the code under test panicked (data, not a harness failure)
    pub panic: Option<String>,
    /// number of input operations performed (only with a counting back-end)
    pub work: u64,
    /// events delivered after the first error / after StreamEnd (iteration continued by the driver)
    pub extra: usize,
}
impl Run {
    pub fn outcome(&self) -> &'static str {
        if self.panic.is_some() {
            "panic"
        } else if self.err.is_some() {
            "error"
        } else {
            "ok"
        }
    }
    pub fn same_observable(&self, o: &Run) -> bool {
        self.evs == o.evs && self.err == o.err && self.panic.is_some() == o.panic.is_some()
    }
}

// ---------------------------------------------------------------------------------------------
// input back-ends
// ---------------------------------------------------------------------------------------------

/// A contract-conforming input of capacity K that panics when its *caller* breaks a precondition
/// of the `Input` trait (peek beyond what was looked ahead, lookahead beyond the capacity, …).
pub struct Strict<const K: usize> {
    it: std::vec::IntoIter<char>,
    buf: VecDeque<char>,
}
impl<const K: usize> Strict<K> {
    pub fn new(s: &str) -> Self {
        Self { it: s.chars().collect::<Vec<_>>().into_iter(), buf: VecDeque::new() }
    }
}
impl<const K: usize> Input for Strict<K> {
    fn lookahead(&mut self, count: usize) {
        assert!(count <= K, "CONTRACT lookahead({count}) > capacity {K}");
        while self.buf.len() < count {
            let c = self.it.next().unwrap_or('\0');
            self.buf.push_back(c);
        }
    }
    fn buflen(&self) -> usize {
        self.buf.len()
    }
    fn bufmaxlen(&self) -> usize {
        K
    }
    fn raw_read_ch(&mut self) -> char {
        assert!(self.buf.is_empty(), "CONTRACT raw_read_ch with non-empty buffer");
        self.it.next().unwrap_or('\0')
    }
    fn raw_read_non_breakz_ch(&mut self) -> Option<char> {
        assert!(self.buf.is_empty(), "CONTRACT raw_read_non_breakz_ch with non-empty buffer");
        match self.it.next() {
            Some(c) if c == '\n' || c == '\r' || c == '\0' => {
                self.buf.push_back(c);
                None
            }
            Some(c) => Some(c),
            None => None,
        }
    }
    fn skip(&mut self) {
        assert!(!self.buf.is_empty(), "CONTRACT skip on empty buffer");
        self.buf.pop_front();
    }
    fn skip_n(&mut self, count: usize) {
        assert!(count <= self.buf.len(), "CONTRACT skip_n({count}) > buflen {}", self.buf.len());
        self.buf.drain(0..count);
    }
    fn peek(&self) -> char {
        assert!(!self.buf.is_empty(), "CONTRACT peek on empty buffer");
        self.buf[0]
    }
    fn peek_nth(&self, n: usize) -> char {
        assert!(n < self.buf.len(), "CONTRACT peek_nth({n}) with buflen {}", self.buf.len());
        self.buf[n]
    }
}

/// Counts the input operations of an inner input (forwarding every method, including the
/// overridden fast paths) and panics with WORKCAP when a cap is exceeded (turns a spin into data).
pub struct Counted<I: Input> {
    pub inner: I,
    pub n: Rc<Cell<u64>>,
    pub cap: u64,
}
impl<I: Input> Counted<I> {
    pub fn new(inner: I, n: Rc<Cell<u64>>, cap: u64) -> Self {
        Counted { inner, n, cap }
    }
    #[inline]
    fn tick(&self, k: u64) {
        let v = self.n.get() + k;
        self.n.set(v);
        if v > self.cap {
            panic!("WORKCAP exceeded: {v} input operations");
        }
    }
}
impl<I: Input> Input for Counted<I> {
    fn lookahead(&mut self, count: usize) {
        self.tick(1);
        self.inner.lookahead(count)
    }
    fn buflen(&self) -> usize {
        self.inner.buflen()
    }
    fn bufmaxlen(&self) -> usize {
        self.inner.bufmaxlen()
    }
    fn buf_is_empty(&self) -> bool {
        self.inner.buf_is_empty()
    }
    fn raw_read_ch(&mut self) -> char {
        self.tick(1);
        self.inner.raw_read_ch()
    }
    fn raw_read_non_breakz_ch(&mut self) -> Option<char> {
        self.tick(1);
        self.inner.raw_read_non_breakz_ch()
    }
    fn skip(&mut self) {
        self.tick(1);
        self.inner.skip()
    }
    fn skip_n(&mut self, count: usize) {
        self.tick(1);
        self.inner.skip_n(count)
    }
    fn peek(&self) -> char {
        self.tick(1);
        self.inner.peek()
    }
    fn peek_nth(&self, n: usize) -> char {
        self.tick(1);
        self.inner.peek_nth(n)
    }
    fn look_ch(&mut self) -> char {
        self.tick(1);
        self.inner.look_ch()
    }
    fn next_char_is(&self, c: char) -> bool {
        self.tick(1);
        self.inner.next_char_is(c)
    }
    fn nth_char_is(&self, n: usize, c: char) -> bool {
        self.tick(1);
        self.inner.nth_char_is(n, c)
    }
    fn next_2_are(&self, c1: char, c2: char) -> bool {
        self.tick(1);
        self.inner.next_2_are(c1, c2)
    }
    fn next_3_are(&self, c1: char, c2: char, c3: char) -> bool {
        self.tick(1);
        self.inner.next_3_are(c1, c2, c3)
    }
    fn next_is_document_indicator(&self) -> bool {
        self.tick(1);
        self.inner.next_is_document_indicator()
    }
    fn next_is_document_start(&self) -> bool {
        self.tick(1);
        self.inner.next_is_document_start()
    }
    fn next_is_document_end(&self) -> bool {
        self.tick(1);
        self.inner.next_is_document_end()
    }
    fn skip_ws_to_eol(&mut self, skip_tabs: SkipTabs) -> (usize, Result<SkipTabs, &'static str>) {
        let r = self.inner.skip_ws_to_eol(skip_tabs);
        self.tick(1 + r.0 as u64);
        r
    }
    fn next_can_be_plain_scalar(&self, in_flow: bool) -> bool {
        self.tick(1);
        self.inner.next_can_be_plain_scalar(in_flow)
    }
    fn next_is_blank_or_break(&self) -> bool {
        self.tick(1);
        self.inner.next_is_blank_or_break()
    }
    fn next_is_blank_or_breakz(&self) -> bool {
        self.tick(1);
        self.inner.next_is_blank_or_breakz()
    }
    fn next_is_blank(&self) -> bool {
        self.tick(1);
        self.inner.next_is_blank()
    }
    fn next_is_break(&self) -> bool {
        self.tick(1);
        self.inner.next_is_break()
    }
    fn next_is_breakz(&self) -> bool {
        self.tick(1);
        self.inner.next_is_breakz()
    }
    fn next_is_z(&self) -> bool {
        self.tick(1);
        self.inner.next_is_z()
    }
    fn next_is_flow(&self) -> bool {
        self.tick(1);
        self.inner.next_is_flow()
    }
    fn next_is_digit(&self) -> bool {
        self.tick(1);
        self.inner.next_is_digit()
    }
    fn next_is_alpha(&self) -> bool {
        self.tick(1);
        self.inner.next_is_alpha()
    }
    fn skip_while_non_breakz(&mut self) -> usize {
        let r = self.inner.skip_while_non_breakz();
        self.tick(1 + r as u64);
        r
    }
    fn skip_while_blank(&mut self) -> usize {
        let r = self.inner.skip_while_blank();
        self.tick(1 + r as u64);
        r
    }
    fn fetch_while_is_alpha(&mut self, out: &mut String) -> usize {
        let r = self.inner.fetch_while_is_alpha(out);
        self.tick(1 + r as u64);
        r
    }
}

#[derive(Clone, Copy, Debug, PartialEq, Eq, Hash)]
pub enum Backend {
    Str,
    Buf,
    S8,
    S16,
    S64,
    S128,
}
pub const ALL_BACKENDS: [Backend; 6] = [Backend::Str, Backend::Buf, Backend::S8, Backend::S16, Backend::S64, Backend::S128];
impl Backend {
    pub fn name(self) -> &'static str {
        match self {
            Backend::Str => "str",
            Backend::Buf => "buf",
            Backend::S8 => "strict8",
            Backend::S16 => "strict16",
            Backend::S64 => "strict64",
            Backend::S128 => "strict128",
        }
    }
}

#[derive(Clone, Copy, Debug, PartialEq, Eq, Hash)]
pub enum Api {
    /// plain iteration with `next`
    Iter,
    /// `peek` before every `next`
    PeekNext,
    /// `load(recv, true)`
    PushMulti,
    /// repeated `load(recv, false)`
    PushSingle,
}
pub const ALL_APIS: [Api; 4] = [Api::Iter, Api::PeekNext, Api::PushMulti, Api::PushSingle];
impl Api {
    pub fn name(self) -> &'static str {
        match self {
            Api::Iter => "iter",
            Api::PeekNext => "peeknext",
            Api::PushMulti => "push",
            Api::PushSingle => "push1",
        }
    }
}

pub struct Collect {
    pub evs: Vec<Ev>,
}
impl<'i> SpannedEventReceiver<'i> for Collect {
    fn on_event(&mut self, ev: Event<'i>, span: Span) {
        self.evs.push(Ev::from(&ev, &span));
    }
}

/// Maximum number of events per input before the driver gives up (turns an event spin into data).
pub fn event_cap(len: usize) -> usize {
    16 * (len + 4) + 64
}
/// Cap on input operations; the judged bound lives in the specification (YWork), this is only the
/// safety net that turns a spin into a recorded outcome.
pub fn work_cap(len: usize) -> u64 {
    4096 * (len as u64 + 16)
}

fn drive<'a, I: Input>(mut p: Parser<'a, I>, api: Api, len: usize, run: &mut Run) {
    let cap = event_cap(len);
    match api {
        Api::Iter => loop {
            match p.next_event() {
                None => break,
                Some(Ok((ev, sp))) => {
                    run.evs.push(Ev::from(&ev, &sp));
                    if run.evs.len() > cap {
                        panic!("EVENTCAP exceeded");
                    }
                }
                Some(Err(e)) => {
                    run.err = Some(ErrRec::from(&e));
                    break;
                }
            }
        },
        Api::PeekNext => loop {
            let pk = match p.peek() {
                None => None,
                Some(Ok((ev, sp))) => Some(Ok(Ev::from(ev, sp))),
                Some(Err(e)) => Some(Err(ErrRec::from(&e))),
            };
            let _ = pk;
            match p.next_event() {
                None => break,
                Some(Ok((ev, sp))) => {
                    run.evs.push(Ev::from(&ev, &sp));
                    if run.evs.len() > cap {
                        panic!("EVENTCAP exceeded");
                    }
                }
                Some(Err(e)) => {
                    run.err = Some(ErrRec::from(&e));
                    break;
                }
            }
        },
        Api::PushMulti => {
            let mut c = Collect { evs: vec![] };
            let r = p.load(&mut c, true);
            run.evs = c.evs;
            if let Err(e) = r {
                run.err = Some(ErrRec::from(&e));
            }
        }
        Api::PushSingle => {
            let mut c = Collect { evs: vec![] };
            let mut calls = 0;
            loop {
                calls += 1;
                let before = c.evs.len();
                let r = p.load(&mut c, false);
                if let Err(e) = r {
                    run.err = Some(ErrRec::from(&e));
                    break;
                }
                if c.evs.last().map(|e| e.k) == Some("StreamEnd") {
                    break;
                }
                if c.evs.len() == before || calls > cap {
                    panic!("EVENTCAP exceeded (load(false) made no progress)");
                }
            }
            run.evs = c.evs;
        }
    }
}

pub fn panic_msg(p: Box<dyn std::any::Any + Send>) -> String {
    p.downcast_ref::<String>().cloned().or(p.downcast_ref::<&str>().map(|x| x.to_string())).unwrap_or_else(|| "<non-string panic>".into())
}

/// Run the real parser on `text` through the given back-end and API, recording everything.
// ---------------------------------------------------------------------------------------------
// stall watchdog: every call into the code under test made through the helpers below notes the input; a thread started
// by `start_watchdog` ends the process with exit status 86 and a STALL line on stderr when no new call has started for
// VERIF_STALL_SECS (60) seconds -- a spin of the real code is data about it, and must not wait for the tool time-out
// ---------------------------------------------------------------------------------------------
static PROGRESS: std::sync::atomic::AtomicU64 = std::sync::atomic::AtomicU64::new(0);
static LAST_INPUT: std::sync::Mutex<String> = std::sync::Mutex::new(String::new());
pub fn note_input(text: &str) {
    PROGRESS.fetch_add(1, std::sync::atomic::Ordering::Relaxed);
    if let Ok(mut g) = LAST_INPUT.try_lock() {
        g.clear();
        g.push_str(&text.chars().take(4000).collect::<String>());
    }
}
pub fn start_watchdog() {
    let limit: u64 = std::env::var("VERIF_STALL_SECS").ok().and_then(|x| x.parse().ok()).unwrap_or(60);
    std::thread::spawn(move || {
        let (mut last, mut since) = (u64::MAX, 0u64);
        loop {
            std::thread::sleep(std::time::Duration::from_secs(2));
            let now = PROGRESS.load(std::sync::atomic::Ordering::Relaxed);
            if now == last && now > 0 {
                since += 2;
                if since >= limit {
                    let t = LAST_INPUT.lock().map(|g| g.clone()).unwrap_or_default();
                    eprintln!("STALL {}", serde_json::json!({"secs": since, "t": t}));
                    std::process::exit(86);
                }
            } else {
                last = now;
                since = 0;
            }
        }
    });
}

pub fn run_parser(text: &str, be: Backend, api: Api) -> Run {
    run_parser_opts(text, be, api, false)
}

pub fn run_parser_opts(text: &str, be: Backend, api: Api, keep_tags: bool) -> Run {
    note_input(text);
    let n = Rc::new(Cell::new(0u64));
    let len = text.chars().count();
    let cap = work_cap(len);
    let mut run = Run::default();
    let n2 = n.clone();
    let r = std::panic::catch_unwind(std::panic::AssertUnwindSafe(|| {
        let mut run = Run::default();
        match be {
            Backend::Str => drive(Parser::new(Counted::new(saphyr_parser::StrInput::new(text), n2, cap)).keep_tags(keep_tags), api, len, &mut run),
            Backend::Buf => drive(Parser::new(Counted::new(saphyr_parser::BufferedInput::new(text.chars()), n2, cap)).keep_tags(keep_tags), api, len, &mut run),
            Backend::S8 => drive(Parser::new(Counted::new(Strict::<8>::new(text), n2, cap)).keep_tags(keep_tags), api, len, &mut run),
            Backend::S16 => drive(Parser::new(Counted::new(Strict::<16>::new(text), n2, cap)).keep_tags(keep_tags), api, len, &mut run),
            Backend::S64 => drive(Parser::new(Counted::new(Strict::<64>::new(text), n2, cap)).keep_tags(keep_tags), api, len, &mut run),
            Backend::S128 => drive(Parser::new(Counted::new(Strict::<128>::new(text), n2, cap)).keep_tags(keep_tags), api, len, &mut run),
        }
        run
    }));
    match r {
        Ok(r) => run = r,
        Err(p) => run.panic = Some(panic_msg(p)),
    }
    run.work = n.get();
    run
}

/// Plain, uncounted run on the string back-end (fast path used by most properties).
pub fn run_str(text: &str) -> Run {
    note_input(text);
    let mut run = Run::default();
    let len = text.len();
    let r = std::panic::catch_unwind(std::panic::AssertUnwindSafe(|| {
        let mut run = Run::default();
        drive(Parser::new_from_str(text), Api::Iter, len, &mut run);
        run
    }));
    match r {
        Ok(r) => run = r,
        Err(p) => run.panic = Some(panic_msg(p)),
    }
    run
}
pub fn run_buf(text: &str) -> Run {
    note_input(text);
    let mut run = Run::default();
    let len = text.len();
    let r = std::panic::catch_unwind(std::panic::AssertUnwindSafe(|| {
        let mut run = Run::default();
        drive(Parser::new_from_iter(text.chars()), Api::Iter, len, &mut run);
        run
    }));
    match r {
        Ok(r) => run = r,
        Err(p) => run.panic = Some(panic_msg(p)),
    }
    run
}

// ---------------------------------------------------------------------------------------------
// TLC output parsing: lines of the form  <<"REPLAY", "json">>  (TLA-escaped JSON string)
// ---------------------------------------------------------------------------------------------
pub fn parse_replay_line(line: &str) -> Option<Value> {
    let i = line.find("<<\"REPLAY\", ")?;
    let body = &line[i + 12..];
    let body = body.strip_suffix(">>")?;
    let js: String = serde_json::from_str(body).ok()?;
    serde_json::from_str(&js).ok()
}

pub fn text_of(v: &Value) -> String {
    match v {
        Value::String(s) => s.clone(),
        Value::Array(a) => a.iter().map(|c| unname(c.as_str().unwrap_or(""))).collect(),
        _ => String::new(),
    }
}

pub fn silence_panics() {
    std::panic::set_hook(Box::new(|_| {}));
}
