//! Input generators for the shared pool (DESIGN §7.0): corpus, mutated corpus, random soups,
//! boundary families. Pure generators of raw text; nothing here knows what the right answer is.
use crate::Rng;
use serde_json::Value;

#[derive(Clone, Debug)]
pub struct SuiteCase {
    pub id: String,
    pub yaml: String,
    pub tree: String,
    pub fail: bool,
    pub json: Option<String>,
}

pub fn load_suite(path: &str) -> Vec<SuiteCase> {
    let s = std::fs::read_to_string(path).unwrap_or_else(|e| panic!("cannot read {path}: {e}"));
    s.lines()
        .filter(|l| !l.trim().is_empty())
        .map(|l| {
            let v: Value = serde_json::from_str(l).unwrap();
            SuiteCase {
                id: v["id"].as_str().unwrap().to_string(),
                yaml: v["yaml"].as_str().unwrap().to_string(),
                tree: v["tree"].as_str().unwrap_or("").to_string(),
                fail: v["fail"].as_bool().unwrap_or(false),
                json: v["json"].as_str().map(|x| x.to_string()),
            }
        })
        .collect()
}

pub const VOCAB: &[&str] = &[
    "a", "b", "key", " ", " ", "  ", "\n", "\n", "-", ":", "?", "[", "]", "{", "}", ",", "#", "&", "*", "!", "|", ">", "'", "\"", "%", "\\", "\t", ".", "é", "1", "+", "~", "x", "<", "@", "---", "...", "- ", "? ", ": ", "\n  ", "\n- ", "\r\n", "\r",
    "\\u00e9", "\\U0001F600", "\\x41", "\\n", "%YAML 1.2\n", "%TAG !e! tag:e:\n", "!e!x", "!<t>", "!!str", "&a", "*a", "&b ", "*b ", "aaaaaaaaaaaaaa", "              ", "|2\n", "|+\n", ">-\n", "\0", "\u{FEFF}", "\u{2028}", "😀", "null", "0x1F", "'a'", "\"b\"", "[a]", "{a: b}", "k: v\n",
];

/// token soup: random concatenation of vocabulary entries
pub fn soup(rng: &mut Rng, max_tokens: usize) -> String {
    let n = 1 + rng.below(max_tokens);
    (0..n).map(|_| VOCAB[rng.below(VOCAB.len())]).collect()
}

const LINE_KINDS: &[&str] = &[
    "- a", "- ", "-", "k: v", "k:", "? k", ": v", "? ", "- - a", "- k: v", "- [a, b]", "- {a: b}", "k: [a,", "b]", "k: {a: b,", "c: d}", "# comment", "", "a", "a b", "'q'", "\"q\"", "\"q", "q\"", "k: |", "k: >-", "- |+", "text", "  more", "&a k: *a", "!t k: !!str v", "*a", "&a", "---", "...", "--- a", "%YAML 1.2", "%TAG ! tag:x:", "k: 'a", "b'", "k: \"a\\", "? - a", ": - b", "- ? a", "[", "]", "{", "}", ",", "k:\tv", "-\ta", "\tk: v", "k: v # c", "k: v#c", "a: b: c", "k : v",
];

/// line-structured soup: random indentation + random line kind
pub fn line_soup(rng: &mut Rng, max_lines: usize) -> String {
    let n = 1 + rng.below(max_lines);
    let mut s = String::new();
    let mut ind = 0usize;
    for _ in 0..n {
        match rng.below(4) {
            0 => ind = rng.below(7),
            1 => ind = ind.saturating_sub(2),
            2 => ind += 2,
            _ => {}
        }
        for _ in 0..ind {
            s.push(' ');
        }
        s.push_str(LINE_KINDS[rng.below(LINE_KINDS.len())]);
        match rng.below(12) {
            0 => s.push_str("\r\n"),
            1 => s.push('\r'),
            2 => {}
            _ => s.push('\n'),
        }
    }
    s
}

const SUBST: &[char] = &['-', ':', '?', '[', ']', '{', '}', ',', '#', '&', '*', '!', '|', '>', '\'', '"', '%', ' ', '\n', '\t', 'a', '\\'];

/// one seeded mutation of a text: char flip, line deletion/duplication/swap, indentation shift,
/// indicator substitution, truncation
pub fn mutate(rng: &mut Rng, text: &str) -> String {
    let cs: Vec<char> = text.chars().collect();
    if cs.is_empty() {
        return SUBST[rng.below(SUBST.len())].to_string();
    }
    match rng.below(9) {
        0 => {
            // substitute one char
            let mut c = cs.clone();
            let i = rng.below(c.len());
            c[i] = SUBST[rng.below(SUBST.len())];
            c.into_iter().collect()
        }
        1 => {
            // delete one char
            let mut c = cs.clone();
            let i = rng.below(c.len());
            c.remove(i);
            c.into_iter().collect()
        }
        2 => {
            // insert one char
            let mut c = cs.clone();
            let i = rng.below(c.len() + 1);
            c.insert(i, SUBST[rng.below(SUBST.len())]);
            c.into_iter().collect()
        }
        3 => {
            // truncate
            let i = rng.below(cs.len());
            cs[..i].iter().collect()
        }
        4 | 5 | 6 => {
            let mut lines: Vec<String> = text.split_inclusive('\n').map(|x| x.to_string()).collect();
            if lines.is_empty() {
                return text.to_string();
            }
            let i = rng.below(lines.len());
            match rng.below(4) {
                0 => {
                    lines.remove(i);
                }
                1 => {
                    let l = lines[i].clone();
                    lines.insert(i, l);
                }
                2 => {
                    let j = rng.below(lines.len());
                    lines.swap(i, j);
                }
                _ => {
                    // indentation shift of one line by +-1
                    if rng.chance(1, 2) {
                        lines[i].insert(0, ' ');
                    } else if lines[i].starts_with(' ') {
                        lines[i].remove(0);
                    }
                }
            }
            lines.concat()
        }
        7 => {
            // shift indentation of a block of lines
            let mut lines: Vec<String> = text.split_inclusive('\n').map(|x| x.to_string()).collect();
            let i = rng.below(lines.len());
            for l in lines.iter_mut().skip(i) {
                l.insert(0, ' ');
            }
            lines.concat()
        }
        _ => {
            // LF -> CRLF or CR
            if rng.chance(1, 2) {
                text.replace('\n', "\r\n")
            } else {
                text.replace('\n', "\r")
            }
        }
    }
}

/// boundary families around the constants the code depends on (buffer capacities 8/16/64/128, the
/// 1024-character simple-key limit, the flow depth limit 255, nine-digit version numbers, …)
pub fn boundary_families(full: bool) -> Vec<(String, String)> {
    let mut out: Vec<(String, String)> = vec![];
    let mut push = |o: &str, t: String| out.push((o.to_string(), t));
    let caps: &[usize] = &[8, 16, 64, 128];
    for &k in caps {
        for d in [-2i64, -1, 0, 1, 2] {
            let n = (k as i64 + d) as usize;
            let offs: Vec<usize> = if full { (0..k.min(20)).collect() } else { vec![0, 1, k.min(20) - 1] };
            for off in offs {
                let pad = "k: ".to_string() + &"p".repeat(off) + " ";
                push("bf:plainrun", format!("{pad}{}\n", "a".repeat(n)));
                push("bf:plainrun-colon", format!("{pad}{}: v\n", "a".repeat(n)));
                push("bf:spaces", format!("{pad}a{}b\n", " ".repeat(n)));
                push("bf:breaks", format!("{pad}a{}b\n", "\n".repeat(n)));
                push("bf:comment", format!("{pad}a #{}\nb: c\n", "c".repeat(n)));
                push("bf:dq", format!("{pad}\"{}\"\n", "a".repeat(n)));
                push("bf:dq-esc", format!("{pad}\"{}\\x41\\u00e9\\U0001F600z\"\n", "a".repeat(n)));
                push("bf:sq", format!("{pad}'{}''b'\n", "a".repeat(n)));
                push("bf:flowplain", format!("[{}{}, b]\n", "p".repeat(off), "a".repeat(n)));
                push("bf:nonascii", format!("{pad}{}\n", "é".repeat(n)));
                push("bf:anchor", format!("{pad}&{} v\n", "a".repeat(n)));
                push("bf:tag", format!("{pad}!{} v\n", "a".repeat(n)));
            }
        }
        // block scalar indentation around K
        for d in [-3i64, -2, -1, 0, 1] {
            let ind = (k as i64 + d) as usize;
            let sp = " ".repeat(ind);
            push("bf:blockindent", format!("k: |\n{sp}line1\n{sp}line2\n\n{sp} more\n"));
            push("bf:blockindent-folded", format!("k: >\n{sp}line1\n{sp}line2\n{sp}\n{sp}x\n"));
            push("bf:blockindent-blank", format!("k: |\n{}\n{sp}line1\n", " ".repeat(ind.saturating_sub(1))));
            push("bf:blockline", format!("k: |\n  {}\n  x\n", "y".repeat(ind)));
        }
    }
    for ind in 1..=9 {
        push("bf:block-explicit", format!("- |{ind}\n{}x\n", " ".repeat(ind + 1)));
        push("bf:block-explicit-keep", format!("k:\n  - >{ind}+\n{}x\n\n\n", " ".repeat(ind + 2)));
    }
    // escape sequences at the edges of the code space (surrogates, last code point, NUL) in the three widths,
    // complete, truncated and with a non-hex digit, in double quotes (and inert in single quotes / plain)
    for code in [0x0u32, 0x7f, 0x80, 0xff, 0x100, 0xd7ff, 0xd800, 0xdbff, 0xdc00, 0xdfff, 0xe000, 0xfffd, 0xfffe, 0xffff, 0x10000, 0x10ffff, 0x110000, 0x7fffffff, 0xffffffff] {
        let mut forms = vec![format!("\\U{code:08x}"), format!("\\U{code:08X}")];
        if code <= 0xffff {
            forms.push(format!("\\u{code:04x}"));
        }
        if code <= 0xff {
            forms.push(format!("\\x{code:02x}"));
        }
        for f in forms {
            push("bf:escape", format!("\"{f}\"\n"));
            push("bf:escape-key", format!("\"a{f}b\": [\"{f}\"]\n"));
            push("bf:escape-single", format!("'{f}'\n"));
            push("bf:escape-trunc", format!("\"{}\"\n", &f[..f.len() - 1]));
            push("bf:escape-nonhex", format!("\"{}g\"\n", &f[..f.len() - 1]));
        }
    }
    for c in "0abtnvfre \"/\\N_LPxuUqz1\t".chars() {
        push("bf:escape-short", format!("\"a\\{c}b\"\n"));
    }
    // flow nesting around the u8 limit
    for n in [254usize, 255, 256, 257, 258] {
        push("bf:flowdepth-seq", format!("{}{}", "[".repeat(n), "]".repeat(n)));
        push("bf:flowdepth-map", format!("{}a{}", "{a: ".repeat(n), "}".repeat(n)));
        let mixed: String = (0..n).map(|i| if i % 2 == 0 { "[" } else { "{a: " }).collect();
        push("bf:flowdepth-mixed", mixed);
    }
    // implicit keys around 1024 characters
    for n in [1022usize, 1023, 1024, 1025, 1026] {
        push("bf:longkey-block", format!("{}: v\n", "k".repeat(n)));
        push("bf:longkey-flow", format!("{{{}: v}}\n", "k".repeat(n)));
        push("bf:longkey-flowseq", format!("[{}: v]\n", "k".repeat(n)));
        push("bf:longkey-quoted", format!("\"{}\": v\n", "k".repeat(n)));
        push("bf:longkey-multiline-flow", format!("{{{}\n{}: v}}\n", "k".repeat(n / 2), "k".repeat(n / 2)));
    }
    // version numbers around the integer widths
    for v in ["255", "256", "65535", "65536", "2147483647", "2147483648", "4294967295", "4294967296", "9999999999", "09999999999", "18446744073709551615", "18446744073709551616"] {
        push("bf:version-width", format!("%YAML {v}.2\n--- a\n"));
        push("bf:version-width-minor", format!("%YAML 1.{v}\n--- a\n"));
    }
    // version numbers of 8..11 digits
    for n in 8..=11 {
        push("bf:version", format!("%YAML {}.2\n--- a\n", "1".repeat(n)));
        push("bf:version-minor", format!("%YAML 1.{}\n--- a\n", "2".repeat(n)));
    }
    // every prefix of compact documents that between them use every construct (end of input at every position)
    for t in [
        "a: b\nc:\n  - d\n  - e: f\n", "- a\n-\n  - b\n  - c\n- d: e\n", "? a\n: b\n? c\n", "[a, b: c, {d: e}, [f]]\n", "{a: b, c, ? d : e, f: [g, h]}\n", "&a a: *a\nb: &b [*a]\n",
        "!t a: !!str b\n!<x:y> c: d\n", "k: |\n  a\n   b\n\n  c\nj: >-\n  d\n  e\n", "k: |2+\n   a\n\nj: >1-\n  b\n", "'a ''b'' c': \"d\\te \\u00e9 \\\n  f\"\n", "\"a\n\n b\"\n", "'a\n b\n\n c'\n",
        "a\n b\n\n c\n", "%YAML 1.2\n%TAG !e! tag:e:\n--- !e!x a\n...\n%FOO bar\n--- b\n", "--- a\n... # c\n--- |\n b\n---\n- c\n...\n", "a: b # c\n# d\n\ne: f\n", "- - a\n  - b\n- ? c\n  : d\n", "a:\n- b\n- c\nd: e\n",
        "[\n  a,\n  b: c,\n]\n", "{\n  a: b,\n  c: d\n}\n", "- [a, [b, {c: d}]]\n- {e: [f]}\n", "a: &x\n  b: c\nd: *x\n", "- !!seq\n  - a\n- !!map\n  k: v\n", "\u{FEFF}a: b\n", "a: \"b\" # c\n\"d\": 'e'\n",
        "? [a, b]\n: {c: d}\n", "- |\n a\n- >\n b\n\n c\n", "a: - b\n", "a:\tb\n-\tc\n", "{\"a\":1,\"b\":[true,null],\"c\":{\"d\":\"e\"}}\n", "a\r\nb: c\r- d\r\n",
    ] {
        let cs: Vec<char> = t.chars().collect();
        for i in 0..=cs.len() {
            push("bf:prefix", cs[..i].iter().collect::<String>());
        }
    }
    // a line that starts with a tab, after every kind of line ending
    for prev in ["a:", "-", "a: \"q\"", "- x", "? k", "a: [", "# c", "a: |", "a: 'q'", "- [x]", "- {x: y}", "a: &n", "a: !t", "---", "--- a", "a: b # c", "a: b", "- ", "a: *n", "[", "{a: b,"] {
        for next in ["b: 1", "y", "- z", "]", "# c", "", "\"q\"", "b", " b", "\tb"] {
            for brk in ["\n", "\r\n", "\r"] {
                push("bf:tabline", format!("{prev}{brk}\t{next}{brk}"));
                push("bf:tabline-indented", format!("k:{brk}  {prev}{brk}  \t{next}{brk}"));
                push("bf:tabline-after-space", format!("{prev}{brk} \t{next}{brk}"));
            }
        }
    }
    // a document marker as the very last thing of the input, with and without a break or blanks after it
    for before in ["a\n", "a: b\n", "- a\n", "\"a\n", "'a\n", "a: |\n  b\n", "[a\n", "a\n b\n", "# c\n", "--- a\n", "a: \"b\n  c\n", "k:\n  - a\n", "", "\n", "a: >\n b\n\n", "&x a\n", "!t\n"] {
        for m in ["...", "---", " ...", " ---", "....", "----", "..", "--", "...a", "---a", "... a", "--- a", "... #", "--- #"] {
            for after in ["", "\n", " ", "\t", " \n", "\r", "\r\n", "\n\n"] {
                push("bf:marker-at-end", format!("{before}{m}{after}"));
            }
        }
    }
    // every ASCII character (and a few digits of other scripts) in a position where a hexadecimal digit is expected
    for c in (0u32..128).chain([0xff, 0x660, 0x96f, 0xff11, 0xff21, 0x1d7d8]).filter_map(char::from_u32) {
        push("bf:hexpos-x", format!("\"\\x{c}1\"\n"));
        push("bf:hexpos-x2", format!("\"\\x1{c}\"\n"));
        push("bf:hexpos-u", format!("\"\\u00{c}1\"\n"));
        push("bf:hexpos-U", format!("\"a\\U0000004{c}b\"\n"));
        push("bf:hexpos-tag", format!("!%{c}0 a\n"));
        push("bf:hexpos-tag2", format!("- !e%4{c} a\n"));
        push("bf:hexpos-directive", format!("%TAG !e! tag:%{c}1\n--- !e!x a\n"));
    }
    // characters whose code point ends in the byte of a YAML-significant ASCII character (U+01xx, U+4Exx, U+20xx), where
    // that ASCII character would change the parse
    for b in [0x09u32, 0x0a, 0x0d, 0x20, 0x22, 0x23, 0x26, 0x27, 0x2a, 0x2c, 0x2d, 0x2e, 0x3a, 0x3e, 0x3f, 0x5b, 0x5d, 0x7b, 0x7c, 0x7d, 0x00, 0x25, 0x21, 0x40, 0x60] {
        for hi in [0x100u32, 0x4e00, 0x2000, 0x1f600] {
            if let Some(c) = char::from_u32(hi + b) {
                push("bf:lowbyte-plain", format!("{c}a: {c}\n"));
                push("bf:lowbyte-seq", format!("- {c}\n- a{c}b\n-{c}x\n"));
                push("bf:lowbyte-folded", format!(">\n a\n {c}\n b\n"));
                push("bf:lowbyte-literal", format!("k: |\n  a\n  {c}b\n {c}\n"));
                push("bf:lowbyte-quoted", format!("\"a\n {c}\n b{c}\"\n"));
                push("bf:lowbyte-single", format!("k: 'a{c}\n  {c}b'\n"));
                push("bf:lowbyte-flow", format!("[a{c}, {c}b, {c}: {c}]\n"));
                push("bf:lowbyte-multiline-plain", format!("a\n {c}\n{c}b: c\n"));
                push("bf:lowbyte-comment", format!("a: b #{c}\n{c}# c\nk: v {c}# c\n"));
                push("bf:lowbyte-anchor", format!("- &a{c} x\n- *a{c}\n- !t{c} y\n"));
                push("bf:lowbyte-doc", format!("---{c}a\n...{c}\n%YAML{c}1.2\n"));
            }
        }
    }
    // an indicator as the last thing on its line, the node on the following lines, in the three break styles
    for brk in ["\n", "\r\n", "\r"] {
        for ind in ["?", "? ", "?\t", "? # c", "-", "- ", "- # c", "k:", "k: # c", "? a\n:", "- ?", "- k:", "? -"] {
            let ind = ind.replace('\n', brk);
            push("bf:indicator-eol", format!("{ind}{brk}  a{brk}"));
            push("bf:indicator-eol-value", format!("{ind}{brk}  a{brk}: b{brk}"));
            push("bf:indicator-eol-seq", format!("{ind}{brk}  - a{brk}  - b{brk}"));
            push("bf:indicator-eol-map", format!("{ind}{brk}  x: y{brk}  z: w{brk}"));
            push("bf:indicator-eol-quoted", format!("{ind}{brk}  \"a{brk}   b\"{brk}"));
            push("bf:indicator-eol-block", format!("{ind}{brk}  |{brk}   t{brk}"));
        }
    }
    // flow keys that span lines with the ':' about 1024 characters after the start of the key
    for d in [990usize, 1010, 1020, 1022, 1023, 1024, 1025, 1030, 1060] {
        for b in [1usize, 5, 20, 40] {
            let pad = " ".repeat(d.saturating_sub(b + 3));
            push("bf:flowkey-span", format!("{{\"k\"{}{pad}: v, a: b}}\n", "\n".repeat(b)));
            push("bf:flowkey-span-seq", format!("[\"k\"{}{pad}, a: b]\n", "\n".repeat(b)));
            push("bf:flowkey-span-plain", format!("{{k{}{pad}: v}}\n", "\n".repeat(b)));
        }
    }
    // flow collections made of short entries with lone indicators ("?" alone, ": v", "? : v", "a:", properties alone):
    // every sequence of 1..3 entries in a flow mapping and a flow sequence, with and without a trailing comma
    {
        let items = ["?", "? a", "a", "a: b", ": b", "? : b", "? a : b", "a:", "&x", "!t", "\"q\": r", "? &y"];
        for (o, c) in [("{", "}"), ("[", "]")] {
            for a in items {
                push("bf:flow-items1", format!("{o} {a} {c}\n"));
                push("bf:flow-items1", format!("{o} {a} , {c}\n"));
                for b in items {
                    push("bf:flow-items2", format!("{o} {a} , {b} {c}\n"));
                    push("bf:flow-items2", format!("k: {o}{a}, {b},{c}\n"));
                    for d in ["?", "a: b", ": b", "a"] {
                        push("bf:flow-items3", format!("{o} {a} , {b} , {d} {c}\n"));
                    }
                }
            }
        }
    }
    // percent-encoded characters of 1..4 bytes in tag suffixes, verbatim tags and %TAG prefixes (each %XX is three characters of input)
    for esc in ["%21", "%C3%A9", "%E2%82%AC", "%F0%9F%98%80", "%C3%A9%21%E2%82%AC"] {
        push("bf:tag-escapes", format!("- !caf{esc} value\n- next: 1\n"));
        push("bf:tag-escapes", format!("!<x:{esc}y> a\n"));
        push("bf:tag-escapes", format!("%TAG !e! tag:e{esc}:\n--- !e!t{esc} v # c\n...\n--- [x\n"));
        push("bf:tag-escapes", format!("k: !!s{esc} v\nj: [!t{esc} a, b]\n"));
    }
    // inputs ending after every token kind, with and without final break
    for t in ["a", "- a", "- ", "-", "k:", "k: v", "? k", "? ", ": v", "[a", "[a,", "[a]", "{a", "{a: b", "{a: b}", "&a", "&a b", "*a", "!t", "!!str a", "|", ">", "|+", "|-", ">2", "'a'", "'a", "\"a\"", "\"a", "\"a\\", "---", "--- a", "...", "%YAML 1.2", "%TAG ! x", "# c", "a #c", "a:", "a: |", "- |", "- >-", "k: |2", "k: &a", "k: !t", "k: *a"] {
        push("bf:ending", t.to_string());
        push("bf:ending-nl", format!("{t}\n"));
        push("bf:ending-sp", format!("{t} "));
        push("bf:ending-crlf", format!("{t}\r\n"));
        push("bf:ending-cr", format!("{t}\r"));
    }
    out
}

/// Replace LF by CRLF / lone CR.
pub fn crlf(t: &str) -> String {
    t.replace('\n', "\r\n")
}
pub fn cr(t: &str) -> String {
    t.replace('\n', "\r")
}

const DOC_FRAGS: &[&str] = &[
    "&a x\n", "*a\n", "&b [1, 2]\n", "*b\n", "&a [*a, 1]\n", "&b {self: *b}\n", "k: &a [*a]\n", "- &b [x, *b]\n", "k: &a v\nj: *a\n", "- &a x\n- *a\n", "[&b 1, *b]\n", "{&a k: *a}\n", "&a\n", "k: *a\n", "- *b\n",
    "!e!t x\n", "!!str y\n", "!t &a z\n", "plain\n", "k: v\n", "- a\n- b\n", "|\n  text\n", ">-\n  folded\n  more\n", "\"q\"\n", "[a, b]\n", "{a: b}\n", "",
];
const DOC_HEADS: &[&str] = &["---\n", "--- ", "---\n", "%YAML 1.2\n---\n", "%TAG !e! tag:e.org,2000:\n---\n", "%TAG !e! tag:e.org,2000:\n%TAG !f! !f-\n--- ", ""];
const DOC_TAILS: &[&str] = &["", "", "...\n", "... # end\n"];

/// multi-document streams with anchors, aliases, tags and directives (accepted or not)
pub fn multi_doc(rng: &mut Rng) -> String {
    let n = 1 + rng.below(4);
    let mut s = String::new();
    for i in 0..n {
        let head = if i == 0 && rng.chance(1, 3) { "" } else { DOC_HEADS[rng.below(DOC_HEADS.len())] };
        s.push_str(head);
        let f = DOC_FRAGS[rng.below(DOC_FRAGS.len())];
        if head == "--- " && (f.contains("\n") && f.trim_end().contains('\n')) {
            s.push('\n');
        }
        s.push_str(f);
        s.push_str(DOC_TAILS[rng.below(DOC_TAILS.len())]);
    }
    s
}
