//! `vh` — recording harness. Sub-commands write NDJSON for TLC to judge; they never decide a
//! property themselves (they do report panics/timeouts of the code under test as data).
#![allow(clippy::all)]
use serde_json::{json, Value};
use std::collections::HashMap;
use std::io::{BufRead, BufWriter, Write};
use vh::gen;
use vh::*;

mod cmds;
mod p;

pub struct Args {
    pub m: HashMap<String, String>,
    pub pos: Vec<String>,
}
impl Args {
    pub fn parse() -> (String, Args) {
        let mut it = std::env::args().skip(1);
        let cmd = it.next().unwrap_or_default();
        let mut m = HashMap::new();
        let mut pos = vec![];
        let rest: Vec<String> = it.collect();
        let mut i = 0;
        while i < rest.len() {
            if let Some(k) = rest[i].strip_prefix("--") {
                if i + 1 < rest.len() && !rest[i + 1].starts_with("--") {
                    m.insert(k.to_string(), rest[i + 1].clone());
                    i += 2;
                } else {
                    m.insert(k.to_string(), "1".to_string());
                    i += 1;
                }
            } else {
                pos.push(rest[i].clone());
                i += 1;
            }
        }
        (cmd, Args { m, pos })
    }
    pub fn get(&self, k: &str) -> Option<&str> {
        self.m.get(k).map(|s| s.as_str())
    }
    pub fn req(&self, k: &str) -> &str {
        self.get(k).unwrap_or_else(|| {
            eprintln!("missing --{k}");
            std::process::exit(2)
        })
    }
    pub fn num(&self, k: &str, d: usize) -> usize {
        self.get(k).and_then(|s| s.parse().ok()).unwrap_or(d)
    }
    pub fn thorough(&self) -> bool {
        self.get("tier") == Some("thorough")
    }
}

pub fn out_file(path: &str) -> BufWriter<std::fs::File> {
    BufWriter::new(std::fs::File::create(path).unwrap_or_else(|e| {
        eprintln!("cannot create {path}: {e}");
        std::process::exit(2)
    }))
}

/// Pool entries: NDJSON {"o": origin, "t": text}
pub fn read_pool(path: &str) -> Vec<(String, String)> {
    let f = std::fs::File::open(path).unwrap_or_else(|e| {
        eprintln!("cannot open {path}: {e}");
        std::process::exit(2)
    });
    let mut v = vec![];
    for l in std::io::BufReader::new(f).lines() {
        let l = l.unwrap();
        if l.is_empty() {
            continue;
        }
        let j: Value = serde_json::from_str(&l).unwrap();
        v.push((j["o"].as_str().unwrap_or("").to_string(), j["t"].as_str().unwrap_or("").to_string()));
    }
    v
}

/// Read TLC output and turn every REPLAY line into a JSON value.
/// The REPLAY records of a TLC output file, one at a time (the thorough tier's files reach gigabytes).
pub fn read_replays(path: &str) -> impl Iterator<Item = Value> {
    let f = std::fs::File::open(path).unwrap_or_else(|e| {
        eprintln!("cannot open {path}: {e}");
        std::process::exit(2)
    });
    std::io::BufReader::new(f).lines().filter_map(|l| parse_replay_line(&l.unwrap()))
}

fn main() {
    let (cmd, args) = Args::parse();
    silence_panics();
    // the commands whose every step is a call of the parser / loader on one pool input (through vh::run_* / load_*) run
    // under the stall watchdog; the others have their own limits (child processes, decode watchdog) or no parsing loop
    if ["c01", "c02", "pipeline-replay", "ptrace", "c03", "c03-suite", "c06-suite", "c07", "c09-replay", "c09-random", "c10", "c10-ops", "c12", "c13", "c14", "c15", "c16", "c17", "c19", "pool", "tlc2pool"].contains(&cmd.as_str()) {
        vh::start_watchdog();
    }
    match cmd.as_str() {
        "suite-extract" => suite_extract(&args),
        "pool" => pool(&args),
        "tlc2pool" => tlc2pool(&args),
        _ => {
            if !cmds::dispatch(&cmd, &args) {
                eprintln!("unknown command {cmd}");
                std::process::exit(2);
            }
        }
    }
}

/// One-time extraction of the yaml-test-suite data from /repo into /verif/corpus/suite.ndjson
/// (so that the corpus does not depend on the library under test being able to read it).
fn suite_extract(args: &Args) {
    use saphyr::{LoadableYamlNode, Scalar, Yaml};
    let dir = args.req("dir");
    let mut w = out_file(args.req("out"));
    let mut names: Vec<_> = std::fs::read_dir(dir).unwrap().map(|e| e.unwrap().path()).collect();
    names.sort();
    let vis = |y: &str| {
        let mut y = y.to_owned();
        for (p, r) in [("␣", " "), ("»", "\t"), ("—", ""), ("←", "\r"), ("⇔", "\u{FEFF}"), ("↵", ""), ("∎\n", "")] {
            y = y.replace(p, r);
        }
        y
    };
    let mut n = 0;
    for p in names {
        let name = p.file_stem().unwrap().to_string_lossy().to_string();
        let docs = Yaml::load_from_str(&std::fs::read_to_string(&p).unwrap()).unwrap();
        let tests = docs[0].as_vec().unwrap();
        let mut cur = saphyr::Mapping::new();
        for (idx, t) in tests.iter().enumerate() {
            let id = if tests.len() > 1 { format!("{name}-{idx:02}") } else { name.clone() };
            cur.remove(&Yaml::Value(Scalar::String("fail".into())));
            for (k, v) in t.as_mapping().unwrap().clone() {
                cur.insert(k, v);
            }
            let c = Yaml::Mapping(cur.clone());
            if c.contains_mapping_key("skip") {
                continue;
            }
            let fail = c.as_mapping_get("fail").map(|x| x.as_bool().unwrap_or(false)) == Some(true);
            let js = c.as_mapping_get("json").and_then(|x| x.as_str()).map(|x| x.to_string());
            writeln!(w, "{}", json!({"id": id, "yaml": vis(c["yaml"].as_str().unwrap()), "tree": vis(c["tree"].as_str().unwrap_or("")), "fail": fail, "json": js})).unwrap();
            n += 1;
        }
    }
    eprintln!("extracted {n} cases");
}

/// Build the non-TLC part of the shared input pool.
fn pool(args: &Args) {
    let seed = seed_from_env();
    let mut rng = Rng::new(seed ^ 0x706f6f6c);
    let mut w = out_file(args.req("out"));
    let suite = gen::load_suite(args.req("suite"));
    let thorough = args.thorough();
    let n_soup = args.num("soups", if thorough { 400_000 } else { 30_000 });
    let n_mut = args.num("mutants", if thorough { 60 } else { 6 });
    let mut n = 0usize;
    let mut put = |o: &str, t: &str, w: &mut BufWriter<std::fs::File>| {
        writeln!(w, "{}", json!({"o": o, "t": t})).unwrap();
        n += 1;
    };
    for c in &suite {
        put(&format!("suite:{}", c.id), &c.yaml, &mut w);
        // the same case with CRLF and with lone-CR line breaks
        if c.yaml.contains('\n') && !c.yaml.contains('\r') {
            put(&format!("suite-crlf:{}", c.id), &gen::crlf(&c.yaml), &mut w);
            put(&format!("suite-cr:{}", c.id), &gen::cr(&c.yaml), &mut w);
        }
    }
    // documents embedded in the repository's own tests are covered by the suite corpus and the
    // seeds below (kept small and explicit)
    for s in SEEDS {
        put("seed", s, &mut w);
    }
    for c in &suite {
        for _ in 0..n_mut {
            let mut t = gen::mutate(&mut rng, &c.yaml);
            if rng.chance(1, 4) {
                t = gen::mutate(&mut rng, &t);
            }
            put(&format!("mut:{}", c.id), &t, &mut w);
        }
        // truncation at every offset (thorough) / 8 offsets (quick)
        let cs: Vec<char> = c.yaml.chars().collect();
        if thorough {
            for i in 0..cs.len() {
                put(&format!("trunc:{}", c.id), &cs[..i].iter().collect::<String>(), &mut w);
            }
        } else {
            for _ in 0..4 {
                let i = rng.below(cs.len().max(1));
                put(&format!("trunc:{}", c.id), &cs[..i].iter().collect::<String>(), &mut w);
            }
        }
    }
    for i in 0..n_soup {
        let t = if i % 3 == 0 { gen::line_soup(&mut rng, if i % 12 == 0 { 24 } else { 6 }) } else { gen::soup(&mut rng, if i % 8 == 0 { 48 } else { 12 }) };
        put(if i % 3 == 0 { "linesoup" } else { "soup" }, &t, &mut w);
    }
    for _ in 0..args.num("multidoc", if thorough { 20_000 } else { 1_500 }) {
        put("multidoc", &gen::multi_doc(&mut rng), &mut w);
    }
    for (o, t) in gen::boundary_families(thorough) {
        put(&o, &t, &mut w);
    }
    for (o, t) in p::c08::typed_family(seed) {
        put(&o, &t, &mut w);
    }
    w.flush().unwrap();
    eprintln!("pool: {n} entries");
}

const SEEDS: &[&str] = &[
    "", "a", "a: b", "- a", "[a: b]", "{a: b}", "{...", "[...", "a\n...\nb", "--- |\n a\n...\n", "? a\n: b\n", "a:\n- b\n- c\n", "&a [*a]", "&a a: *a", "%YAML 1.2\n---\na", "%TAG !e! tag:e:\n--- !e!x a", "a: |\n  b\n c", "a: \"b\\\n  c\"", "'a\n\n b'", "[a,\n]", "k: [a\n]\n", "{\"a\":1}", "{\"a\":\t1}", "- - - a", "-\ta", "a:\tb", "\ta", "a\r\nb\r", "a # c\n# d\nb", "!!str", "& a", "*", "|\n", ">\n", "|+\n", "--- >1-\n  a\n", "\u{FEFF}a", "a\0b", "{ a: [ b, { c: d } ], e: f }",
    // nodes that consist of properties only (empty content under a tag or an anchor)
    "a: !!str\nb:\nc: 1\n", "- !!str\n- &x\n- x\n", "- !!int\n- !!null\n- !local\n- !\n", "? !!str\n: !!str\n", "--- !!str\n--- &a\n--- !!map\n", "[!!str, &y , !!int ]\n", "{!!str : !!null , k: !t }\n",
];

/// Convert TLC REPLAY lines (text as char arrays) into pool entries.
fn tlc2pool(args: &Args) {
    let mut w = out_file(args.req("out"));
    let origin = args.get("origin").unwrap_or("tlc");
    let mut n = 0;
    let dedupe = args.get("dedupe").is_some();
    let mut seen = std::collections::HashSet::new();
    for v in read_replays(args.req("in")) {
        let t = text_of(&v["text"]);
        if dedupe && !seen.insert(t.clone()) {
            continue;
        }
        writeln!(w, "{}", json!({"o": origin, "t": t})).unwrap();
        n += 1;
    }
    w.flush().unwrap();
    eprintln!("tlc2pool: {n} entries");
}
