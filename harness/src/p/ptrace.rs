//! impl -> spec trace of the scanner/parser: for pool texts, every event the real parser
//! delivers together with the projection of the parser + scanner state after it (verif_state
//! hooks), for Trace_Pipeline: TLC steps the implementation-shaped model on the same text and
//! compares event by event, state by state (a difference is model/code drift).
use crate::{out_file, read_pool, Args};
use saphyr_parser::Parser;
use serde_json::{json, Value};
use std::io::Write;
use vh::*;

pub fn run(a: &Args) {
    let pool = read_pool(a.req("pool"));
    let mut w = out_file(a.req("out"));
    let limit = a.num("limit", 2000);
    let maxlen = a.num("maxlen", 80);
    let mut rng = Rng::new(seed_from_env() ^ 0x7ace);
    let (mut n, mut events) = (0usize, 0usize);
    let mut samples = vec![];
    // random selection without replacement over the pool (texts of bounded length, no NUL-free restriction)
    let mut idx: Vec<usize> = (0..pool.len()).filter(|&i| pool[i].1.chars().count() <= maxlen && !pool[i].0.starts_with("exh:")).collect();
    while n < limit && !idx.is_empty() {
        let k = rng.below(idx.len());
        let i = idx.swap_remove(k);
        let t = &pool[i].1;
        note_input(t);
        let r = std::panic::catch_unwind(|| {
            let mut recs: Vec<Value> = vec![];
            let mut p = Parser::new_from_str(t);
            let mut guard = 0;
            loop {
                guard += 1;
                if guard > 4000 {
                    break;
                }
                match p.next_event() {
                    None => {
                        recs.push(json!({"k": "END", "err": []}));
                        break;
                    }
                    Some(Ok((ev, sp))) => {
                        let e = Ev::from(&ev, &sp);
                        let st: Value = serde_json::from_str(&p.verif_state()).unwrap();
                        recs.push(json!({"k": "EV", "ev": e.json(), "st": st}));
                    }
                    Some(Err(e)) => {
                        recs.push(json!({"k": "END", "err": [{"msg": e.info(), "at": m3(e.marker())}]}));
                        break;
                    }
                }
            }
            recs
        });
        if let Ok(recs) = r {
            n += 1;
            events += recs.len();
            writeln!(w, "{}", json!({"k": "TEXT", "t": chars(t), "o": pool[i].0})).unwrap();
            for x in &recs {
                writeln!(w, "{x}").unwrap();
            }
            if samples.len() < 3 && recs.len() > 8 {
                samples.push(json!({"text": t, "events": recs.len()}));
            }
        }
    }
    w.flush().unwrap();
    println!("{}", json!({"texts": n, "records": events + n, "samples": samples}));
}
