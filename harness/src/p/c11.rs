//! C11: nesting scenarios, each in its own child process (a stack overflow aborts the process;
//! the exit status is the observable). The child records the recursion depth of the push
//! interface through the `load` hook so that Trace_Nest can relate it to the model.
use crate::{out_file, Args};
use saphyr::{LoadableYamlNode, Yaml, YamlEmitter};
use saphyr_parser::Parser;
use serde_json::{json, Value};
use std::io::Write;
use vh::*;

pub fn shape_text(shape: &str, n: usize) -> String {
    match shape {
        "seq" => "- ".repeat(n) + "a\n",
        "map" => {
            let mut s = String::new();
            for i in 0..n {
                s.push_str(&" ".repeat(i));
                s.push_str("k:\n");
            }
            s.push_str(&" ".repeat(n));
            s.push_str("v\n");
            s
        }
        "qkey" => "? ".repeat(n) + "a\n",
        "flowseq" => "[".repeat(n) + &"]".repeat(n),
        "flowmap" => "{a: ".repeat(n) + "b" + &"}".repeat(n),
        "alt" => (0..n).map(|i| if i % 2 == 0 { "- " } else { "? " }).collect::<String>() + "a\n",
        "mixflow" => (0..n).map(|i| if i % 2 == 0 { "[" } else { "{a: " }).collect::<String>() + "x" + &(0..n).rev().map(|i| if i % 2 == 0 { "]" } else { "}" }).collect::<String>(),
        "seqmap" => "- k: ".repeat(n) + "a\n",
        // a block scalar as the innermost node (its indentation grows with the depth), with and without a final line break
        "seqblock" => "- ".repeat(n) + "|\n" + &" ".repeat(2 * n) + "a\n" + &" ".repeat(2 * n) + "b\n",
        "seqblock-nonl" => "- ".repeat(n) + ">\n" + &" ".repeat(2 * n) + "a\n" + &" ".repeat(2 * n) + "b",
        _ => String::new(),
    }
}
pub const SHAPES: &[&str] = &["seq", "map", "qkey", "flowseq", "flowmap", "alt", "mixflow", "seqmap", "seqblock", "seqblock-nonl"];
pub const APIS: &[&str] = &["iter", "load", "loadstr-drop", "clone-eq-hash", "emit"];

/// Run one scenario in this process; prints one JSON line when it survives.
pub fn child(a: &Args) {
    let shape = a.req("shape");
    let n = a.num("depth", 1);
    let api = a.req("api");
    let text = shape_text(shape, n);
    let mut maxdepth = 0usize;
    let outcome = match api {
        "iter" => {
            let mut evs = 0usize;
            let mut err = None;
            for e in Parser::new_from_str(&text) {
                match e {
                    Ok(_) => evs += 1,
                    Err(e) => {
                        err = Some(e.info().to_string());
                        break;
                    }
                }
            }
            json!({"events": evs, "err": err})
        }
        "load" => {
            saphyr_parser::verif::start();
            let mut c = Collect { evs: vec![] };
            let r = Parser::new_from_str(&text).load(&mut c, true);
            let lines = saphyr_parser::verif::take();
            // recursion depth of load_node at each entry = number of load hooks minus returns is not
            // recorded; the hook logs states.len(), which grows with the open collections
            for l in &lines {
                if let Ok(v) = serde_json::from_str::<Value>(l) {
                    maxdepth = maxdepth.max(v["states"].as_u64().unwrap_or(0) as usize);
                }
            }
            json!({"events": c.evs.len(), "err": r.err().map(|e| e.info().to_string())})
        }
        "loadstr-drop" => match Yaml::load_from_str(&text) {
            Ok(d) => {
                let n = d.len();
                drop(d);
                json!({"docs": n, "err": null})
            }
            Err(e) => json!({"err": e.info()}),
        },
        "clone-eq-hash" => match Yaml::load_from_str(&text) {
            Ok(d) => {
                use std::hash::{Hash, Hasher};
                let c = d.clone();
                let eq = c == d;
                let mut h = std::collections::hash_map::DefaultHasher::new();
                d.hash(&mut h);
                json!({"eq": eq, "hash": h.finish() % 1000, "err": null})
            }
            Err(e) => json!({"err": e.info()}),
        },
        _ => match Yaml::load_from_str(&text) {
            Ok(d) => {
                let mut out = String::new();
                let r = d.first().map(|x| YamlEmitter::new(&mut out).dump(x).is_ok());
                json!({"emitted": out.len(), "ok": r, "err": null})
            }
            Err(e) => json!({"err": e.info()}),
        },
    };
    println!("{}", json!({"k": "NEST", "shape": shape, "depth": n, "api": api, "len": text.len(), "maxstates": maxdepth, "outcome": outcome}));
}

/// Parent: run every (shape, depth, api) scenario in a child and record how it ended.
pub fn run(a: &Args) {
    let mut w = out_file(a.req("out"));
    let depths: Vec<usize> = a.get("depths").unwrap_or("1,10,100,1000,10000").split(',').filter_map(|x| x.parse().ok()).collect();
    let exe = std::env::current_exe().unwrap();
    let mut n = 0;
    let mut died = 0;
    let mut samples = vec![];
    // (the text of the 'k:' per level shape grows with the square of the depth: 450 MB at 30 000 levels)
    let mut jobs: Vec<(String, usize, String)> = SHAPES.iter().flat_map(|s| depths.iter().flat_map(move |d| APIS.iter().map(move |api| (s.to_string(), *d, api.to_string())))).filter(|j| !(j.0 == "map" && j.1 > 30000) && !(j.0.starts_with("seqblock") && j.1 > 3000)).collect();
    // the block-scalar leaf at every small depth (its indentation passes every buffer size)
    for s in ["seqblock", "seqblock-nonl"] {
        for d in 2..=80usize {
            if !depths.contains(&d) {
                for api in APIS {
                    jobs.push((s.to_string(), d, api.to_string()));
                }
            }
        }
    }
    let results: Vec<Value> = std::thread::scope(|sc| {
        let chunks: Vec<_> = jobs.chunks((jobs.len() + 7) / 8).collect();
        let hs: Vec<_> = chunks.into_iter().map(|ch| {
            let exe = exe.clone();
            sc.spawn(move || {
                ch.iter().map(|(s, d, api)| {
                    // (a scenario that neither succeeds nor fails within 30 seconds is ended: exit status 124)
                    let o = std::process::Command::new("timeout").arg("30").arg(&exe).args(["c11-child", "--shape", s, "--depth", &d.to_string(), "--api", api]).output();
                    match o {
                        Ok(o) => {
                            use std::os::unix::process::ExitStatusExt;
                            let line = String::from_utf8_lossy(&o.stdout).lines().find(|l| l.starts_with('{')).map(|l| l.to_string());
                            let mut rec = line.and_then(|l| serde_json::from_str::<Value>(&l).ok()).unwrap_or_else(|| json!({"k": "NEST", "shape": s, "depth": d, "api": api}));
                            rec["exit"] = json!(o.status.code());
                            rec["signal"] = json!(o.status.signal());
                            rec["died"] = json!(!o.status.success());
                            rec
                        }
                        Err(e) => json!({"k": "NEST", "shape": s, "depth": d, "api": api, "died": true, "spawn_error": e.to_string()}),
                    }
                }).collect::<Vec<_>>()
            })
        }).collect();
        hs.into_iter().flat_map(|h| h.join().unwrap()).collect()
    });
    for r in results {
        n += 1;
        if r["died"] == json!(true) {
            died += 1;
        }
        if samples.len() < 4 && r["depth"].as_u64() == Some(100) {
            samples.push(json!({"shape": r["shape"], "api": r["api"], "depth": r["depth"], "outcome": r["outcome"]}));
        }
        writeln!(w, "{r}").unwrap();
    }
    w.flush().unwrap();
    println!("{}", json!({"scenarios": n, "died": died, "samples": samples}));
}
