//! Uniform access to the four node types (Yaml, YamlOwned, MarkedYaml, MarkedYamlOwned) for the
//! recorders of C19 / C20: construction from the specification's node shape, the resolution
//! calls, the lookup accessors, hashing. Recording only — nothing here decides a property.
use saphyr::{
    LoadableYamlNode, MarkedYaml, MarkedYamlOwned, Scalar, ScalarOwned, ScalarStyle, Tag, Yaml, YamlData, YamlDataOwned, YamlLoader, YamlOwned,
};
use saphyr_parser::{Marker, Parser, ScanError, Span};
use serde_json::{json, Value};
use std::borrow::Cow;
use std::hash::{Hash, Hasher};
use vh::nodes::{scalar_json, scalar_owned_json, NodeTy, Proj};

/// The specification's node shape (spec/YNodeApi.tla): the projection of `vh::nodes::Proj` with
/// one type per field name — Booleans and alias ids as strings, `items` for sequences, `pairs`
/// for mappings. A pure renaming.
pub fn norm(v: &Value) -> Value {
    let t = v["t"].as_str().unwrap_or("");
    let mut o = match t {
        "bool" => json!({"t": "bool", "v": if v["v"].as_bool().unwrap_or(false) { "true" } else { "false" }}),
        "alias" => json!({"t": "alias", "v": v["v"].as_u64().unwrap_or(0).to_string()}),
        "seq" => json!({"t": "seq", "items": v["v"].as_array().map(|a| a.iter().map(norm).collect::<Vec<_>>()).unwrap_or_default()}),
        "map" => json!({"t": "map", "pairs": v["v"].as_array().map(|a| a.iter().map(|p| json!([norm(&p[0]), norm(&p[1])])).collect::<Vec<_>>()).unwrap_or_default()}),
        _ => {
            let mut c = v.clone();
            c.as_object_mut().map(|m| m.remove("span"));
            c
        }
    };
    if let Some(sp) = v.get("span") {
        o.as_object_mut().unwrap().insert("span".into(), sp.clone());
    }
    o
}

/// JSON text in pure ASCII (non-ASCII characters, which occur inside strings only, as \uXXXX
/// escapes): line-oriented readers differ on which characters end a line.
pub fn ascii_json(v: &Value) -> String {
    let s = v.to_string();
    if s.is_ascii() {
        return s;
    }
    let mut o = String::with_capacity(s.len() + 16);
    for c in s.chars() {
        if c.is_ascii() {
            o.push(c);
        } else {
            let mut b = [0u16; 2];
            for u in c.encode_utf16(&mut b) {
                o.push_str(&format!("\\u{:04x}", u));
            }
        }
    }
    o
}

/// Nesting depth of a JSON value (TLC's JSON reader refuses more than 255 levels).
pub fn json_depth(v: &Value) -> usize {
    match v {
        Value::Array(a) => 1 + a.iter().map(json_depth).max().unwrap_or(0),
        Value::Object(m) => 1 + m.values().map(json_depth).max().unwrap_or(0),
        _ => 0,
    }
}

pub fn nproj<N: Proj>(n: &N, spans: bool) -> Value {
    norm(&n.proj(spans))
}

fn style_of(s: &str) -> ScalarStyle {
    match s {
        "single" => ScalarStyle::SingleQuoted,
        "double" => ScalarStyle::DoubleQuoted,
        "literal" => ScalarStyle::Literal,
        "folded" => ScalarStyle::Folded,
        _ => ScalarStyle::Plain,
    }
}
fn tag_of(v: &Value) -> Option<Tag> {
    match v.as_array() {
        Some(a) if a.len() == 2 => Some(Tag { handle: a[0].as_str().unwrap_or("").to_string(), suffix: a[1].as_str().unwrap_or("").to_string() }),
        _ => None,
    }
}
fn span_of(v: &Value) -> Option<Span> {
    let a = v.get("span")?.as_array()?;
    let m = |x: &Value| {
        let t = x.as_array().unwrap();
        Marker::new(t[0].as_u64().unwrap() as usize, t[1].as_u64().unwrap() as usize, t[2].as_u64().unwrap() as usize)
    };
    Some(Span::new(m(&a[0]), m(&a[1])))
}
fn cow<'a>(s: &'a str, own: bool) -> Cow<'a, str> {
    if own {
        Cow::Owned(s.to_string())
    } else {
        Cow::Borrowed(s)
    }
}
fn owned_string(s: &str, _own: bool) -> String {
    s.to_string()
}

pub fn hash64<T: Hash>(x: &T) -> String {
    let mut h = std::collections::hash_map::DefaultHasher::new();
    x.hash(&mut h);
    format!("{:016x}", h.finish())
}

/// What the recorders need from a node type. `'a` is the lifetime of borrowed strings.
pub trait NodeOps<'a>: LoadableYamlNode<'a> + Proj {
    const TY: NodeTy;
    /// Build a node from the specification's shape; `own` = strings as owned (`Cow::Owned`).
    fn build(v: &'a Value, own: bool) -> Self;
    fn str_node(k: &'a str, own: bool) -> Self;
    fn int_node(i: i64) -> Self;
    // --- resolution -----------------------------------------------------------------------
    fn pr(&mut self) -> bool;
    fn prr(&mut self) -> bool;
    /// parse_representation() on every node, bottom-up, through the public accessors only.
    fn nodewise(&mut self);
    /// Replace every span by the default span (no-op on unmarked types).
    fn zero_spans(&mut self);
    const MARKED: bool;
    /// [borrowed scalar, after into_owned, after as_scalar] for every scalar of the tree.
    fn scalar_trips(&self, out: &mut Vec<Value>);
    // --- lookups (may panic: callers use catch_unwind) ---------------------------------------
    fn get(&self, k: &str) -> Option<&Self>;
    fn contains(&self, k: &str) -> bool;
    fn idx(&self, k: &str) -> &Self;
    fn get_mut(&mut self, k: &str) -> Option<&mut Self>;
    fn idx_mut(&mut self, k: &str) -> &mut Self;
    fn node_get(&self, key: &Self) -> Option<&Self>;
    fn node_contains(&self, key: &Self) -> bool;
    fn seq_get(&self, i: usize) -> Option<&Self>;
    fn seq_get_mut(&mut self, i: usize) -> Option<&mut Self>;
    fn idx_usize(&self, i: usize) -> &Self;
    fn idx_usize_mut(&mut self, i: usize) -> &mut Self;
    fn is_map(&self) -> bool;
    fn is_seq(&self) -> bool;
    /// The first `cap` mapping nodes of the tree in pre-order (any depth, keys included), cloned.
    fn collect_maps(&self, out: &mut Vec<Self>, cap: usize);
    fn collect_seqs(&self, out: &mut Vec<Self>, cap: usize);
}

macro_rules! impl_node_ops {
    ($N:ty, $DT:ty, $D:ident, $S:ident, [$($acc:tt)*], $mkstr:ident, $ty:expr, $marked:expr,
     scalar = |$sv:ident| $to_scalar:expr, setspan = |$n:ident, $sp:ident| $setspan:expr) => {
        impl<'a> NodeOps<'a> for $N {
            const TY: NodeTy = $ty;
            const MARKED: bool = $marked;
            fn build(v: &'a Value, own: bool) -> Self {
                let t = v["t"].as_str().unwrap_or("");
                let d: $DT = match t {
                    "null" => $D::Value($S::Null),
                    "bool" => $D::Value($S::Boolean(v["v"].as_str() == Some("true"))),
                    "int" => $D::Value($S::Integer(v["v"].as_str().unwrap().parse().unwrap())),
                    "float" => $D::Value($S::FloatingPoint(f64::from_bits(u64::from_str_radix(v["bits"].as_str().unwrap(), 16).unwrap()).into())),
                    "str" => $D::Value($S::String($mkstr(v["v"].as_str().unwrap(), own))),
                    "repr" => $D::Representation($mkstr(v["v"].as_str().unwrap(), own), style_of(v["style"].as_str().unwrap_or("plain")), tag_of(&v["tag"])),
                    "alias" => $D::Alias(v["v"].as_str().unwrap().parse().unwrap()),
                    "seq" => $D::Sequence(v["items"].as_array().unwrap().iter().map(|x| <$N>::build(x, own)).collect()),
                    "map" => {
                        let mut d: $DT = $D::Mapping(Default::default());
                        let m = d.as_mapping_mut().unwrap();
                        for p in v["pairs"].as_array().unwrap() {
                            m.insert(<$N>::build(&p[0], own), <$N>::build(&p[1], own));
                        }
                        d
                    }
                    _ => $D::BadValue,
                };
                #[allow(unused_mut)]
                let mut $n = <$N>::from(d);
                if let Some($sp) = span_of(v) {
                    $setspan;
                }
                $n
            }
            fn str_node(k: &'a str, own: bool) -> Self {
                let d: $DT = $D::Value($S::String($mkstr(k, own)));
                <$N>::from(d)
            }
            fn int_node(i: i64) -> Self {
                let d: $DT = $D::Value($S::Integer(i));
                <$N>::from(d)
            }
            fn pr(&mut self) -> bool {
                self$($acc)*.parse_representation()
            }
            fn prr(&mut self) -> bool {
                self$($acc)*.parse_representation_recursive()
            }
            fn nodewise(&mut self) {
                if let Some(seq) = self$($acc)*.as_sequence_mut() {
                    for c in seq.iter_mut() {
                        c.nodewise();
                    }
                } else if let Some(m) = self$($acc)*.as_mapping_mut() {
                    let old = std::mem::take(m);
                    for (mut k, mut v) in old {
                        k.nodewise();
                        v.nodewise();
                        m.insert(k, v);
                    }
                }
                let _ = self$($acc)*.parse_representation();
            }
            fn zero_spans(&mut self) {
                if !$marked {
                    return;
                }
                if let Some(seq) = self$($acc)*.as_sequence_mut() {
                    for c in seq.iter_mut() {
                        c.zero_spans();
                    }
                } else if let Some(m) = self$($acc)*.as_mapping_mut() {
                    let old = std::mem::take(m);
                    for (mut k, mut v) in old {
                        k.zero_spans();
                        v.zero_spans();
                        m.insert(k, v);
                    }
                }
                let $n = self;
                let $sp = Span::default();
                $setspan;
            }
            fn scalar_trips(&self, out: &mut Vec<Value>) {
                match &self$($acc)* {
                    $D::Value($sv) => {
                        let b: Scalar<'_> = $to_scalar;
                        let o: ScalarOwned = b.clone().into_owned();
                        let back: Scalar<'_> = o.as_scalar();
                        out.push(json!([scalar_json(&b), scalar_owned_json(&o), scalar_json(&back)]));
                    }
                    $D::Sequence(v) => v.iter().for_each(|c| c.scalar_trips(out)),
                    $D::Mapping(m) => m.iter().for_each(|(k, v)| {
                        k.scalar_trips(out);
                        v.scalar_trips(out);
                    }),
                    _ => {}
                }
            }
            fn get(&self, k: &str) -> Option<&Self> {
                self$($acc)*.as_mapping_get(k)
            }
            fn contains(&self, k: &str) -> bool {
                self$($acc)*.contains_mapping_key(k)
            }
            fn idx(&self, k: &str) -> &Self {
                &self$($acc)*[k]
            }
            fn get_mut(&mut self, k: &str) -> Option<&mut Self> {
                self$($acc)*.as_mapping_get_mut(k)
            }
            fn idx_mut(&mut self, k: &str) -> &mut Self {
                &mut self$($acc)*[k]
            }
            fn node_get(&self, key: &Self) -> Option<&Self> {
                self$($acc)*.as_mapping().and_then(|m| m.get(key))
            }
            fn node_contains(&self, key: &Self) -> bool {
                self$($acc)*.as_mapping().map_or(false, |m| m.contains_key(key))
            }
            fn seq_get(&self, i: usize) -> Option<&Self> {
                self$($acc)*.as_sequence_get(i)
            }
            fn seq_get_mut(&mut self, i: usize) -> Option<&mut Self> {
                self$($acc)*.as_sequence_get_mut(i)
            }
            fn idx_usize(&self, i: usize) -> &Self {
                &self$($acc)*[i]
            }
            fn idx_usize_mut(&mut self, i: usize) -> &mut Self {
                &mut self$($acc)*[i]
            }
            fn is_map(&self) -> bool {
                self$($acc)*.is_mapping()
            }
            fn is_seq(&self) -> bool {
                self$($acc)*.is_sequence()
            }
            fn collect_maps(&self, out: &mut Vec<Self>, cap: usize) {
                if out.len() >= cap {
                    return;
                }
                match &self$($acc)* {
                    $D::Sequence(v) => v.iter().for_each(|c| c.collect_maps(out, cap)),
                    $D::Mapping(m) => {
                        out.push(self.clone());
                        m.iter().for_each(|(k, v)| {
                            k.collect_maps(out, cap);
                            v.collect_maps(out, cap);
                        })
                    }
                    _ => {}
                }
            }
            fn collect_seqs(&self, out: &mut Vec<Self>, cap: usize) {
                if out.len() >= cap {
                    return;
                }
                match &self$($acc)* {
                    $D::Sequence(v) => {
                        out.push(self.clone());
                        v.iter().for_each(|c| c.collect_seqs(out, cap))
                    }
                    $D::Mapping(m) => m.iter().for_each(|(k, v)| {
                        k.collect_seqs(out, cap);
                        v.collect_seqs(out, cap);
                    }),
                    _ => {}
                }
            }
        }
    };
}

impl_node_ops!(Yaml<'a>, Yaml<'a>, Yaml, Scalar, [], cow, NodeTy::Yaml, false,
    scalar = |s| s.clone(), setspan = |n, sp| { let _ = (&n, sp); });
impl_node_ops!(YamlOwned, YamlOwned, YamlOwned, ScalarOwned, [], owned_string, NodeTy::Owned, false,
    scalar = |s| s.as_scalar(), setspan = |n, sp| { let _ = (&n, sp); });
impl_node_ops!(MarkedYaml<'a>, YamlData<'a, MarkedYaml<'a>>, YamlData, Scalar, [.data], cow, NodeTy::Marked, true,
    scalar = |s| s.clone(), setspan = |n, sp| { n.span = sp; });
impl_node_ops!(MarkedYamlOwned, YamlDataOwned<MarkedYamlOwned>, YamlDataOwned, ScalarOwned, [.data], owned_string, NodeTy::MarkedOwned, true,
    scalar = |s| s.as_scalar(), setspan = |n, sp| { n.span = sp; });

/// Load with deferred scalar resolution (`early_parse(false)`).
pub fn load_lazy_docs<'a, N: NodeOps<'a>>(text: &'a str) -> Result<Vec<N>, ScanError> {
    let mut loader: YamlLoader<'a, N> = YamlLoader::default();
    loader.early_parse(false);
    let mut p = Parser::new_from_str(text);
    p.load(&mut loader, true)?;
    Ok(loader.into_documents())
}

/// The eager resolver entry point the loader calls for every scalar event, on one representation
/// (specification shape in, specification shape out).
pub fn eager_resolve(r: &Value) -> Value {
    let y = Yaml::value_from_cow_and_metadata(Cow::Borrowed(r["v"].as_str().unwrap_or("")), style_of(r["style"].as_str().unwrap_or("plain")), tag_of(&r["tag"]).as_ref());
    norm(&y.proj(false))
}
