//! C03/C04/C05/C06/C13 replay: texts rendered by the specification (with the events they denote,
//! or the verdict "must be rejected") are parsed by the real parser through both back-ends and
//! compared with the expectation carried in the REPLAY record.
use crate::cmds::model_ev;
use crate::{out_file, read_replays, Args};
use serde_json::{json, Value};
use std::io::Write;
use vh::*;

/// the leaves of a projected node in the order of the events that created them (keys before values)
fn leaves<'a>(n: &'a Value, out: &mut Vec<&'a Value>) {
    match n["t"].as_str() {
        Some("seq") => n["v"].as_array().into_iter().flatten().for_each(|x| leaves(x, out)),
        Some("map") => n["v"].as_array().into_iter().flatten().for_each(|p| {
            leaves(&p[0], out);
            leaves(&p[1], out);
        }),
        _ => out.push(n),
    }
}

/// The loaded form of a well-formed text whose events are as denoted: every untagged scalar that is not plain must be
/// loaded as a string with the denoted value (the text is only judged when loaded leaves and scalar events line up one to
/// one: no alias, no repeated key).
fn loaded_nonplain(text: &str, exp: &[Ev]) -> String {
    use vh::nodes::*;
    if exp.iter().any(|e| e.k == "Alias") {
        return String::new();
    }
    let scalars: Vec<&Ev> = exp.iter().filter(|e| e.k == "Scalar").collect();
    if !scalars.iter().any(|e| e.style != "plain" && e.tag.is_none()) {
        return String::new();
    }
    for ty in [NodeTy::Yaml, NodeTy::MarkedOwned] {
        let l = load_str(text, ty, false);
        if let Some(p) = &l.panic {
            return format!("loading panicked: {p}");
        }
        let docs = match &l.docs {
            Some(d) => d,
            None => return format!("the parser accepts the text, {}::load_from_str rejects it", ty.name()),
        };
        let mut lv = vec![];
        docs.iter().for_each(|d| leaves(d, &mut lv));
        if lv.len() != scalars.len() {
            continue;
        }
        for (e, n) in scalars.iter().zip(lv.iter()) {
            if e.style != "plain" && e.tag.is_none() && **n != json!({"t": "str", "v": e.v}) {
                return format!("{} scalar {:?} is loaded by {} as {}", e.style, e.v, ty.name(), n);
            }
        }
    }
    String::new()
}

fn core(e: &Ev) -> (String, String, String, usize, Option<(String, String)>) {
    (e.k.to_string(), e.v.clone(), e.style.to_string(), e.aid, e.tag.clone())
}

pub fn run(a: &Args) {
    let reps = read_replays(a.req("in"));
    let mut bad_out = a.get("out").map(out_file);
    let mut pool = a.get("pool").map(out_file);
    let (mut n, mut runs, mut bad, mut model_disagrees) = (0usize, 0usize, 0usize, 0usize);
    let mut distinct = std::collections::HashSet::new();
    let mut samples: Vec<Value> = vec![];
    let mut bads: Vec<Value> = vec![];
    let mut maxlen = 0usize;
    let load = a.get("load").is_some();
    let chop = a.get("chop").is_some();
    let breaks = a.get("breaks").is_some();
    let keeptags = a.get("keeptags").is_some();
    let mut vname = "";
    let mut nreps = 0usize;
    for v in reps {
        nreps += 1;
        let v = &v;
        let text = text_of(&v["text"]);
        n += 1;
        if !distinct.insert(text.clone()) {
            continue;
        }
        maxlen = maxlen.max(text.len());
        if let Some(w) = pool.as_mut() {
            writeln!(w, "{}", json!({"o": a.get("origin").unwrap_or("rendered"), "t": text})).unwrap();
        }
        let reject = v["reject"] == json!(true);
        let exp: Vec<Ev> = v["evs"].as_array().map(|x| x.iter().map(|e| {
            let mut e = e.clone();
            e["a"] = json!([0, 0, 0]);
            e["b"] = json!([0, 0, 0]);
            model_ev(&e)
        }).collect()).unwrap_or_default();
        // layout variant: the same stream without its final line break denotes the same events, unless the break belongs
        // to a block scalar (chomping) -- used when the last scalar is not a block scalar
        let chopped = if chop && !reject && text.ends_with('\n') && !text.ends_with("\n\n")
            && exp.iter().rev().find(|e| e.k == "Scalar").map_or(true, |e| e.style != "literal" && e.style != "folded") {
            Some(text[..text.len() - 1].to_string())
        } else {
            None
        };
        // layout variants: the same stream with CR LF / lone CR line breaks denotes the same events (line breaks inside
        // scalars are normalised to LF)
        let brk = breaks && !text.contains('\r') && text.contains('\n');
        for (be, variant) in [(Backend::Str, 0), (Backend::Buf, 0), (Backend::Str, 1), (Backend::Buf, 1), (Backend::Str, 2), (Backend::Buf, 2), (Backend::Str, 3), (Backend::Buf, 3)] {
            if (variant == 1 && chopped.is_none()) || (variant >= 2 && !brk) {
                continue;
            }
            let text = match variant {
                1 => chopped.clone().unwrap(),
                2 => text.replace('\n', "\r\n"),
                3 => text.replace('\n', "\r"),
                _ => text.clone(),
            };
            let variant = variant > 0 && { vname = ["", "final line break removed", "CR LF line breaks", "CR line breaks"][variant]; true };
            let r = if be == Backend::Str { run_str(&text) } else { run_buf(&text) };
            runs += 1;
            let why = if let Some(p) = &r.panic {
                format!("panic: {p}")
            } else if reject {
                if r.err.is_none() { "ill-formed stream accepted (complete event stream, no error)".to_string() } else { String::new() }
            } else if let Some(e) = &r.err {
                format!("well-formed stream rejected: {} at {:?}", e.msg, e.at)
            } else if r.evs.len() != exp.len() {
                format!("{} events, {} denoted", r.evs.len(), exp.len())
            } else {
                let mut w = String::new();
                for (i, (x, y)) in r.evs.iter().zip(exp.iter()).enumerate() {
                    if core(x) != core(y) {
                        w = format!("event {}: got {:?}, denoted {:?}", i + 1, core(x), core(y));
                        break;
                    }
                }
                if w.is_empty() && load && be == Backend::Str {
                    w = loaded_nonplain(&text, &exp);
                }
                w
            };
            // drift = the implementation-shaped model and the real code disagree about this text
            // (model agrees with the reference expectation, the code does not, or vice versa)
            if be == Backend::Str && !variant && v["model"].is_boolean() && (v["model"] == json!(true)) != why.is_empty() {
                model_disagrees += 1;
            }
            if !why.is_empty() {
                bad += 1;
                let b = json!({"t": text, "be": be.name(), "variant": if variant { vname } else { "" }, "why": why, "tape": v["tape"], "info": v["info"], "model_agrees_with_renderer": v["model"],
                    "real": r.evs.iter().map(|e| json!([e.k, e.v, e.style, e.aid])).collect::<Vec<_>>(), "err": r.err.as_ref().map(|e| e.msg.clone())});
                if let Some(w) = bad_out.as_mut() {
                    writeln!(w, "{b}").unwrap();
                }
                if bads.len() < 8 {
                    bads.push(b);
                }
            }
        }
        // an ill-formed stream is ill-formed under every parser option: keep_tags on, pull and push
        // (except where the ill-formedness is a handle whose declaration ended with its document: that is what the option changes)
        if reject && keeptags && !v["info"][0].as_str().unwrap_or("").starts_with("handle-of-previous-document") {
            for (be, api) in [(Backend::Str, Api::Iter), (Backend::Buf, Api::PushMulti)] {
                let r = run_parser_opts(&text, be, api, true);
                runs += 1;
                let why = if let Some(p) = &r.panic { format!("panic: {p}") } else if r.err.is_none() { "ill-formed stream accepted with keep_tags(true) (complete event stream, no error)".to_string() } else { String::new() };
                if !why.is_empty() {
                    bad += 1;
                    let b = json!({"t": text, "be": format!("{}/{}/keep_tags", be.name(), api.name()), "variant": "", "why": why, "tape": v["tape"], "info": v["info"], "model_agrees_with_renderer": v["model"],
                        "real": r.evs.iter().map(|e| json!([e.k, e.v, e.style, e.aid])).collect::<Vec<_>>(), "err": Value::Null});
                    if let Some(w) = bad_out.as_mut() {
                        writeln!(w, "{b}").unwrap();
                    }
                    if bads.len() < 8 {
                        bads.push(b);
                    }
                }
            }
        }
        if samples.len() < 4 && text.len() > 40 && n % 211 == 3 {
            samples.push(json!({"text": text, "events": exp.len(), "reject": reject}));
        }
    }
    println!("{}", json!({"behaviours": n, "distinct": distinct.len(), "runs": runs, "bad": bad, "model_disagrees": model_disagrees, "longest": maxlen, "bad_samples": bads, "samples": samples}));
}

// ---------------------------------------------------------------------------------------------
// corpus: the non-error cases of the yaml-test-suite with the suite's own event trees, and their
// layout-preserving variants (LF->CRLF, LF->CR, appended "..." line, appended comment line)
// ---------------------------------------------------------------------------------------------
fn esc(text: &str) -> String {
    let mut t = text.to_owned();
    for (ch, rep) in [('\\', r"\\"), ('\n', "\\n"), ('\r', "\\r"), ('\x08', "\\b"), ('\t', "\\t")] {
        t = t.replace(ch, rep);
    }
    t
}
fn real_lines(r: &Run) -> Vec<String> {
    let idx = |a: usize| if a > 0 { format!(" &{a}") } else { String::new() };
    let tg = |t: &Option<(String, String)>| t.as_ref().map(|(h, s)| format!(" <{h}{s}>")).unwrap_or_default();
    r.evs.iter().map(|e| match e.k {
        "StreamStart" => "+STR".to_string(),
        "StreamEnd" => "-STR".to_string(),
        "DocumentStart" => "+DOC".to_string(),
        "DocumentEnd" => "-DOC".to_string(),
        "SequenceStart" => format!("+SEQ{}{}", idx(e.aid), tg(&e.tag)),
        "SequenceEnd" => "-SEQ".to_string(),
        "MappingStart" => format!("+MAP{}{}", idx(e.aid), tg(&e.tag)),
        "MappingEnd" => "-MAP".to_string(),
        "Alias" => format!("=ALI *{}", e.aid),
        "Scalar" => format!("=VAL{}{} {}{}", idx(e.aid), tg(&e.tag), match e.style { "plain" => ":", "single" => "'", "double" => "\"", "literal" => "|", _ => ">" }, esc(&e.v)),
        _ => "?".to_string(),
    }).collect()
}
fn expected_lines(tree: &str) -> Vec<String> {
    let mut anchors: Vec<String> = vec![];
    tree.split('\n').map(|s| s.trim_start().to_owned()).filter(|s| !s.is_empty()).map(|mut s| {
        if let Some(start) = s.find('&') {
            if s[..start].find(':').is_none() {
                let len = s[start..].find(' ').unwrap_or(s[start..].len());
                anchors.push(s[start + 1..start + len].to_owned());
                s = s.replace(&s[start..start + len].to_owned(), &format!("&{}", anchors.len()));
            }
        }
        if s.starts_with("=ALI") {
            let start = s.find('*').unwrap();
            let name = s[start + 1..].to_owned();
            let idx = anchors.iter().enumerate().filter(|(_, v)| **v == name).next_back().map(|x| x.0).unwrap_or(usize::MAX - 1);
            s = s.replace(&s[start..].to_owned(), &format!("*{}", idx + 1));
        }
        match &*s {
            "+DOC ---" => "+DOC".into(),
            "-DOC ..." => "-DOC".into(),
            x if x.starts_with("+SEQ []") => x.replacen("+SEQ []", "+SEQ", 1),
            x if x.starts_with("+MAP {}") => x.replacen("+MAP {}", "+MAP", 1),
            "=VAL :" => "=VAL :~".into(),
            x => x.into(),
        }
    }).collect()
}

pub fn suite(a: &Args) {
    let suite = gen::load_suite(a.req("suite"));
    let mut out = a.get("out").map(out_file);
    let (mut cases, mut runs, mut bad) = (0usize, 0usize, 0usize);
    let mut bads = vec![];
    for c in suite.iter().filter(|c| !c.fail) {
        cases += 1;
        let exp = expected_lines(&c.tree);
        let mut variants: Vec<(&str, String)> = vec![("as-is", c.yaml.clone())];
        if !c.yaml.contains('\r') && c.yaml.contains('\n') {
            variants.push(("crlf", gen::crlf(&c.yaml)));
            variants.push(("cr", gen::cr(&c.yaml)));
        }
        if c.yaml.ends_with('\n') && !c.yaml.contains('\r') {
            variants.push(("docend", format!("{}...\n", c.yaml)));
            if !c.yaml.contains('|') && !c.yaml.contains('>') {
                variants.push(("comment", format!("{}# trailing comment\n", c.yaml)));
            }
        }
        for (vn, text) in variants {
            for be in 0..2 {
                let r = if be == 0 { run_str(&text) } else { run_buf(&text) };
                runs += 1;
                let why = if let Some(p) = &r.panic {
                    format!("panic: {p}")
                } else if let Some(e) = &r.err {
                    format!("rejected: {}", e.msg)
                } else {
                    let got = real_lines(&r);
                    if got == exp { String::new() } else {
                        let i = got.iter().zip(exp.iter()).position(|(x, y)| x != y).unwrap_or(got.len().min(exp.len()));
                        format!("event line {}: got {:?}, suite says {:?}", i, got.get(i), exp.get(i))
                    }
                };
                if !why.is_empty() {
                    bad += 1;
                    let b = json!({"id": c.id, "variant": vn, "be": if be == 0 { "str" } else { "buf" }, "t": text, "why": why});
                    if let Some(w) = out.as_mut() {
                        writeln!(w, "{b}").unwrap();
                    }
                    if bads.len() < 8 {
                        bads.push(b);
                    }
                }
            }
        }
    }
    println!("{}", json!({"cases": cases, "runs": runs, "bad": bad, "bad_samples": bads}));
}

/// The error cases of the yaml-test-suite must end in an error (C06).
pub fn suite_errors(a: &Args) {
    let suite = gen::load_suite(a.req("suite"));
    let mut out = a.get("out").map(out_file);
    let (mut cases, mut runs, mut bad) = (0usize, 0usize, 0usize);
    for c in suite.iter().filter(|c| c.fail) {
        cases += 1;
        for be in 0..2 {
            let r = if be == 0 { run_str(&c.yaml) } else { run_buf(&c.yaml) };
            runs += 1;
            if r.err.is_none() && r.panic.is_none() {
                bad += 1;
                if let Some(w) = out.as_mut() {
                    writeln!(w, "{}", json!({"id": c.id, "be": if be == 0 { "str" } else { "buf" }, "t": c.yaml})).unwrap();
                }
            }
        }
    }
    println!("{}", json!({"cases": cases, "runs": runs, "bad": bad}));
}
