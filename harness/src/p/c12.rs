//! C12: record text, events with spans, errors (position + the numbers in the printed form) and the
//! spans of marked nodes in pre-order, for Trace_Pos.
use crate::{out_file, read_pool, Args};
use saphyr::{LoadableYamlNode, MarkedYaml, MarkedYamlOwned, YamlData, YamlDataOwned, YamlLoader};
use saphyr_parser::Parser;
use serde_json::{json, Value};
use std::io::Write;
use vh::*;

fn pre_m(n: &MarkedYaml, out: &mut Vec<Value>) {
    out.push(json!([m3(&n.span.start), m3(&n.span.end)]));
    match &n.data {
        YamlData::Sequence(v) => v.iter().for_each(|x| pre_m(x, out)),
        YamlData::Mapping(m) => m.iter().for_each(|(k, v)| {
            pre_m(k, out);
            pre_m(v, out)
        }),
        _ => {}
    }
}
fn pre_mo(n: &MarkedYamlOwned, out: &mut Vec<Value>) {
    out.push(json!([m3(&n.span.start), m3(&n.span.end)]));
    match &n.data {
        YamlDataOwned::Sequence(v) => v.iter().for_each(|x| pre_mo(x, out)),
        YamlDataOwned::Mapping(m) => m.iter().for_each(|(k, v)| {
            pre_mo(k, out);
            pre_mo(v, out)
        }),
        _ => {}
    }
}

fn rec(t: &str, r: &Run, be: &str, marked: Vec<Value>) -> Value {
    json!({"k": "POS", "t": chars(t), "be": be,
        "evs": r.evs.iter().map(|e| json!({"k": e.k, "a": e.a, "b": e.b, "v": chars(&e.v), "style": e.style, "aid": e.aid})).collect::<Vec<_>>(),
        "err": r.err.iter().map(|e| json!({"at": e.at, "words": e.display.split(|c: char| !c.is_ascii_digit()).filter(|w| !w.is_empty()).collect::<Vec<_>>()})).collect::<Vec<_>>(),
        "marked": marked})
}

pub fn run(a: &Args) {
    let pool = read_pool(a.req("pool"));
    let mut w = out_file(a.req("out"));
    let maxlen = a.num("maxlen", 160);
    let limit = a.num("limit", usize::MAX);
    let (mut n, mut nrec, mut nmarked, mut chars_total) = (0usize, 0usize, 0usize, 0usize);
    let mut seen = std::collections::HashSet::new();
    let mut samples: Vec<Value> = vec![];
    for (_o, t) in &pool {
        if t.chars().count() > maxlen || !seen.insert(t.clone()) || n >= limit {
            continue;
        }
        n += 1;
        chars_total += t.chars().count();
        let rs = run_str(t);
        let rb = run_buf(t);
        if rs.panic.is_some() || rb.panic.is_some() {
            continue;
        }
        // marked loads (only when every node event created exactly one node: no alias, no duplicate key)
        let mut marked: Vec<Value> = vec![];
        if rs.err.is_none() && rs.evs.len() < 400 {
            let lm = std::panic::catch_unwind(|| MarkedYaml::load_from_str(t));
            let lo = std::panic::catch_unwind(|| MarkedYamlOwned::load_from_str(t));
            if let (Ok(Ok(dm)), Ok(Ok(dmo))) = (lm, lo) {
                let (mut a1, mut a2) = (vec![], vec![]);
                dm.iter().for_each(|d| pre_m(d, &mut a1));
                dmo.iter().for_each(|d| pre_mo(d, &mut a2));
                {
                    marked.push(json!(a1));
                    nmarked += 1;
                    if a2 != *marked[0].as_array().unwrap() {
                        writeln!(w, "{}", rec(t, &rs, "str+MarkedYamlOwned", vec![json!(a2)])).unwrap();
                        nrec += 1;
                    }
                }
                // the same through a hand-built loader with deferred scalar resolution, before and after resolving
                let lazy = std::panic::catch_unwind(|| {
                    let mut out: Vec<(&'static str, Vec<Value>)> = vec![];
                    let mut l: YamlLoader<MarkedYaml> = YamlLoader::default();
                    l.early_parse(false);
                    if Parser::new_from_str(t).load(&mut l, true).is_ok() {
                        let mut docs = l.into_documents();
                        let mut v = vec![];
                        docs.iter().for_each(|d| pre_m(d, &mut v));
                        out.push(("str+MarkedYaml/deferred", v));
                        docs.iter_mut().for_each(|d| {
                            let _ = d.data.parse_representation_recursive();
                        });
                        let mut v = vec![];
                        docs.iter().for_each(|d| pre_m(d, &mut v));
                        out.push(("str+MarkedYaml/deferred+resolved", v));
                    }
                    let mut l: YamlLoader<MarkedYamlOwned> = YamlLoader::default();
                    l.early_parse(false);
                    if Parser::new_from_str(t).load(&mut l, true).is_ok() {
                        let docs = l.into_documents();
                        let mut v = vec![];
                        docs.iter().for_each(|d| pre_mo(d, &mut v));
                        out.push(("str+MarkedYamlOwned/deferred", v));
                    }
                    out
                });
                if let Ok(out) = lazy {
                    for (name, v) in out {
                        if v != *marked[0].as_array().unwrap() {
                            writeln!(w, "{}", rec(t, &rs, name, vec![json!(v)])).unwrap();
                            nrec += 1;
                        }
                    }
                }
            }
        }
        // the error as a caller of the decoding loader sees and prints it (LoadError wraps the ScanError)
        if rs.err.is_some() && !t.starts_with('\u{feff}') && !t.chars().take(2).any(|c| c == '\0') {
            if let Ok(Err(le)) = std::panic::catch_unwind(|| saphyr::YamlDecoder::read(t.as_bytes()).decode().map(|_| ())) {
                // (a decoding error has no position; only wrapped scanner errors are judged)
                let at = std::error::Error::source(&le).and_then(|s| s.downcast_ref::<saphyr_parser::ScanError>()).map(|e| m3(e.marker())).unwrap_or(rs.err.as_ref().unwrap().at.clone());
                let shown = format!("{le}");
                let words: Vec<&str> = shown.split(|c: char| !c.is_ascii_digit()).filter(|w| !w.is_empty()).collect();
                writeln!(w, "{}", json!({"k": "POS", "t": chars(t), "be": "decoder/LoadError", "evs": [], "err": [{"at": at, "words": words}], "marked": []})).unwrap();
                nrec += 1;
            }
        }
        if rs.same_observable(&rb) {
            writeln!(w, "{}", rec(t, &rs, "both", marked)).unwrap();
            nrec += 1;
        } else {
            writeln!(w, "{}", rec(t, &rs, "str", marked)).unwrap();
            writeln!(w, "{}", rec(t, &rb, "buf", vec![])).unwrap();
            nrec += 2;
        }
        if samples.len() < 4 && rs.evs.len() > 8 && n % 1013 == 5 {
            samples.push(json!({"text": t, "spans": rs.evs.iter().map(|e| json!([e.k, e.a, e.b])).collect::<Vec<_>>()}));
        }
    }
    w.flush().unwrap();
    println!("{}", json!({"texts": n, "records": nrec, "marked": nmarked, "chars": chars_total, "samples": samples}));
}
