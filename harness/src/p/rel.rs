//! C10, C14, C15: relational properties. Runs are recorded in full; pairs that are byte-identical
//! (C10) / identical after dropping character indices (C14) are counted and only a sample of them
//! is handed to TLC, every differing pair is handed to TLC (Trace_Rel / YRel decide).
use crate::{out_file, read_pool, Args};
use serde_json::{json, Value};
use std::io::Write;
use vh::*;

pub fn run_json(r: &Run) -> Value {
    json!({"evs": r.evs.iter().map(|e| e.json_s()).collect::<Vec<_>>(),
           "err": r.err.iter().map(|e| json!({"msg": e.msg, "at": e.at})).collect::<Vec<_>>()})
}

pub fn c10(a: &Args) {
    let pool = read_pool(a.req("pool"));
    let mut w = out_file(a.req("out"));
    let mut rng = Rng::new(seed_from_env() ^ 0xc10);
    let sample = a.num("sample", 100);
    let (mut n, mut same, mut diff, mut nrec) = (0usize, 0usize, 0usize, 0usize);
    let mut seen = std::collections::HashSet::new();
    let mut samples = vec![];
    for (_o, t) in &pool {
        if !seen.insert(t.clone()) {
            continue;
        }
        n += 1;
        let base = run_parser(t, Backend::Str, Api::Iter);
        for be in &ALL_BACKENDS[1..] {
            let r = run_parser(t, *be, Api::Iter);
            if r.panic.is_some() || base.panic.is_some() {
                // a panic of one back-end only is a difference in observable behaviour
                if r.panic.is_some() != base.panic.is_some() {
                    diff += 1;
                    writeln!(w, "{}", json!({"k": "SAMERUN", "t": t, "be": be.name(), "x": run_json(&base), "y": {"evs": [], "err": [{"msg": format!("PANIC {}", r.panic.clone().or(base.panic.clone()).unwrap()), "at": [0, 0, 0]}]}})).unwrap();
                    nrec += 1;
                }
                continue;
            }
            if r.same_observable(&base) {
                same += 1;
                if rng.below(sample) == 0 {
                    writeln!(w, "{}", json!({"k": "SAMERUN", "t": t, "be": be.name(), "x": run_json(&base), "y": run_json(&r)})).unwrap();
                    nrec += 1;
                }
            } else {
                diff += 1;
                writeln!(w, "{}", json!({"k": "SAMERUN", "t": t, "be": be.name(), "x": run_json(&base), "y": run_json(&r)})).unwrap();
                nrec += 1;
            }
        }
        if samples.len() < 3 && n % 4099 == 11 {
            samples.push(json!({"text": t, "events": base.evs.len(), "err": base.err.as_ref().map(|e| e.msg.clone())}));
        }
    }
    w.flush().unwrap();
    println!("{}", json!({"texts": n, "pairs_same": same, "pairs_diff": diff, "records": nrec, "samples": samples}));
}

fn strip_idx(r: &Run) -> (Vec<(&'static str, String, &'static str, usize, Option<(String, String)>, [usize; 4])>, Option<(String, [usize; 2])>) {
    (
        r.evs.iter().map(|e| (e.k, e.v.clone(), e.style, e.aid, e.tag.clone(), [e.a[1], e.a[2], e.b[1], e.b[2]])).collect(),
        r.err.as_ref().map(|e| (e.msg.clone(), [e.at[1], e.at[2]])),
    )
}

pub fn c14(a: &Args) {
    let pool = read_pool(a.req("pool"));
    let mut w = out_file(a.req("out"));
    let mut rng = Rng::new(seed_from_env() ^ 0xc14);
    let sample = a.num("sample", 100);
    let (mut n, mut same, mut diff, mut nrec) = (0usize, 0usize, 0usize, 0usize);
    let mut seen = std::collections::HashSet::new();
    let mut samples = vec![];
    for (_o, t) in &pool {
        if t.contains('\r') || !t.contains('\n') || !seen.insert(t.clone()) {
            continue;
        }
        n += 1;
        let base = run_str(t);
        if base.panic.is_some() {
            continue;
        }
        let sb = strip_idx(&base);
        for (name, v) in [("crlf", gen::crlf(t)), ("cr", gen::cr(t))] {
            for be in 0..2 {
                let r = if be == 0 { run_str(&v) } else { run_buf(&v) };
                let eq = r.panic.is_none() && strip_idx(&r) == sb;
                if eq {
                    same += 1;
                }
                if !eq || rng.below(sample) == 0 {
                    if !eq {
                        diff += 1;
                    }
                    let y = if r.panic.is_some() { json!({"evs": [], "err": [{"msg": format!("PANIC {}", r.panic.clone().unwrap()), "at": [0, 0, 0]}]}) } else { run_json(&r) };
                    writeln!(w, "{}", json!({"k": "MODIDX", "t": t, "variant": name, "be": if be == 0 { "str" } else { "buf" }, "x": run_json(&base), "y": y})).unwrap();
                    nrec += 1;
                }
            }
        }
        if samples.len() < 3 && n % 3001 == 7 {
            samples.push(json!({"text": t, "events": base.evs.len()}));
        }
    }
    w.flush().unwrap();
    println!("{}", json!({"texts": n, "pairs_same": same, "pairs_diff": diff, "records": nrec, "samples": samples}));
}

/// Does the stream give `!!` or `!` a prefix (a `%TAG` line whose handle is one of the two default handles)?
fn redefines_default_handle(t: &str) -> bool {
    t.split(['\n', '\r']).any(|l| {
        let mut w = l.split_whitespace();
        w.next() == Some("%TAG") && matches!(w.next(), Some("!") | Some("!!"))
    })
}

pub fn c15(a: &Args) {
    let pool = read_pool(a.req("pool"));
    let mut w = out_file(a.req("out"));
    let mut rng = Rng::new(seed_from_env() ^ 0xc15);
    let npairs = a.num("pairs", 20000);
    // accepted texts (bounded size), those ending with a break can be the A part
    let mut acc: Vec<(String, Run)> = vec![];
    let mut seen = std::collections::HashSet::new();
    for (_o, t) in &pool {
        if t.chars().count() > 120 || t.contains('\0') || t.starts_with('\u{FEFF}') || !seen.insert(t.clone()) {
            continue;
        }
        let r = run_str(t);
        if r.panic.is_none() && r.err.is_none() {
            acc.push((t.clone(), r));
        }
    }
    let las: Vec<usize> = (0..acc.len()).filter(|&i| acc[i].0.ends_with('\n') || acc[i].0.ends_with('\r')).collect();
    let (mut nrec, mut chains) = (0usize, 0usize);
    let mut samples = vec![];
    if !las.is_empty() {
        for i in 0..npairs {
            let ia = las[rng.below(las.len())];
            let ib = rng.below(acc.len());
            let (ta, ra) = (&acc[ia].0, &acc[ia].1);
            let (tb, rb) = (&acc[ib].0, &acc[ib].1);
            let tab = format!("{ta}...\n{tb}");
            for be in 0..3 {
                // (with keep_tags on, %TAG lines of A stay in force by design. B parses alone, so every named handle it uses it
                // declares itself, and its own declaration governs; only `!!` and `!` can be inherited: A redefining those is skipped)
                if be == 2 && redefines_default_handle(ta) {
                    continue;
                }
                let rab = if be == 0 { run_str(&tab) } else if be == 1 { run_parser(&tab, Backend::Buf, Api::PushMulti) } else { run_parser_opts(&tab, Backend::Str, Api::Iter, true) };
                // (the option is part of the configuration: under keep_tags A and B alone are parsed with it too -- a %TAG line of
                // an earlier document of B stays in force for its later documents, in B alone as in A + B)
                let (rak, rbk);
                let (ra, rb) = if be == 2 {
                    rak = run_parser_opts(ta, Backend::Str, Api::Iter, true);
                    rbk = run_parser_opts(tb, Backend::Str, Api::Iter, true);
                    if rak.err.is_some() || rbk.err.is_some() || rak.panic.is_some() || rbk.panic.is_some() {
                        continue;
                    }
                    (&rak, &rbk)
                } else {
                    (ra, rb)
                };
                let y = if rab.panic.is_some() { json!({"evs": [], "err": [{"msg": format!("PANIC {}", rab.panic.clone().unwrap()), "at": [0, 0, 0]}]}) } else { run_json(&rab) };
                writeln!(w, "{}", json!({"k": "CONCAT", "ta": ta, "tb": tb, "via": (["pull/str", "push/buf", "pull/str/keep_tags"][be]), "a": run_json(ra), "b": run_json(rb), "ab": y})).unwrap();
                nrec += 1;
            }
            // chains of up to 4 streams: fold the concatenation (A1+A2) + A3 ...
            if i % 10 == 0 {
                let mut t = ta.clone();
                let mut r = ra.clone();
                for _ in 0..(1 + rng.below(3)) {
                    let ic = las[rng.below(las.len())];
                    let (tc, rc) = (&acc[ic].0, &acc[ic].1);
                    let tn = format!("{t}...\n{tc}");
                    let rn = run_str(&tn);
                    let y = if rn.panic.is_some() { json!({"evs": [], "err": [{"msg": "PANIC", "at": [0, 0, 0]}]}) } else { run_json(&rn) };
                    if r.err.is_none() && r.panic.is_none() {
                        writeln!(w, "{}", json!({"k": "CONCAT", "ta": t, "tb": tc, "via": "chain", "a": run_json(&r), "b": run_json(rc), "ab": y})).unwrap();
                        nrec += 1;
                        chains += 1;
                    }
                    t = tn;
                    r = rn;
                }
            }
            if samples.len() < 3 && i % 5003 == 9 {
                samples.push(json!({"A": ta, "B": tb}));
            }
        }
    }
    // streams with directives of every kind on both sides, keep_tags off and on
    let dirs = ["%YAML 1.2\n---\na\n", "%YAML 1.1\n--- a\n", "%FOO bar baz\n---\na\n", "%FOO bar\n%YAML 1.2\n--- [a]\n", "%YAML 1.2\n%TAG !e! tag:e.org,2000:\n--- !e!t a\n",
        "%TAG !e! tag:e.org,2000:\n--- !e!t a\n", "%TAG !! tag:e.org,2000:\n--- !!t a\n", "%TAG ! !loc-\n--- !t a\n", "--- a\n", "a\n", "--- !!str a\n--- !t b\n", "%YAML 1.2\n---\na\n...\n%YAML 1.2\n---\nb\n"];
    for ta in dirs {
        for tb in dirs {
            let (ra, rb) = (run_str(ta), run_str(tb));
            if ra.err.is_some() || ra.panic.is_some() || rb.panic.is_some() || rb.err.is_some() {
                continue;
            }
            let tab = format!("{ta}...\n{tb}");
            for keep in [false, true] {
                if keep && redefines_default_handle(ta) {
                    continue;
                }
                for (be, api, via) in [(Backend::Str, Api::Iter, "pull/str"), (Backend::Buf, Api::PushMulti, "push/buf")] {
                    let (ra, rb) = (run_parser_opts(ta, be, api, keep), run_parser_opts(tb, be, api, keep));
                    if ra.err.is_some() || rb.err.is_some() || ra.panic.is_some() || rb.panic.is_some() {
                        continue;
                    }
                    let rab = run_parser_opts(&tab, be, api, keep);
                    let y = if rab.panic.is_some() { json!({"evs": [], "err": [{"msg": format!("PANIC {}", rab.panic.clone().unwrap()), "at": [0, 0, 0]}]}) } else { run_json(&rab) };
                    writeln!(w, "{}", json!({"k": "CONCAT", "ta": ta, "tb": tb, "via": format!("{via}{}", if keep { "/keep_tags" } else { "" }), "a": run_json(&ra), "b": run_json(&rb), "ab": y})).unwrap();
                    nrec += 1;
                }
            }
        }
    }
    // B right at the nesting limit after documents of every kind (nothing of A may count against B)
    for ta in ["---\n", "---\n---\n", "--- # c\n", "a\n", "--- a\n--- b\n", "- - - a\n", "[[[a]]]\n", "%YAML 1.2\n---\n", "--- |\n x\n", "? a\n", "&x a\n--- &y b\n"] {
        for shape in ["seq", "qkey", "seqmap", "mixflow"] {
            for d in [254usize, 255, 998, 999, 1000] {
                let tb = super::c11::shape_text(shape, d);
                let (ra, rb) = (run_str(ta), run_str(&tb));
                if ra.err.is_some() || ra.panic.is_some() || rb.panic.is_some() || rb.err.is_some() {
                    continue;
                }
                let tab = format!("{ta}...\n{tb}");
                let rab = run_str(&tab);
                let y = if rab.panic.is_some() { json!({"evs": [], "err": [{"msg": format!("PANIC {}", rab.panic.clone().unwrap()), "at": [0, 0, 0]}]}) } else { run_json(&rab) };
                writeln!(w, "{}", json!({"k": "CONCAT", "ta": ta, "tb": tb, "via": "pull/str", "a": run_json(&ra), "b": run_json(&rb), "ab": y})).unwrap();
                nrec += 1;
            }
        }
    }
    w.flush().unwrap();
    println!("{}", json!({"accepted": acc.len(), "a_candidates": las.len(), "records": nrec, "chains": chains, "samples": samples}));
}
