//! C18 — byte input decodes to the same documents, and decoding always ends.
//!
//! `c18-decode` generates byte strings (encodings of generated texts, all short strings over ten
//! indicator bytes, random bytes, truncated / garbled encodings, leads handed over by the model),
//! runs `YamlDecoder::read(bytes).encoding_trap(t).decode()` on each of them with every trap and
//! writes what happened as NDJSON for `spec/Trace_Decode.tla` to judge. Nothing is decided here.
//!
//! Every decode call runs in a child process (`vh c18-child`, jobs on stdin, one reply line per
//! job) under a watchdog: the pinned code really spins forever on some inputs. A job whose reply
//! does not arrive in time is recorded as "timeout" and the child is killed and replaced.
use crate::{out_file, Args};
use saphyr::{LoadableYamlNode, YAMLDecodingTrap, Yaml, YamlDecoder};
use serde_json::{json, Value};
use std::borrow::Cow;
use std::io::{BufRead, BufReader, Write};
use std::ops::ControlFlow;
use std::process::{Child, ChildStdin, Command, Stdio};
use std::sync::atomic::{AtomicUsize, Ordering};
use std::sync::mpsc::{channel, Receiver, RecvTimeoutError};
use std::sync::{Arc, Mutex};
use std::time::Duration;
use vh::nodes::Proj;
use vh::*;

pub const TRAPS: [&str; 5] = ["ignore", "strict", "replace", "call", "callbrk"];

thread_local! {
    static CB_CALLS: std::cell::Cell<usize> = const { std::cell::Cell::new(0) };
}
fn cb_continue(_l: u8, _a: u8, _input: &[u8], out: &mut String) -> ControlFlow<Cow<'static, str>> {
    CB_CALLS.with(|c| c.set(c.get() + 1));
    out.push('?');
    ControlFlow::Continue(())
}
fn cb_break(_l: u8, _a: u8, _input: &[u8], _out: &mut String) -> ControlFlow<Cow<'static, str>> {
    CB_CALLS.with(|c| c.set(c.get() + 1));
    ControlFlow::Break(Cow::Borrowed("stop"))
}
thread_local! {
    static CB_SLICES: std::cell::RefCell<Vec<Vec<u8>>> = const { std::cell::RefCell::new(Vec::new()) };
}
/// continues with '?', and notes the bytes it is shown: the first `malformation_length` bytes of `input_at_malformation`
fn cb_hex(l: u8, _a: u8, input: &[u8], out: &mut String) -> ControlFlow<Cow<'static, str>> {
    CB_SLICES.with(|c| c.borrow_mut().push(input[..(l as usize).min(input.len())].to_vec()));
    out.push('?');
    ControlFlow::Continue(())
}
fn trap_of(name: &str) -> YAMLDecodingTrap {
    match name {
        "ignore" => YAMLDecodingTrap::Ignore,
        "replace" => YAMLDecodingTrap::Replace,
        "call" => YAMLDecodingTrap::Call(cb_continue),
        "callbrk" => YAMLDecodingTrap::Call(cb_break),
        "callhex" => YAMLDecodingTrap::Call(cb_hex),
        _ => YAMLDecodingTrap::Strict,
    }
}

fn hex(b: &[u8]) -> String {
    let mut s = String::with_capacity(b.len() * 2);
    for x in b {
        s.push_str(&format!("{x:02X}"));
    }
    s
}
fn fnv(b: &[u8]) -> String {
    let mut h: u64 = 0xcbf29ce484222325;
    for x in b {
        h ^= *x as u64;
        h = h.wrapping_mul(0x100000001b3);
    }
    format!("{h:016x}")
}
fn unhex(s: &str) -> Vec<u8> {
    (0..s.len() / 2).map(|i| u8::from_str_radix(&s[2 * i..2 * i + 2], 16).unwrap_or(0)).collect()
}

// ---------------------------------------------------------------------------------------------
// child: one decode call per job line  "<trap> <hex bytes> <hex utf-8 text | ->"
// ---------------------------------------------------------------------------------------------
type Docs = Result<Vec<Value>, &'static str>;

fn direct_load(text: &str) -> Docs {
    match std::panic::catch_unwind(|| Yaml::load_from_str(text)) {
        Err(_) => Err("panic"),
        Ok(Err(_)) => Err("scan"),
        Ok(Ok(d)) => Ok(d.iter().map(|x| x.proj(false)).collect()),
    }
}

/// A source that hands out its bytes in short reads (1, 2, 3, 5, 64 bytes, ...), as pipes, sockets and chained
/// readers do: `Read::read` may return fewer bytes than asked for at any time, only 0 means the end.
struct Dribble<'a> {
    data: &'a [u8],
    calls: usize,
}
impl std::io::Read for Dribble<'_> {
    fn read(&mut self, buf: &mut [u8]) -> std::io::Result<usize> {
        let step = [1usize, 2, 3, 5, 64, 1, 4096, 7][self.calls % 8];
        self.calls += 1;
        let n = step.min(buf.len()).min(self.data.len());
        buf[..n].copy_from_slice(&self.data[..n]);
        self.data = &self.data[n..];
        Ok(n)
    }
}

fn decode_once(bytes: &[u8], trap: &str) -> Result<Result<Vec<Value>, &'static str>, String> {
    decode_from(bytes, trap)
}
fn decode_dribbled(bytes: &[u8], trap: &str) -> Result<Result<Vec<Value>, &'static str>, String> {
    decode_from(Dribble { data: bytes, calls: 0 }, trap)
}

fn decode_from<R: std::io::Read>(src: R, trap: &str) -> Result<Result<Vec<Value>, &'static str>, String> {
    let t = trap_of(trap);
    std::panic::catch_unwind(std::panic::AssertUnwindSafe(|| {
        match YamlDecoder::read(src).encoding_trap(t).decode() {
            Ok(d) => Ok(d.iter().map(|x| x.proj(false)).collect::<Vec<_>>()),
            // `LoadError` is not exported by saphyr; its variants are told apart through
            // `Error::source()` (IO -> io::Error, Scan -> ScanError, Decode -> None)
            Err(e) => Err(match std::error::Error::source(&e) {
                None => "decode",
                Some(s) if s.is::<saphyr::ScanError>() => "scan",
                Some(_) => "io",
            }),
        }
    }))
    .map_err(panic_msg)
}

/// "continues as configured": a double-quoted scalar whose content alternates well-formed text and malformed byte groups
/// (each one malformed sequence), in the three encodings; under each continuing trap the loaded string is recorded, and
/// for the callback the bytes it was shown. Judged by Trace_DecodeTraps.
pub fn traps_cmd(a: &Args) {
    let mut w = crate::out_file(a.req("out"));
    let mut rng = Rng::new(seed_from_env() ^ 0xc18_7a95);
    let n = a.num("n", 1500);
    let valid_pool = ["a", "bc", "x\u{e9}", "\u{8a9e}", "k1", "\u{ff}z", "\u{1f600}", "m \u{4e80}n", "\u{8080}", "q"];
    let bad8: [&[u8]; 6] = [&[0xFF], &[0x80], &[0xC3], &[0xE4, 0xBD], &[0xF0, 0x9F], &[0xBF]];
    let mut nrec = 0usize;
    for i in 0..n {
        let enc = ENCS[i % 3];
        let bom = (i / 3) % 2 == 0;
        let k = 1 + rng.below(4);
        let mut valid: Vec<String> = vec![];
        let mut bad: Vec<Vec<u8>> = vec![];
        let mut bytes = encode("\"", enc, bom);
        for j in 0..=k {
            // a valid segment after a malformed group starts with an ASCII character (so the group stays one sequence)
            let mut v = valid_pool[rng.below(valid_pool.len())].to_string();
            if j > 0 {
                // (UTF-16: any unit that is not a surrogate keeps the group before it one sequence -- units of every byte shape)
                if enc == "utf8" {
                    v.insert(0, ['a', 'z', ' ', '7'][rng.below(4)]);
                } else {
                    v.insert(0, ['a', '\u{8080}', '\u{4e80}', '\u{8f9e}', '\u{bfbf}', '\u{80bf}', '\u{a080}', '\u{bf}'][rng.below(8)]);
                }
            }
            bytes.extend_from_slice(&encode(&v, enc, false));
            valid.push(v);
            if j < k {
                let b: Vec<u8> = if enc == "utf8" {
                    bad8[rng.below(bad8.len())].to_vec()
                } else {
                    let u: u16 = [0xD800u16, 0xDBFF, 0xDC00, 0xDFFF, 0xD83D][rng.below(5)];
                    if enc == "utf16le" { u.to_le_bytes().to_vec() } else { u.to_be_bytes().to_vec() }
                };
                bytes.extend_from_slice(&b);
                bad.push(b);
            }
        }
        bytes.extend_from_slice(&encode("\"\n", enc, false));
        let mut runs = serde_json::Map::new();
        let mut slices: Vec<Vec<u8>> = vec![];
        for trap in ["ignore", "replace", "call", "callhex"] {
            CB_SLICES.with(|c| c.borrow_mut().clear());
            let r = std::panic::catch_unwind(std::panic::AssertUnwindSafe(|| {
                let mut dec = YamlDecoder::read(&bytes[..]);
                dec.encoding_trap(trap_of(trap));
                let out = match dec.decode() {
                    Ok(d) if d.len() == 1 && d[0].as_str().is_some() => json!({"res": "str", "s": chars(d[0].as_str().unwrap())}),
                    Ok(d) => json!({"res": "other", "s": [format!("{} documents", d.len())]}),
                    Err(_) => json!({"res": "error", "s": []}),
                };
                out
            }));
            let v = match r {
                Ok(v) => v,
                Err(p) => json!({"res": "panic", "s": [panic_msg(p)]}),
            };
            runs.insert(trap.to_string(), v);
            if trap == "callhex" {
                slices = CB_SLICES.with(|c| c.borrow().clone());
            }
        }
        writeln!(w, "{}", json!({"k": "TRAPS", "enc": enc, "bom": bom, "hex": hex(&bytes), "valid": valid.iter().map(|v| chars(v)).collect::<Vec<_>>(), "bad": bad, "runs": runs, "slices": slices})).unwrap();
        nrec += 1;
    }
    w.flush().unwrap();
    println!("{}", json!({"records": nrec, "evaluations": 4 * nrec}));
}

pub fn child(_a: &Args) {
    let stdin = std::io::stdin();
    let stdout = std::io::stdout();
    let mut out = stdout.lock();
    let mut last_text: Option<(String, Docs)> = None;
    for line in stdin.lock().lines() {
        let line = match line {
            Ok(l) => l,
            Err(_) => break,
        };
        let mut it = line.split(' ');
        let (trap, hb, ht) = (it.next().unwrap_or(""), it.next().unwrap_or(""), it.next().unwrap_or("-"));
        let bytes = unhex(hb);
        // first pass without a sink: if the code under test spins, it spins without eating memory
        // and the parent's watchdog ends this process
        let first = decode_once(&bytes, trap);
        let reply = match first {
            Err(p) => json!({"res": "panic", "same": false, "cb": 0, "its": [], "panic": p}),
            Ok(_) => {
                // second pass (the call is deterministic) with the `dec` hook recording the loop heads
                CB_CALLS.with(|c| c.set(0));
                saphyr_parser::verif::start();
                // (the same bytes, this time from a source that delivers them in short reads)
                let second = decode_dribbled(&bytes, trap);
                let log = saphyr_parser::verif::take();
                let cb = CB_CALLS.with(|c| c.get());
                let its: Vec<Value> = log
                    .iter()
                    .filter_map(|l| serde_json::from_str::<Value>(l).ok())
                    .filter(|v| v["k"] == "dec")
                    .map(|v| json!([v["total"], v["inlen"], v["outlen"], v["cap"]]))
                    .collect();
                match second {
                    Err(p) => json!({"res": "panic", "same": false, "cb": cb, "its": its, "panic": p}),
                    Ok(r2) => {
                        // the result must not depend on how the source delivers its bytes: a failure of either pass is
                        // the result, and the documents are "the same" only if both passes gave them
                        let r1 = first.unwrap();
                        let both_equal = r1 == r2;
                        let r = if r1.is_err() { r1 } else { r2 };
                        let mut same = false;
                        let mut direct = "none";
                        if ht != "-" {
                            let text = String::from_utf8_lossy(&unhex(ht)).to_string();
                            if last_text.as_ref().map(|x| x.0 != text).unwrap_or(true) {
                                let d = direct_load(&text);
                                last_text = Some((text, d));
                            }
                            let d = &last_text.as_ref().unwrap().1;
                            direct = match d {
                                Ok(_) => "ok",
                                Err(e) => e,
                            };
                            same = both_equal
                                && match (&r, d) {
                                    (Ok(x), Ok(y)) => x == y,
                                    _ => false,
                                };
                        }
                        let (res, ndocs) = match &r {
                            Ok(d) => ("ok", d.len()),
                            Err(e) => (*e, 0),
                        };
                        json!({"res": res, "same": same, "cb": cb, "its": its, "direct": direct, "ndocs": ndocs})
                    }
                }
            }
        };
        if writeln!(out, "{reply}").is_err() || out.flush().is_err() {
            break;
        }
    }
}

// ---------------------------------------------------------------------------------------------
// generators (raw input only)
// ---------------------------------------------------------------------------------------------
#[derive(Clone)]
pub struct Case {
    pub fam: &'static str,
    pub bytes: Vec<u8>,
    pub text: Option<String>,
    pub enc: &'static str,
    pub bom: bool,
    pub note: String,
}

pub const ENCS: [&str; 3] = ["utf8", "utf16le", "utf16be"];

pub fn encode(text: &str, enc: &str, bom: bool) -> Vec<u8> {
    let mut v = vec![];
    let put16 = |u: u16, v: &mut Vec<u8>| {
        if enc == "utf16le" {
            v.extend_from_slice(&u.to_le_bytes())
        } else {
            v.extend_from_slice(&u.to_be_bytes())
        }
    };
    match enc {
        "utf8" => {
            if bom {
                v.extend_from_slice(&[0xEF, 0xBB, 0xBF]);
            }
            v.extend_from_slice(text.as_bytes());
        }
        _ => {
            if bom {
                put16(0xFEFF, &mut v);
            }
            for u in text.encode_utf16() {
                put16(u, &mut v);
            }
        }
    }
    v
}

const ASCII_FIRST: &[char] = &['a', 'k', '-', '[', '{', '"', '\'', '#', '1', '~', ' ', '\n', '!', '&', '|', '>', '%', '?', ':', 'Z', '0', '\t'];
const ASCII_REST: &[&str] = &["a", "b", "k", "z", "0", "1", "9", " ", " ", "\n", "- ", ": ", ", ", "[", "]", "{", "}", "\"", "'", "#", "x", "y", "_", ".", "---\n", "\n  ", "~", "true", "|", "\\"];
fn pick_class(rng: &mut Rng, class: usize) -> char {
    // 1 = Latin-1, 2 = CJK, 3 = astral
    match class {
        1 => char::from_u32(0xA1 + rng.below(0xFF - 0xA1) as u32).unwrap_or('é'),
        2 => char::from_u32(0x4E00 + rng.below(0x5000) as u32).unwrap_or('中'),
        _ => char::from_u32(0x1F600 + rng.below(0x40) as u32).unwrap_or('😀'),
    }
}

/// A text of exactly `n` characters whose first character is ASCII (or U+FEFF when `bom_first`).
/// kind: 0 ASCII, 1 Latin-1 mix, 2 CJK mix, 3 astral mix, 4 everything.
pub fn gen_text(rng: &mut Rng, n: usize, kind: usize, bom_first: bool) -> String {
    let mut cs: Vec<char> = vec![];
    if n == 0 {
        return String::new();
    }
    cs.push(if bom_first { '\u{FEFF}' } else { ASCII_FIRST[rng.below(ASCII_FIRST.len())] });
    let dense = rng.chance(1, 2); // half of the texts are mostly non-ASCII
    while cs.len() < n {
        let non_ascii = kind != 0 && rng.chance(if dense { 7 } else { 2 }, 8);
        if non_ascii {
            let class = if kind == 4 { 1 + rng.below(3) } else { kind };
            cs.push(pick_class(rng, class));
        } else {
            for c in ASCII_REST[rng.below(ASCII_REST.len())].chars() {
                cs.push(c);
            }
        }
    }
    cs.truncate(n);
    cs.into_iter().collect()
}

pub fn lengths(thorough: bool) -> Vec<usize> {
    let mut v: Vec<usize> = (0..=64).collect();
    let more: &[usize] = &[65, 72, 79, 80, 81, 96, 99, 100, 101, 127, 128, 129, 160, 199, 200, 201, 255, 256, 257, 300, 399, 400, 401, 511, 512, 513, 640, 800, 1000, 1023, 1024, 1025, 1500, 2047, 2048, 2049, 3000, 4000, 4095, 4096];
    v.extend_from_slice(more);
    if thorough {
        let mut x = 66;
        while x < 4096 {
            v.push(x);
            x += 1 + x / 9;
        }
    }
    v.sort();
    v.dedup();
    v
}

fn text_cases(rng: &mut Rng, thorough: bool, out: &mut Vec<Case>) {
    let mut texts: Vec<(String, String)> = vec![];
    let reps = if thorough { 6 } else { 2 };
    for &n in &lengths(thorough) {
        // homogeneous runs: an ASCII character followed by n-1 characters of one class
        if n >= 1 && (n <= 64 || n % 64 <= 1) {
            for (name, c) in [("run:ascii", 'b'), ("run:latin", 'é'), ("run:cjk", '中'), ("run:astral", '😀')] {
                let mut t = String::from("a");
                for _ in 1..n {
                    t.push(c);
                }
                texts.push((name.to_string(), t));
            }
        }
        let reps_n = if n <= 64 { reps } else { 1 };
        for kind in 0..5 {
            for r in 0..reps_n {
                let bom_first = n > 0 && (r + kind + n) % 7 == 0;
                texts.push((format!("gen:{kind}"), gen_text(rng, n, kind, bom_first)));
            }
        }
    }
    for (note, t) in texts {
        for enc in ENCS {
            for bom in [false, true] {
                out.push(Case { fam: "text", bytes: encode(&t, enc, bom), text: Some(t.clone()), enc, bom, note: note.clone() });
            }
        }
    }
}

pub const TEN: [u8; 10] = [0x00, 0x0A, 0x20, 0x2D, 0x41, 0x80, 0xC3, 0xE4, 0xFE, 0xFF];

fn exhaustive_cases(maxlen: usize, out: &mut Vec<Case>) {
    for n in 0..=maxlen {
        let total = 10usize.pow(n as u32);
        for mut i in 0..total {
            let mut b = Vec::with_capacity(n);
            for _ in 0..n {
                b.push(TEN[i % 10]);
                i /= 10;
            }
            out.push(Case { fam: "bytes", bytes: b, text: None, enc: "", bom: false, note: String::new() });
        }
    }
}

const SPICE: [u8; 18] = [0x00, 0x0A, 0x20, 0x2D, 0x41, 0x80, 0xC3, 0xE4, 0xFE, 0xFF, 0xD8, 0xDC, 0xEF, 0xBB, 0xBF, 0xF0, 0x9F, 0x61];
fn random_cases(rng: &mut Rng, count: usize, out: &mut Vec<Case>) {
    for i in 0..count {
        let n = match i % 10 {
            0..=6 => rng.below(65),
            7 | 8 => 65 + rng.below(200),
            _ => 256 + rng.below(3841),
        };
        let mut b: Vec<u8> = Vec::with_capacity(n + 3);
        // heads that steer the detection: BOMs, xx 00, 00 xx, or nothing
        match rng.below(8) {
            0 => b.extend_from_slice(&[0xFF, 0xFE]),
            1 => b.extend_from_slice(&[0xFE, 0xFF]),
            2 => b.extend_from_slice(&[0xEF, 0xBB, 0xBF]),
            3 => b.extend_from_slice(&[0x61, 0x00]),
            4 => b.extend_from_slice(&[0x00, 0x61]),
            _ => {}
        }
        let spicy = rng.chance(1, 2);
        while b.len() < n {
            b.push(if spicy { SPICE[rng.below(SPICE.len())] } else { rng.below(256) as u8 });
        }
        b.truncate(n);
        out.push(Case { fam: "rand", bytes: b, text: None, enc: "", bom: false, note: String::new() });
    }
}

/// UTF-16 texts with an unpaired surrogate directly followed by code units of every byte shape (both bytes in 0x80..0xBF,
/// one of them, none), and UTF-8 texts with a stray byte followed by continuation-like characters
fn surrogate_cases(out: &mut Vec<Case>) {
    for enc in ["utf16le", "utf16be"] {
        for bom in [true, false] {
            for lone in [0xD800u16, 0xDBFF, 0xDC00, 0xDFFF] {
                for follow in [0x8080u16, 0x4E80, 0x8F9E, 0xBFBF, 0x80BF, 0x0041, 0x3042, 0xA080, 0x00BF, 0xD800] {
                    for tail in ["b\n", "\u{8a9e}b\n", ""] {
                        let mut b = encode("k: a", enc, bom);
                        for u in [lone, follow] {
                            if enc == "utf16le" {
                                b.extend_from_slice(&u.to_le_bytes());
                            } else {
                                b.extend_from_slice(&u.to_be_bytes());
                            }
                        }
                        b.extend_from_slice(&encode(tail, enc, false));
                        out.push(Case { fam: "surrogate", bytes: b, text: None, enc: "", bom: false, note: format!("{enc}:{lone:04X}:{follow:04X}") });
                    }
                }
            }
        }
    }
    for stray in [0x80u8, 0xBF, 0xC3, 0xE4, 0xF0, 0xFF] {
        for follow in ["\u{80}", "\u{bf}", "\u{8080}", "\u{4e80}", "a", "\u{1f600}"] {
            for second in [None, Some(0xFFu8), Some(0x80)] {
                let mut b = b"k: a".to_vec();
                b.push(stray);
                b.extend_from_slice(follow.as_bytes());
                if let Some(x) = second {
                    b.push(b'c');
                    b.push(x);
                }
                b.extend_from_slice(b"b\n");
                out.push(Case { fam: "surrogate", bytes: b, text: None, enc: "", bom: false, note: format!("utf8:{stray:02X}") });
            }
        }
    }
}

fn garbled_cases(rng: &mut Rng, count: usize, out: &mut Vec<Case>) {
    for i in 0..count {
        let n = if i % 12 == 11 { 200 + rng.below(1200) } else { 1 + rng.below(48) };
        let kind = rng.below(5);
        let t = gen_text(rng, n, kind, false);
        let enc = ENCS[rng.below(3)];
        let mut b = encode(&t, enc, rng.chance(1, 2));
        let how = rng.below(5);
        let note;
        match how {
            0 => {
                let k = rng.below(b.len() + 1);
                b.truncate(k);
                note = "trunc";
            }
            1 => {
                let k = rng.below(b.len());
                b[k] = SPICE[rng.below(SPICE.len())];
                note = "subst";
            }
            2 => {
                let k = rng.below(b.len());
                b.remove(k);
                note = "del";
            }
            3 => {
                let k = rng.below(b.len() + 1);
                b.insert(k, SPICE[rng.below(SPICE.len())]);
                note = "ins";
            }
            _ => {
                // splice: head in one encoding, tail in another
                let other = encode(&t, ENCS[rng.below(3)], false);
                let k = rng.below(b.len() + 1);
                b.truncate(k);
                b.extend_from_slice(&other[other.len() / 2..]);
                note = "splice";
            }
        }
        out.push(Case { fam: "garbled", bytes: b, text: None, enc: "", bom: false, note: format!("{note}:{enc}") });
    }
}

// ---------------------------------------------------------------------------------------------
// parent: watchdog-supervised pool of children
// ---------------------------------------------------------------------------------------------
struct Kid {
    child: Child,
    stdin: ChildStdin,
    rx: Receiver<String>,
}
impl Kid {
    fn spawn() -> Kid {
        let exe = std::env::current_exe().expect("current_exe");
        let mut child = Command::new(exe).arg("c18-child").stdin(Stdio::piped()).stdout(Stdio::piped()).stderr(Stdio::null()).spawn().expect("spawn c18-child");
        let stdin = child.stdin.take().unwrap();
        let stdout = child.stdout.take().unwrap();
        let (tx, rx) = channel();
        std::thread::spawn(move || {
            for l in BufReader::new(stdout).lines() {
                match l {
                    Ok(l) => {
                        if tx.send(l).is_err() {
                            break;
                        }
                    }
                    Err(_) => break,
                }
            }
        });
        Kid { child, stdin, rx }
    }
    fn kill(mut self) {
        let _ = self.child.kill();
        let _ = self.child.wait();
    }
}

#[derive(Clone)]
struct Job {
    case: usize,
    trap: &'static str,
}

fn job_line(c: &Case, trap: &str) -> String {
    let ht = match &c.text {
        Some(t) if !t.is_empty() => hex(t.as_bytes()),
        Some(_) => "-".to_string(), // the empty text: termination only
        None => "-".to_string(),
    };
    let hb = hex(&c.bytes);
    format!("{trap} {} {ht}\n", if hb.is_empty() { "".to_string() } else { hb })
}

/// Run jobs[lo..hi] on one child; replies are stored by job index. Returns the number of time-outs.
fn run_slice(cases: &[Case], jobs: &[Job], results: &Mutex<Vec<Option<String>>>, next: &AtomicUsize, timeouts: &AtomicUsize, max_timeouts: usize, timeout: Duration, batch: usize) {
    let mut kid = Kid::spawn();
    loop {
        if timeouts.load(Ordering::SeqCst) >= max_timeouts {
            break;
        }
        let lo = next.fetch_add(batch, Ordering::SeqCst);
        if lo >= jobs.len() {
            break;
        }
        let hi = (lo + batch).min(jobs.len());
        let mut i = lo;
        while i < hi {
            // (re)send the rest of the batch
            let mut buf = String::new();
            for j in &jobs[i..hi] {
                buf.push_str(&job_line(&cases[j.case], j.trap));
            }
            let sent = kid.stdin.write_all(buf.as_bytes()).and_then(|_| kid.stdin.flush());
            let mut respawn = sent.is_err();
            while i < hi && !respawn {
                // generous allowance for long inputs on top of the per-case time-out
                match kid.rx.recv_timeout(timeout) {
                    Ok(l) => {
                        results.lock().unwrap()[i] = Some(l);
                        i += 1;
                    }
                    Err(RecvTimeoutError::Timeout) => {
                        // confirm on a fresh child, alone, with three times the allowance, so that a
                        // busy machine is not mistaken for a spin
                        kid.kill();
                        kid = Kid::spawn();
                        let line = job_line(&cases[jobs[i].case], jobs[i].trap);
                        let again = match kid.stdin.write_all(line.as_bytes()).and_then(|_| kid.stdin.flush()) {
                            Ok(()) => kid.rx.recv_timeout(timeout * 3).ok(),
                            Err(_) => None,
                        };
                        match again {
                            Some(l) => results.lock().unwrap()[i] = Some(l),
                            None => {
                                results.lock().unwrap()[i] = Some(json!({"res": "timeout", "same": false, "cb": 0, "its": []}).to_string());
                                timeouts.fetch_add(1, Ordering::SeqCst);
                            }
                        }
                        i += 1;
                        respawn = true;
                    }
                    Err(RecvTimeoutError::Disconnected) => {
                        // the child died (abort, stack overflow): the job it was working on is the culprit
                        results.lock().unwrap()[i] = Some(json!({"res": "abort", "same": false, "cb": 0, "its": []}).to_string());
                        i += 1;
                        respawn = true;
                    }
                }
            }
            if respawn {
                kid.kill();
                kid = Kid::spawn();
                if timeouts.load(Ordering::SeqCst) >= max_timeouts {
                    break;
                }
            }
        }
    }
    kid.kill();
}

pub fn leads_from(path: &str) -> Vec<Case> {
    let mut v = vec![];
    if let Ok(s) = std::fs::read_to_string(path) {
        for l in s.lines() {
            if let Ok(j) = serde_json::from_str::<Value>(l) {
                if let Some(h) = j["hex"].as_str() {
                    v.push(Case { fam: "lead", bytes: unhex(h), text: None, enc: "", bom: false, note: j["note"].as_str().unwrap_or("").to_string() });
                }
            }
        }
    }
    v
}

pub fn decode_cmd(a: &Args) {
    let thorough = a.thorough();
    let seed = seed_from_env();
    let mut rng = Rng::new(seed ^ 0x6331_3864);
    let mut cases: Vec<Case> = vec![];
    if let Some(p) = a.get("leads") {
        cases.extend(leads_from(p));
    }
    if let Some(p) = a.get("only") {
        // replay of explicit cases only (hex strings, one per line or comma separated)
        cases.clear();
        for h in p.split(',') {
            cases.push(Case { fam: "lead", bytes: unhex(h), text: None, enc: "", bom: false, note: "only".into() });
        }
    } else {
        text_cases(&mut rng, thorough, &mut cases);
        exhaustive_cases(a.num("maxlen", if thorough { 6 } else { 4 }), &mut cases);
        random_cases(&mut rng, a.num("random", if thorough { 40_000 } else { 3_000 }), &mut cases);
        garbled_cases(&mut rng, a.num("garbled", if thorough { 30_000 } else { 3_000 }), &mut cases);
        surrogate_cases(&mut cases);
    }
    let mut jobs: Vec<Job> = vec![];
    for (ci, _) in cases.iter().enumerate() {
        for t in TRAPS {
            jobs.push(Job { case: ci, trap: t });
        }
    }
    let timeout = Duration::from_millis(a.num("timeout-ms", 1500) as u64);
    let max_timeouts = a.num("max-timeouts", 60);
    let nworkers = a.num("jobs", 6).max(1);
    let batch = a.num("batch", 200).min(jobs.len() / (nworkers * 4) + 1);
    let results: Arc<Mutex<Vec<Option<String>>>> = Arc::new(Mutex::new(vec![None; jobs.len()]));
    let next = Arc::new(AtomicUsize::new(0));
    let timeouts = Arc::new(AtomicUsize::new(0));
    let cases = Arc::new(cases);
    let jobs = Arc::new(jobs);
    let mut hs = vec![];
    for _ in 0..nworkers {
        let (cases, jobs, results, next, timeouts) = (cases.clone(), jobs.clone(), results.clone(), next.clone(), timeouts.clone());
        hs.push(std::thread::spawn(move || run_slice(&cases, &jobs, &results, &next, &timeouts, max_timeouts, timeout, batch)));
    }
    for h in hs {
        let _ = h.join();
    }
    let results = results.lock().unwrap();
    // one record per byte string holding its runs; byte strings whose runs were cut short by
    // --max-timeouts are left out and counted
    let keep_b = a.num("keep-bytes", 600);
    let mut w = out_file(a.req("out"));
    // full bytes of the cases too long to be spelled out in their record (for replay files)
    let mut full = out_file(&format!("{}.long", a.req("out")));
    let (mut written, mut skipped, mut calls) = (0usize, 0usize, 0usize);
    let mut by_res: std::collections::BTreeMap<String, usize> = Default::default();
    let mut by_fam: std::collections::BTreeMap<String, usize> = Default::default();
    let mut distinct: std::collections::HashSet<Vec<u8>> = Default::default();
    let mut samples: Vec<Value> = vec![];
    for (ci, c) in cases.iter().enumerate() {
        let rs: Vec<&Option<String>> = (0..TRAPS.len()).map(|k| &results[ci * TRAPS.len() + k]).collect();
        if rs.iter().any(|r| r.is_none()) {
            skipped += 1;
            continue;
        }
        let mut runs = vec![];
        let mut direct = "none".to_string();
        for (k, r) in rs.iter().enumerate() {
            let r: Value = serde_json::from_str(r.as_ref().unwrap()).unwrap_or(json!({"res": "abort", "same": false, "cb": 0, "its": []}));
            calls += 1;
            *by_res.entry(r["res"].as_str().unwrap_or("?").to_string()).or_default() += 1;
            if let Some(d) = r["direct"].as_str() {
                if d != "none" {
                    direct = d.to_string();
                }
            }
            runs.push(json!({"trap": TRAPS[k], "res": r["res"], "same": r["same"].as_bool().unwrap_or(false), "cb": r["cb"], "its": r["its"]}));
        }
        let hasb = c.fam != "text" || c.bytes.len() <= keep_b;
        let first: i64 = c.text.as_ref().and_then(|t| t.chars().next()).map(|ch| ch as i64).unwrap_or(-1);
        let rec = json!({"k": "DEC", "fam": c.fam, "blen": c.bytes.len(), "hasb": hasb, "b": if hasb { json!(c.bytes) } else { json!([]) },
                         "hex": if c.bytes.len() <= 64 { hex(&c.bytes) } else { format!("{}..({} bytes)", hex(&c.bytes[..24]), c.bytes.len()) },
                         "id": fnv(&c.bytes), "enc": c.enc, "bom": c.bom, "first": first, "tlen": c.text.as_ref().map(|t| t.chars().count()).unwrap_or(0),
                         "text": c.text.as_ref().map(|t| t.chars().take(40).collect::<String>()).unwrap_or_default(), "note": c.note, "direct": direct, "runs": runs});
        writeln!(w, "{rec}").unwrap();
        written += 1;
        if c.bytes.len() > 64 {
            writeln!(full, "{}", json!({"id": fnv(&c.bytes), "hex": hex(&c.bytes)})).unwrap();
        }
        *by_fam.entry(c.fam.to_string()).or_default() += 1;
        if c.bytes.len() > 1 {
            distinct.insert(c.bytes.clone());
        }
        if (c.fam == "text" && c.note == "run:cjk" && c.text.as_ref().map(|t| t.chars().count()) == Some(4) && c.enc == "utf16le" && !c.bom) || (samples.len() < 4 && written % 997 == 1) {
            let mut s = rec.clone();
            s.as_object_mut().unwrap().remove("b");
            samples.push(s);
        }
    }
    w.flush().unwrap();
    full.flush().unwrap();
    println!("{}", json!({"cases": cases.len(), "records": written, "skipped_after_max_timeouts": skipped, "decode_calls": calls, "timeouts": timeouts.load(Ordering::SeqCst),
                         "by_result": by_res, "by_family": by_fam, "distinct_byte_strings": distinct.len(), "samples": samples}));
}
