//! Per-property recording commands, one module per property (registered here).
use crate::Args;

pub mod c18;

pub fn dispatch(_cmd: &str, _a: &Args) -> bool {
    match _cmd {
        "c18-decode" => c18::decode_cmd(_a),
        "c18-child" => c18::child(_a),
        _ => return false,
    }
    #[allow(unreachable_code)]
    true
}
