//! Per-property recording commands, one module per property (registered here).
use crate::Args;

pub mod c19;
pub mod c20;
pub mod nodeops;

pub fn dispatch(_cmd: &str, _a: &Args) -> bool {
    match _cmd {
        "c19" => c19::c19(_a),
        "c19-replay" => c19::c19_replay(_a),
        "c19-restable" => c19::c19_restable(_a),
        "c20" => c20::c20(_a),
        "c20-replay" => c20::c20_replay(_a),
        _ => return false,
    }
    #[allow(unreachable_code)]
    true
}
