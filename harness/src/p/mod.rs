//! Per-property recording commands, one module per property (registered here).
use crate::Args;

pub fn dispatch(_cmd: &str, _a: &Args) -> bool {
    match _cmd {
        _ => return false,
    }
    #[allow(unreachable_code)]
    true
}
