//! Per-property recording commands, one module per property (registered here).
use crate::Args;

mod c09;

pub fn dispatch(_cmd: &str, _a: &Args) -> bool {
    if c09::dispatch(_cmd, _a) {
        return true;
    }
    match _cmd {
        _ => return false,
    }
    #[allow(unreachable_code)]
    true
}
