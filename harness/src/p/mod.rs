//! Per-property recording commands, one module per property (registered here).
use crate::Args;
pub mod c03;
pub mod c07;
pub mod c11;
pub mod c12;
pub mod c13;
pub mod c16;
pub mod c17;
pub mod rel;
pub mod ptrace;

pub mod c08;

mod c09;

pub mod c18;

pub mod c19;
pub mod c20;
pub mod nodeops;
pub mod scale;
pub mod inputops;

pub fn dispatch(_cmd: &str, _a: &Args) -> bool {
    if c08::dispatch(_cmd, _a) || c09::dispatch(_cmd, _a) {
        return true;
    }
    match _cmd {
        "c03" => c03::run(_a),
        "c03-suite" => c03::suite(_a),
        "c06-suite" => c03::suite_errors(_a),
        "c07" => c07::run(_a),
        "c11" => c11::run(_a),
        "c11-child" => c11::child(_a),
        "scale" => scale::run(_a),
        "c10-ops" => inputops::run(_a),
        "scale-child" => scale::child(_a),
        "c12" => c12::run(_a),
        "c13" => c13::run(_a),
        "c16" => c16::run(_a),
        "c17" => c17::run(_a),
        "ptrace" => ptrace::run(_a),
        "c10" => rel::c10(_a),
        "c14" => rel::c14(_a),
        "c15" => rel::c15(_a),
        "c18-decode" => c18::decode_cmd(_a),
        "c18-child" => c18::child(_a),
        "c18-traps" => c18::traps_cmd(_a),
        "c19" => c19::c19(_a),
        "c19-replay" => c19::c19_replay(_a),
        "c19-restable" => c19::c19_restable(_a),
        "c20" => c20::c20(_a),
        "c20-replay" => c20::c20_replay(_a),
        _ => return false,
    }
    #[allow(unreachable_code)]
    true
}
