//! C10, method level: the answers YInput's abstract input gives to every operation of the `Input`
//! trait (Gen_Input, one REPLAY line per text and cursor offset) replayed on the real `StrInput`
//! and `BufferedInput`. An answer that differs from the specification on both implementations
//! alike is drift of the model; an answer on which the two implementations differ is a lead,
//! followed up at the level the property speaks of: documents embedding the text are parsed
//! through both back-ends and recorded as SAMERUN pairs for Trace_Rel.
use crate::{out_file, read_replays, Args};
use saphyr_parser::input::SkipTabs;
use saphyr_parser::{BufferedInput, Input, StrInput};
use serde_json::{json, Value};
use std::io::Write;
use vh::*;
use super::rel::run_json;

fn b2s(b: bool) -> &'static str {
    if b {
        "t"
    } else {
        "f"
    }
}

/// All answers of one implementation, in the layout of Gen_Input!Exp (plus the character that
/// follows each bulk operation, compared between the implementations only).
fn answers<I: Input>(mk: &dyn Fn() -> I, off: usize, canplain: bool) -> Value {
    let fresh = || {
        let mut i = mk();
        for _ in 0..off {
            i.lookahead(1);
            i.skip();
        }
        i
    };
    let cn = |c: char| cname(c);
    let mut i = fresh();
    i.lookahead(4);
    let peek: Vec<String> = (0..4).map(|k| cn(i.peek_nth(k))).collect();
    // the comparison helpers, asked about the characters that are there (never about the padding)
    let (c0, c1, c2) = (i.peek_nth(0), i.peek_nth(1), i.peek_nth(2));
    let first_agree = i.peek() == c0
        && (c0 == '\0' || i.next_char_is(c0))
        && (c1 == '\0' || i.nth_char_is(1, c1))
        && (c0 == '\0' || c1 == '\0' || i.next_2_are(c0, c1))
        && (c0 == '\0' || c1 == '\0' || c2 == '\0' || i.next_3_are(c0, c1, c2))
        && (c0 == 'z' || !i.next_char_is('z'));
    let docind = json!([b2s(i.next_is_document_indicator()), b2s(i.next_is_document_start()), b2s(i.next_is_document_end())]);
    let mut i = fresh();
    i.lookahead(2);
    let cp = if canplain { json!([b2s(i.next_can_be_plain_scalar(false)), b2s(i.next_can_be_plain_scalar(true))]) } else { json!(["skip", "skip"]) };
    let mut i = fresh();
    i.lookahead(1);
    let cls = json!([b2s(i.next_is_blank_or_break()), b2s(i.next_is_blank_or_breakz()), b2s(i.next_is_blank()), b2s(i.next_is_break()), b2s(i.next_is_breakz()), b2s(i.next_is_z()), b2s(i.next_is_flow()), b2s(i.next_is_digit()), b2s(i.next_is_alpha())]);
    let mut i = fresh();
    let look = cn(i.look_ch());
    let mut i = fresh();
    let raw = i.raw_read_non_breakz_ch().map(cn).unwrap_or_default();
    let mut after = vec![];
    let mut sw = vec![];
    for tabs in [SkipTabs::No, SkipTabs::Yes] {
        let mut i = fresh();
        let (n, r) = i.skip_ws_to_eol(tabs);
        sw.push(match r {
            Ok(x) => json!([n, "f", b2s(x.found_tabs()), b2s(x.has_valid_yaml_ws())]),
            Err(_) => json!([n, "t", "f", "f"]),
        });
        after.push(cn(i.look_ch()));
    }
    let mut i = fresh();
    let nonbreakz = i.skip_while_non_breakz();
    after.push(cn(i.look_ch()));
    let mut i = fresh();
    let blank = i.skip_while_blank();
    after.push(cn(i.look_ch()));
    let mut i = fresh();
    let mut s = String::new();
    let an = i.fetch_while_is_alpha(&mut s);
    after.push(cn(i.look_ch()));
    json!({"exp": {"peek": peek, "docind": docind, "canplain": cp, "cls": cls, "raw": raw, "skipws": sw, "nonbreakz": nonbreakz, "blank": blank, "alpha": [an, chars(&s)]},
           "own": {"after": after, "look": look, "consistent": first_agree}})
}

/// Documents in which the parser may show a difference found at the method level.
fn embeddings(text: &str, off: usize) -> Vec<String> {
    let cs: Vec<char> = text.chars().collect();
    let rest: String = cs[off.min(cs.len())..].iter().collect();
    let mut v = vec![text.to_string(), rest.clone()];
    for pre in ["#", "a #", "- ", "k: ", "k:", "-", "\"", "'", "[", "[a", "a", "a\n", "\"a\n", "k: |\n b\n", "%FOO ", "%YAML 1.2", "--- ", "? ", "&x ", "!t ", "k: a\n ", "- |\n ", "{a: b", "k: >\n x\n\n",
                "%", "%YAML", "%YAML ", "%TAG !e!", "%TAG !e! ", "%TAG !", "!", "- !", "- !e", "&", "- &", "*", "%F"] {
        for suf in ["", "\n", "\nb: c\n", "\n--- a\n", "]\n", "\"\n", " x\n"] {
            v.push(format!("{pre}{rest}{suf}"));
            if off > 0 {
                v.push(format!("{pre}{text}{suf}"));
            }
        }
    }
    v
}

pub fn run(a: &Args) {
    let mut w = out_file(a.req("out"));
    let mut wr = out_file(a.req("rel"));
    let (mut recs, mut ops, mut drift, mut leads, mut confirmed, mut unconfirmed) = (0usize, 0usize, 0usize, 0usize, 0usize, 0usize);
    let mut samples: Vec<Value> = vec![];
    let mut drift_samples: Vec<Value> = vec![];
    for v in read_replays(a.req("in")) {
        recs += 1;
        let text = text_of(&v["text"]);
        note_input(&text);
        let off = v["off"].as_u64().unwrap() as usize;
        let exp = &v["exp"];
        let canplain = exp["canplain"][0] != json!("skip");
        let r = std::panic::catch_unwind(std::panic::AssertUnwindSafe(|| {
            let s = answers(&|| StrInput::new(&text), off, canplain);
            let b = answers(&|| BufferedInput::new(text.chars()), off, canplain);
            (s, b)
        }));
        let (s, b) = match r {
            Ok(x) => x,
            Err(p) => {
                // a panic below the parser is a lead like any other difference
                (json!({"exp": {"panic": panic_msg(p)}, "own": {}}), json!({"exp": {}, "own": {}}))
            }
        };
        ops += 30;
        let fields = ["peek", "docind", "canplain", "cls", "raw", "skipws", "nonbreakz", "blank", "alpha"];
        let impls_differ = s != b || s["own"]["consistent"] == json!(false) || b["own"]["consistent"] == json!(false);
        if impls_differ {
            leads += 1;
            let which: Vec<&str> = fields.iter().copied().filter(|f| s["exp"][f] != b["exp"][f]).collect();
            let mut found = false;
            for doc in embeddings(&text, off) {
                let x = run_parser(&doc, Backend::Str, Api::Iter);
                let y = run_parser(&doc, Backend::Buf, Api::Iter);
                if x.panic.is_some() != y.panic.is_some() || (x.panic.is_none() && !x.same_observable(&y)) {
                    let yj = if y.panic.is_some() || x.panic.is_some() {
                        json!({"evs": [], "err": [{"msg": format!("PANIC {}", y.panic.clone().or(x.panic.clone()).unwrap()), "at": [0, 0, 0]}]})
                    } else {
                        run_json(&y)
                    };
                    writeln!(wr, "{}", json!({"k": "SAMERUN", "t": doc, "be": "buf", "x": run_json(&x), "y": yj, "lead": {"text": text, "off": off, "ops": which}})).unwrap();
                    found = true;
                    confirmed += 1;
                    break;
                }
            }
            if !found {
                unconfirmed += 1;
            }
            writeln!(w, "{}", json!({"k": "LEAD", "t": text, "off": off, "ops": which, "str": s, "buf": b, "confirmed": found})).unwrap();
        } else {
            let bad: Vec<&str> = fields.iter().copied().filter(|f| s["exp"][f] != exp[*f]).collect();
            if !bad.is_empty() {
                drift += 1;
                if drift_samples.len() < 5 {
                    drift_samples.push(json!({"text": text, "off": off, "op": bad[0], "model": exp[bad[0]], "real": s["exp"][bad[0]]}));
                }
                writeln!(w, "{}", json!({"k": "DRIFT", "t": text, "off": off, "ops": bad, "model": exp, "real": s["exp"]})).unwrap();
            }
        }
        if samples.len() < 3 && recs % 3001 == 7 {
            samples.push(json!({"text": text, "offset": off, "skip_ws_to_eol": exp["skipws"], "document_indicator": exp["docind"]}));
        }
    }
    w.flush().unwrap();
    wr.flush().unwrap();
    println!("{}", json!({"records": recs, "ops": ops, "drift": drift, "leads": leads, "confirmed": confirmed, "unconfirmed": unconfirmed, "samples": samples, "drift_samples": drift_samples}));
}
