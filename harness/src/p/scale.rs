//! C01, "work bounded by a linear function of the input length": scaling scenarios. Each shape is
//! a family of inputs text(n); a child process parses text(n) and reports the CPU time it consumed
//! (/proc/thread-self/schedstat, nanoseconds on-CPU, independent of machine load up to cache
//! effects). The driver measures text(n) (best of 3) and text(F*n) under a time limit; YWork's
//! ScaleOK judges the pair in TLC. Work that is not visible as input operations (token queue
//! walks, simple-key bookkeeping, tag tables) is covered this way.
use crate::{out_file, Args};
use saphyr::{LoadableYamlNode, Yaml};
use saphyr_parser::{BufferedInput, Parser};
use serde_json::{json, Value};
use std::io::Write;

pub const SHAPES: &[&str] = &[
    "flowseq-open", "flowmap-open", "flowseq-nest", "flowmap-nest", "flowpair-nest", "seq-nest", "qkey-nest", "seqmap-nest",
    "seq-flat", "map-flat", "flowseq-wide", "flowmap-wide", "flowpairs-wide", "plain-lines", "dq-lines", "dq-escapes", "sq-long",
    "docs", "docs-bare", "anchors", "aliases", "comments", "blank-lines", "literal-long", "folded-long", "tags", "tag-directives",
    "unclosed-dq", "qkey-flat", "spaces", "tabs", "longkey", "crlf-lines", "flow-multiline", "flow-keys-unresolved",
    // what the loaders build out of aliases (each alias is replaced by a copy): depth and size that the text does not have
    "alias-chain", "alias-doubling",
];

pub fn text(shape: &str, n: usize) -> String {
    let rep = |s: &str| s.repeat(n);
    match shape {
        "flowseq-open" => rep("["),
        "flowmap-open" => rep("{a: "),
        "flowseq-nest" => rep("[") + &rep("]"),
        "flowmap-nest" => rep("{a: ") + "b" + &rep("}"),
        "flowpair-nest" => rep("[a: ") + "b" + &rep("]"),
        "seq-nest" => rep("- ") + "a\n",
        "qkey-nest" => rep("? ") + "a\n",
        "seqmap-nest" => rep("- k: ") + "a\n",
        "seq-flat" => rep("- a\n"),
        "map-flat" => (0..n).map(|i| format!("k{i}: v\n")).collect(),
        "flowseq-wide" => "[".to_string() + &rep("a, ") + "b]\n",
        "flowmap-wide" => "{".to_string() + &(0..n).map(|i| format!("k{i}: v, ")).collect::<String>() + "z: z}\n",
        "flowpairs-wide" => "[".to_string() + &rep("a: b, ") + "c]\n",
        "plain-lines" => "a\n".to_string() + &rep(" b c\n"),
        "dq-lines" => "\"a\n".to_string() + &rep(" b c\n") + "\"\n",
        "dq-escapes" => "\"".to_string() + &rep("\\x41\\u00e9\\n\\\\") + "\"\n",
        "sq-long" => "'".to_string() + &rep("it''s ") + "'\n",
        "docs" => rep("--- a\n"),
        "docs-bare" => rep("a\n...\n"),
        "anchors" => (0..n).map(|i| format!("- &a{i} v\n")).collect(),
        "aliases" => "- &a v\n".to_string() + &rep("- *a\n"),
        "comments" => "a: b\n".to_string() + &rep("# comment\n") + "c: d\n",
        "blank-lines" => "a: b\n".to_string() + &rep("\n") + "c: d\n",
        "literal-long" => "k: |\n".to_string() + &rep("  line\n"),
        "folded-long" => "k: >\n".to_string() + &rep("  word\n\n   more\n"),
        "tags" => rep("- !t v\n"),
        "tag-directives" => (0..n).map(|i| format!("%TAG !e{i}! tag:e{i}:\n")).collect::<String>() + "--- a\n",
        "unclosed-dq" => "\"".to_string() + &rep("a\n "),
        "qkey-flat" => rep("? a\n: b\n"),
        "spaces" => "a".to_string() + &rep(" ") + "b\n",
        "tabs" => "a: b".to_string() + &rep("\t") + "\n",
        "longkey" => rep("k") + ": v\n",
        "crlf-lines" => rep("- a\r\n"),
        "flow-multiline" => "[\n".to_string() + &rep("  a,\n") + "  b\n]\n",
        "flow-keys-unresolved" => "[".to_string() + &rep("\"a\" ,") + "\"b\"]\n",
        // entry i holds a copy of entry i - 1: the loaded tree is nested n deep, the text one level
        "alias-chain" => (0..n).map(|i| if i == 0 { "- &a0 [x]\n".to_string() } else { format!("- &a{i} [*a{}]\n", i - 1) }).collect(),
        // entry i holds two copies of entry i - 1: 2^i leaves. The parameter only selects 10 levels (small) or 19 levels
        // (large): twice the text, 512 times the tree
        "alias-doubling" => {
            let levels = if n < 100_000 { 10 } else { 19 };
            (0..levels).map(|i| if i == 0 { "- &a0 [x]\n".to_string() } else { format!("- &a{i} [*a{}, *a{}]\n", i - 1, i - 1) }).collect()
        }
        _ => String::new(),
    }
}

fn cpu_ns() -> u64 {
    std::fs::read_to_string("/proc/thread-self/schedstat").ok().and_then(|s| s.split_whitespace().next().and_then(|x| x.parse().ok())).unwrap_or(0)
}

/// One measurement in this process: prints {"cpu_ns", "len", "outcome"}.
pub fn child(a: &Args) {
    let shape = a.req("shape");
    let n = a.num("n", 1);
    let api = a.req("api");
    let t = text(shape, n);
    let wall = std::time::Instant::now();
    let c0 = cpu_ns();
    let outcome = match api {
        "pull" => {
            let mut evs = 0usize;
            let mut err = false;
            for e in Parser::new_from_str(&t) {
                match e {
                    Ok(_) => evs += 1,
                    Err(_) => {
                        err = true;
                        break;
                    }
                }
            }
            json!({"events": evs, "err": err})
        }
        "pull-iter" => {
            let mut evs = 0usize;
            let mut err = false;
            for e in Parser::new(BufferedInput::new(t.chars())) {
                match e {
                    Ok(_) => evs += 1,
                    Err(_) => {
                        err = true;
                        break;
                    }
                }
            }
            json!({"events": evs, "err": err})
        }
        _ => match Yaml::load_from_str(&t) {
            Ok(d) => {
                let k = d.len();
                drop(d);
                json!({"docs": k, "err": false})
            }
            Err(_) => json!({"err": true}),
        },
    };
    let c1 = cpu_ns();
    let cpu = if c1 > c0 { c1 - c0 } else { wall.elapsed().as_nanos() as u64 };
    println!("{}", json!({"shape": shape, "n": n, "api": api, "len": t.chars().count(), "cpu_ns": cpu, "outcome": outcome}));
}

fn measure(exe: &std::path::Path, shape: &str, n: usize, api: &str, limit_ms: u64) -> Value {
    // the child is killed by `timeout` when it exceeds the limit (exit 124)
    let o = std::process::Command::new("timeout")
        .arg(format!("{}.{:03}", limit_ms / 1000, limit_ms % 1000))
        .arg(exe)
        .args(["scale-child", "--shape", shape, "--n", &n.to_string(), "--api", api])
        .output();
    match o {
        Ok(o) => {
            let line = String::from_utf8_lossy(&o.stdout).lines().find(|l| l.starts_with('{')).map(|l| l.to_string());
            match line.and_then(|l| serde_json::from_str::<Value>(&l).ok()) {
                Some(v) => v,
                None => json!({"shape": shape, "n": n, "api": api, "timed_out": o.status.code() == Some(124), "died": o.status.code() != Some(124), "code": o.status.code()}),
            }
        }
        Err(e) => json!({"shape": shape, "n": n, "api": api, "died": true, "spawn_error": e.to_string()}),
    }
}

pub fn run(a: &Args) {
    let base = a.num("base", 20000);
    let factor = a.num("factor", 16);
    let only = a.get("shapes").map(|s| s.split(',').map(|x| x.to_string()).collect::<Vec<_>>());
    let mut w = out_file(a.req("out"));
    let exe = std::env::current_exe().unwrap();
    let apis = ["pull", "pull-iter", "load"];
    let mut jobs = vec![];
    for s in SHAPES {
        if let Some(o) = &only {
            if !o.iter().any(|x| x == s) {
                continue;
            }
        }
        for api in apis {
            jobs.push((s.to_string(), api.to_string()));
        }
    }
    // few workers: the measurement is CPU time, but caches are shared
    let workers = a.num("workers", 4);
    let chunks: Vec<Vec<(String, String)>> = (0..workers).map(|k| jobs.iter().skip(k).step_by(workers).cloned().collect()).collect();
    let results: Vec<Value> = std::thread::scope(|sc| {
        let hs: Vec<_> = chunks
            .into_iter()
            .map(|ch| {
                let exe = exe.clone();
                sc.spawn(move || {
                    ch.into_iter()
                        .map(|(s, api)| {
                            // small: best of 3
                            let mut small: Option<Value> = None;
                            for _ in 0..3 {
                                let m = measure(&exe, &s, base, &api, 60_000);
                                let better = match (&small, m["cpu_ns"].as_u64()) {
                                    (None, _) => true,
                                    (Some(b), Some(c)) => b["cpu_ns"].as_u64().map_or(true, |bc| c < bc),
                                    _ => false,
                                };
                                if better {
                                    small = Some(m);
                                }
                            }
                            let small = small.unwrap();
                            let t1 = small["cpu_ns"].as_u64().unwrap_or(0);
                            // large: the wall-clock limit is a multiple of what the judge allows, so a run that would be judged a
                            // violation anyway is cut short; a timed-out run is repeated once with twice the limit (machine load); the limit is capped at a minute
                            let limit_ms = ((t1 / 1_000_000) * (factor as u64) * 16 + 3000).min(60_000);
                            let mut large = measure(&exe, &s, base * factor, &api, limit_ms);
                            if large["timed_out"] == json!(true) {
                                large = measure(&exe, &s, base * factor, &api, limit_ms * 2);
                            } else {
                                // keep the better of two (noise only ever adds time)
                                let again = measure(&exe, &s, base * factor, &api, limit_ms);
                                if let (Some(x), Some(y)) = (large["cpu_ns"].as_u64(), again["cpu_ns"].as_u64()) {
                                    if y < x {
                                        large = again;
                                    }
                                }
                            }
                            let len2 = if large["len"].is_u64() { large["len"].as_u64().unwrap() } else { text(&s, base * factor).chars().count() as u64 };
                            json!({"k": "SCALE", "shape": s, "api": api, "n1": base, "n2": base * factor,
                                   "len1": small["len"].as_u64().unwrap_or(0), "t1us": t1 / 1000,
                                   "len2": len2, "t2us": large["cpu_ns"].as_u64().unwrap_or(0) / 1000,
                                   "timed_out": large["timed_out"] == json!(true), "died": large["died"] == json!(true) || !small["cpu_ns"].is_u64(),
                                   "limit_ms": limit_ms})
                        })
                        .collect::<Vec<_>>()
                })
            })
            .collect();
        hs.into_iter().flat_map(|h| h.join().unwrap()).collect()
    });
    let mut worst = json!(null);
    let mut worst_ratio = 0.0f64;
    for r in &results {
        writeln!(w, "{r}").unwrap();
        let (t1, t2, l1, l2) = (r["t1us"].as_f64().unwrap_or(0.0), r["t2us"].as_f64().unwrap_or(0.0), r["len1"].as_f64().unwrap_or(1.0), r["len2"].as_f64().unwrap_or(1.0));
        if t1 > 0.0 && l2 > 0.0 {
            let ratio = (t2 / t1) / (l2 / l1);
            if ratio > worst_ratio {
                worst_ratio = ratio;
                worst = json!({"shape": r["shape"], "api": r["api"], "growth_per_length_growth": ratio});
            }
        }
    }
    w.flush().unwrap();
    println!("{}", json!({"scenarios": results.len(), "worst": worst}));
}
