//! C09 — emit, reload, re-emit (recording only).
//!
//! `c09-replay`  spec -> impl: every REPLAY line of MC_Emitter holds one value tree, and for each
//!               of the four emitter settings the text the implementation-shaped model YEmitter
//!               predicts. The outcome the specification assigns to every case is the same one:
//!               emission succeeds, the text reloads without error as exactly one document whose
//!               tree is the original, and emitting that tree gives the same text. The real code
//!               is run and its outcome compared for exact equality with that outcome (rule 1 of
//!               CONTRIBUTING.md); every case that differs in any field, plus one in `--sample`
//!               of the agreeing ones, is written as an NDJSON record for Trace_RoundTrip to judge.
//!               A difference between the predicted and the real text is drift (reported, never a
//!               violation).
//! `c09-random`  impl -> spec: seeded random longer Unicode / YAML-token strings, boundary-length
//!               strings and random trees around them, all four settings, every run recorded.
//! `c09-one`     one tree given on the command line (replay of a reported case).
use crate::{out_file, Args};
use saphyr::{LoadableYamlNode, Mapping, Scalar, Yaml, YamlEmitter};
use serde_json::{json, Value};
use std::io::{BufRead, Write};
use std::panic::{catch_unwind, AssertUnwindSafe};
use vh::nodes::Proj;
use vh::*;

pub fn dispatch(cmd: &str, a: &Args) -> bool {
    match cmd {
        "c09-replay" => replay(a),
        "c09-random" => random(a),
        "c09-one" => one(a),
        _ => return false,
    }
    true
}

/// Text from the model: a JSON string, or an array of chunks (a chunk is a character in the naming
/// of YChars — `<uN>` for non-ASCII — or a literal multi-character ASCII string).
fn chunks(v: &Value) -> String {
    match v {
        Value::String(s) => s.clone(),
        Value::Array(a) => {
            let mut s = String::new();
            for c in a {
                let c = c.as_str().unwrap_or("");
                if c.starts_with("<u") && c.ends_with('>') && c.len() > 3 {
                    s.push(unname(c));
                } else {
                    s.push_str(c);
                }
            }
            s
        }
        _ => String::new(),
    }
}

/// Build the real node from the model's JSON tree. Integers are decimal digit texts, floats are
/// symbolic names that Rust's own `parse::<f64>` maps to a value (TLC has no reals).
fn build(v: &Value) -> Yaml<'static> {
    match v["t"].as_str().unwrap_or("") {
        "null" => Yaml::Value(Scalar::Null),
        "bool" => Yaml::Value(Scalar::Boolean(v["v"].as_bool().unwrap_or(false))),
        "int" => Yaml::Value(Scalar::Integer(chunks(&v["v"]).parse::<i64>().expect("int text"))),
        "float" => match v["bits"].as_str() {
            // the projection shape (replay of a recorded case)
            Some(b) => Yaml::Value(Scalar::FloatingPoint(f64::from_bits(u64::from_str_radix(b, 16).expect("float bits")).into())),
            None => Yaml::Value(Scalar::FloatingPoint(chunks(&v["v"]).parse::<f64>().expect("float name").into())),
        },
        "str" => Yaml::Value(Scalar::String(chunks(&v["v"]).into())),
        "seq" => Yaml::Sequence(v["v"].as_array().map(|a| a.iter().map(build).collect()).unwrap_or_default()),
        "map" => {
            let mut m = Mapping::new();
            for kv in v["v"].as_array().cloned().unwrap_or_default() {
                m.insert(build(&kv[0]), build(&kv[1]));
            }
            Yaml::Mapping(m)
        }
        t => panic!("unknown node type {t}"),
    }
}

fn emit(y: &Yaml, compact: bool, multiline: bool) -> (String, String) {
    let r = catch_unwind(AssertUnwindSafe(|| {
        let mut out = String::new();
        let res = {
            let mut e = YamlEmitter::new(&mut out);
            e.compact(compact);
            e.multiline_strings(multiline);
            e.dump(y)
        };
        (res.is_ok(), out)
    }));
    match r {
        Ok((true, t)) => ("ok".into(), t),
        Ok((false, t)) => ("err".into(), t),
        Err(p) => (format!("panic: {}", panic_msg(p)), String::new()),
    }
}

/// The distinct characters of the text outside printable ASCII and LF (a projection; whether they
/// are allowed in a YAML stream is decided by the judge).
fn odd_codes(t: &str) -> Vec<u32> {
    let mut v: Vec<u32> = t.chars().filter(|c| !(' '..='~').contains(c) && *c != '\n').map(|c| c as u32).collect();
    v.sort();
    v.dedup();
    v
}

/// One real execution: emit, reload, re-emit. Pure recording.
fn run_case(y: &Yaml, compact: bool, multiline: bool) -> Value {
    let tree = y.proj(false);
    note_input(&tree.to_string());          // (progress for the stall watchdog: the tree about to be emitted)
    let (e1, text) = emit(y, compact, multiline);
    let mut rec = json!({"k": "RT", "compact": compact, "multiline": multiline, "tree": tree, "emit": e1, "text": text,
                         "load": "skipped", "ndocs": 0, "doc": {"t": "none"}, "emit2": "skipped", "text2": "", "odd": odd_codes(&text)});
    if rec["emit"] != "ok" {
        return rec;
    }
    note_input(&text);
    let l = catch_unwind(AssertUnwindSafe(|| Yaml::load_from_str(&text)));
    match l {
        Err(p) => rec["load"] = json!(format!("panic: {}", panic_msg(p))),
        Ok(Err(e)) => rec["load"] = json!(format!("err: {e}")),
        Ok(Ok(docs)) => {
            rec["load"] = json!("ok");
            rec["ndocs"] = json!(docs.len());
            if let Some(d) = docs.first() {
                rec["doc"] = d.proj(false);
                let (e2, t2) = emit(d, compact, multiline);
                rec["emit2"] = json!(e2);
                rec["text2"] = json!(t2);
            }
        }
    }
    rec
}

/// Exact comparison with the outcome the specification assigns to every case.
fn as_specified(r: &Value) -> bool {
    r["emit"] == "ok" && r["load"] == "ok" && r["ndocs"] == 1 && r["doc"] == r["tree"] && r["emit2"] == "ok" && r["text2"] == r["text"] && r["odd"].as_array().map(|a| a.is_empty()) == Some(true)
}

fn setting_name(c: bool, m: bool) -> String {
    format!("c{}m{}", c as u8, m as u8)
}

struct Sink {
    w: std::io::BufWriter<std::fs::File>,
    written: usize,
    runs: usize,
    agree: usize,
    differ: usize,
    drift: usize,
    drift_samples: Vec<Value>,
    samples: Vec<Value>,
    sample_every: usize,
    /// distinct (settings, emitted text) pairs seen (measured coverage, not a verdict)
    texts: std::collections::HashSet<u64>,
    sample_shapes: std::collections::HashSet<String>,
}
impl Sink {
    fn put(&mut self, mut rec: Value, origin: &str, pos: &str, focus: &Value, force: bool) {
        self.runs += 1;
        {
            use std::hash::{Hash, Hasher};
            let mut h = std::collections::hash_map::DefaultHasher::new();
            (rec["compact"].as_bool(), rec["multiline"].as_bool(), rec["text"].as_str()).hash(&mut h);
            self.texts.insert(h.finish());
        }
        let same = as_specified(&rec);
        if same {
            self.agree += 1;
        } else {
            self.differ += 1;
        }
        if !same || force || self.agree % self.sample_every == 1 || self.sample_every <= 1 {
            rec["origin"] = json!(origin);
            rec["pos"] = json!(pos);
            rec["focus"] = focus.clone();
            rec["cfg"] = json!(setting_name(rec["compact"].as_bool().unwrap(), rec["multiline"].as_bool().unwrap()));
            // evidence samples: one agreeing case per (settings, shape of the emitted text)
            if same && self.samples.len() < 12 && rec["text"].as_str().map(|t| t.len() > 8 && t.len() < 60) == Some(true) {
                let t = rec["text"].as_str().unwrap_or("");
                let shape = format!("{}{}{}{}{}", rec["cfg"].as_str().unwrap_or(""), t.contains('|'), t.contains('"'), t.contains('?'), t.contains("\n  "));
                if !self.sample_shapes.contains(&shape) {
                    self.sample_shapes.insert(shape);
                    self.samples.push(json!({"origin": origin, "pos": pos, "cfg": rec["cfg"], "tree": rec["tree"], "text": rec["text"]}));
                }
            }
            writeln!(self.w, "{rec}").unwrap();
            self.written += 1;
        }
    }
}

fn summary(s: &mut Sink, lines: usize, extra: Value) {
    s.w.flush().unwrap();
    println!("{}", json!({"lines": lines, "runs": s.runs, "agree": s.agree, "differ": s.differ, "written": s.written, "drift": s.drift, "distinct_texts": s.texts.len(),
                          "drift_samples": s.drift_samples, "samples": s.samples, "extra": extra}));
}

fn new_sink(a: &Args) -> Sink {
    Sink { w: out_file(a.req("out")), written: 0, runs: 0, agree: 0, differ: 0, drift: 0, drift_samples: vec![], samples: vec![], sample_every: a.num("sample", 1), texts: Default::default(), sample_shapes: Default::default() }
}

fn replay(a: &Args) {
    let f = std::fs::File::open(a.req("in")).unwrap_or_else(|e| {
        eprintln!("cannot open {}: {e}", a.req("in"));
        std::process::exit(2)
    });
    let mut s = new_sink(a);
    let mut lines = 0usize;
    let mut lemma = 0usize;
    let mut lemma_pinned = 0usize;
    let mut dup = 0usize;
    let mut seen = std::collections::HashSet::<u64>::new();
    let mut styles = std::collections::BTreeMap::<String, usize>::new();
    for l in std::io::BufReader::new(f).lines() {
        let l = l.unwrap();
        let Some(v) = parse_replay_line(&l) else { continue };
        {
            // the same tree can be generated twice (a word symbol equal to a sequence of character
            // symbols; random tapes): replay it once
            use std::hash::{Hash, Hasher};
            let mut h = std::collections::hash_map::DefaultHasher::new();
            (v["pos"].as_str(), v["tree"].to_string()).hash(&mut h);
            if !seen.insert(h.finish()) {
                dup += 1;
                continue;
            }
        }
        lines += 1;
        let y = build(&v["tree"]);
        let origin = v["origin"].as_str().unwrap_or("model");
        let pos = v["pos"].as_str().unwrap_or("");
        // the focus scalar is reported in the projection shape (what the key of a violation shows)
        let focus = if v["focus"].is_object() { build(&v["focus"]).proj(false) } else { json!({"t": "none"}) };
        if v["lemma"] == false {
            lemma += 1;
        }
        if v["lemmaPinned"] == false {
            lemma_pinned += 1;
        }
        for c in v["cases"].as_array().cloned().unwrap_or_default() {
            let (compact, multiline) = (c["c"].as_bool().unwrap_or(true), c["m"].as_bool().unwrap_or(false));
            let rec = run_case(&y, compact, multiline);
            *styles.entry(c["style"].as_str().unwrap_or("").to_string()).or_default() += 1;
            let pred = chunks(&c["text"]);
            if !pred.contains("<?>") && rec["text"] != json!(pred) {
                s.drift += 1;
                if s.drift_samples.len() < 5 {
                    s.drift_samples.push(json!({"origin": origin, "pos": pos, "cfg": setting_name(compact, multiline), "tree": rec["tree"], "style": c["style"], "model_text": pred, "real_text": rec["text"]}));
                }
            }
            s.put(rec, origin, pos, &focus, false);
        }
    }
    summary(&mut s, lines, json!({"lemma_leads": lemma, "lemma_leads_pinned": lemma_pinned, "duplicates": dup, "styles": styles}));
}

fn one(a: &Args) {
    let v: Value = serde_json::from_str(a.req("tree")).expect("--tree JSON");
    let y = build(&v);
    for (c, m) in [(true, false), (true, true), (false, false), (false, true)] {
        println!("{}", run_case(&y, c, m));
    }
}

// ---------------------------------------------------------------------------------------------
// random part (raw generators only)
// ---------------------------------------------------------------------------------------------
const TOKENS: &[&str] = &[
    "a", "b", "key", "x y", " ", "  ", "\n", "\n\n", "\t", "-", "- ", "--", "---", "...", ":", ": ", " :", "?", "? ", "#", " #", "# ", "[", "]", "{", "}", ",", ", ", "&", "*", "!", "!!", "|", ">", "|-", "'", "\"", "%", "@", "`", "\\", "\\n", "\\x41", "=", "<<", "~", "null", "true", "false", "yes", "no", "on", "off", "0", "1", "-1", "+1", "0x1f", "0o17", "1.5", "1e3", ".inf", "-.inf", "+.inf", ".nan", "inf", "nan", ".5", "1.", "1_000", "2001-12-14", "0b1", "\r", "\r\n",
    "é", "ß", "ü", "日本", "語", "😀", "\u{85}", "\u{a0}", "\u{2028}", "\u{2029}", "\u{feff}", "\u{fffd}", "\u{fffe}", "\u{ffff}", "\u{d7ff}", "\u{e000}", "\u{10000}", "\u{10ffff}", "\u{7f}", "\u{80}", "\u{9f}", "\u{0}", "\u{1}", "\u{7}", "\u{8}", "\u{b}", "\u{c}", "\u{e}", "\u{1b}", "\u{1f}", "\u{200b}", "\u{300}", "\u{202e}",
];

fn rand_char(rng: &mut Rng) -> char {
    loop {
        let n = match rng.below(10) {
            0..=3 => 0x20 + rng.below(0x5f) as u32,
            4 => rng.below(0x20) as u32,
            5 => 0x7f + rng.below(0x81) as u32,
            6 => 0x100 + rng.below(0x2f00) as u32,
            7 => 0x3000 + rng.below(0xd000) as u32,
            8 => 0x10000 + rng.below(0x100000) as u32,
            _ => [0x9, 0xa, 0xd, 0x85, 0xa0, 0x2028, 0x2029, 0xd7ff, 0xe000, 0xfeff, 0xfffd, 0xfffe, 0xffff, 0x10000, 0x10ffff, 0x7f, 0x20][rng.below(17)],
        };
        if let Some(c) = char::from_u32(n) {
            return c;
        }
    }
}

fn rand_string(rng: &mut Rng, max: usize) -> String {
    let mut s = String::new();
    let n = rng.below(max + 1);
    match rng.below(4) {
        0 => {
            for _ in 0..n {
                s.push(rand_char(rng));
            }
        }
        1 => {
            for _ in 0..n {
                s.push_str(TOKENS[rng.below(TOKENS.len())]);
            }
        }
        2 => {
            // lines of words (the natural customers of multiline_strings)
            for _ in 0..n {
                match rng.below(8) {
                    0 => s.push('\n'),
                    1 => s.push(' '),
                    2 => s.push_str(TOKENS[rng.below(TOKENS.len())]),
                    3 => s.push_str("\n "),
                    _ => {
                        s.push_str(["lorem", "ipsum", "k: v", "- i", "# c", "end"][rng.below(6)]);
                        s.push(if rng.chance(1, 2) { '\n' } else { ' ' });
                    }
                }
            }
        }
        _ => {
            for _ in 0..n {
                if rng.chance(1, 2) {
                    s.push(rand_char(rng));
                } else {
                    s.push_str(TOKENS[rng.below(TOKENS.len())]);
                }
            }
        }
    }
    s
}

fn st(s: &str) -> Yaml<'static> {
    Yaml::Value(Scalar::String(s.to_string().into()))
}
fn map_of(pairs: Vec<(Yaml<'static>, Yaml<'static>)>) -> Yaml<'static> {
    let mut m = Mapping::new();
    for (k, v) in pairs {
        m.insert(k, v);
    }
    Yaml::Mapping(m)
}

/// The four positions of the property, at nesting depth 1 and (variant 1) below two more levels.
fn place(s: &str, pos: &str, deep: bool) -> Yaml<'static> {
    let x = st(s);
    let inner = match pos {
        "root" => x,
        "item" => Yaml::Sequence(vec![st("p"), x, st("z")]),
        "key" => map_of(vec![(x, st("v")), (st("k2"), st("z"))]),
        _ => map_of(vec![(st("k"), x), (st("k2"), st("z"))]),
    };
    if deep && pos != "root" {
        map_of(vec![(st("o"), Yaml::Sequence(vec![inner, st("t")]))])
    } else {
        inner
    }
}

fn rand_tree(rng: &mut Rng, depth: usize, pool: &[String]) -> Yaml<'static> {
    let leaf = depth >= 5 || rng.chance(2, 5);
    if leaf {
        return match rng.below(12) {
            0 => Yaml::Value(Scalar::Null),
            1 => Yaml::Value(Scalar::Boolean(rng.chance(1, 2))),
            2 => Yaml::Value(Scalar::Integer([0, -1, 1, i64::MIN, i64::MAX, 42, -9000][rng.below(7)])),
            3 => Yaml::Value(Scalar::FloatingPoint([1.0, -0.0, 0.0, 0.1, 1e16, 1e300, 5e-324, 123456789.125, -2.5e-7, 3.0e22, f64::INFINITY, f64::NEG_INFINITY, f64::NAN][rng.below(13)].into())),
            4 => Yaml::Sequence(vec![]),
            5 => Yaml::Mapping(Mapping::new()),
            _ => st(&pool[rng.below(pool.len())]),
        };
    }
    let n = 1 + rng.below(3);
    if rng.chance(1, 2) {
        Yaml::Sequence((0..n).map(|_| rand_tree(rng, depth + 1, pool)).collect())
    } else {
        let mut m = Mapping::new();
        for _ in 0..n {
            let k = if rng.chance(1, 4) { rand_tree(rng, depth + 1, pool) } else { st(&pool[rng.below(pool.len())]) };
            let v = rand_tree(rng, depth + 1, pool);
            m.insert(k, v); // a repeated key replaces the earlier pair: keys stay unique
        }
        Yaml::Mapping(m)
    }
}

const ALL_SETTINGS: [(bool, bool); 4] = [(true, false), (true, true), (false, false), (false, true)];

fn random(a: &Args) {
    let mut rng = Rng::new(seed_from_env() ^ 0x6330395f72616e64);
    let n = a.num("n", 5000);
    let ntrees = a.num("trees", 2000);
    let mut s = new_sink(a);
    let mut pool: Vec<String> = vec![];
    let mut cases = 0usize;
    for i in 0..n {
        let max = if i % 50 == 0 { 200 } else { 24 };
        let x = rand_string(&mut rng, max);
        let focus = st(&x).proj(false);
        for pos in ["root", "item", "key", "value"] {
            for deep in [false, true] {
                if deep && (pos == "root" || i % 4 != 0) {
                    continue;
                }
                let y = place(&x, pos, deep);
                let pname = if deep { format!("deep-{pos}") } else { pos.to_string() };
                for (c, m) in ALL_SETTINGS {
                    s.put(run_case(&y, c, m), "random", &pname, &focus, false);
                    cases += 1;
                }
            }
        }
        if pool.len() < 4000 {
            pool.push(x);
        }
    }
    // boundary lengths around the 1024-character limit of implicit keys and the scanner's buffers
    for len in [15usize, 16, 17, 63, 64, 65, 127, 128, 129, 1022, 1023, 1024, 1025, 1026, 2050] {
        for fill in ["a", "ab ", "é", "x\n"] {
            let x: String = fill.chars().cycle().take(len).collect();
            let x = x.trim_end_matches(' ').to_string();
            let focus = json!({"t": "str", "len": x.chars().count(), "fill": fill});
            for pos in ["root", "item", "key", "value"] {
                let y = place(&x, pos, false);
                for (c, m) in ALL_SETTINGS {
                    s.put(run_case(&y, c, m), "boundary", pos, &focus, false);
                    cases += 1;
                }
            }
        }
    }
    // strings that read as core-schema literals, near misses of them, and number-like strings of every length up to
    // far beyond what a number printer writes (the boundary texts of C08 and long digit runs)
    let mut typelike: Vec<String> = super::c08::boundary_texts(seed_from_env(), false).into_iter().map(|x| x.1).filter(|t| t.len() <= 64).collect();
    for n in [20usize, 31, 32, 33, 34, 40, 64, 65, 100, 129, 309, 400] {
        let d: String = "1234567890".chars().cycle().take(n).collect();
        for t in [d.clone(), format!("-{d}"), format!("+{d}"), format!("0.{d}"), format!("{d}.5"), format!(".{d}"), format!("{d}e3"), format!("1e{}1", "0".repeat(n)), format!("0x{}", "f".repeat(n)), format!("0o{}", "7".repeat(n)),
                  format!("{}1", "0".repeat(n)), format!("{d}_"), format!("{d}a")] {
            typelike.push(t);
        }
    }
    // lines that look like document markers (followed by nothing, a blank, a tab, text), first or later line
    for m in ["---", "..."] {
        for after in ["", " ", "\t", "x", " x", "\tx", " \t"] {
            typelike.push(format!("a\n{m}{after}"));
            typelike.push(format!("{m}{after}\nb"));
            typelike.push(format!("a\n{m}{after}\nb\n"));
            typelike.push(format!("{m}{after}"));
        }
    }
    typelike.push(format!("{}", f64::MAX));
    typelike.push(format!("{}", 1e40f64));
    typelike.push(format!("{}", f64::MIN_POSITIVE));
    typelike.push(format!("{:e}", f64::MAX));
    for (i, x) in typelike.iter().enumerate() {
        let focus = json!({"t": "str", "typelike": x.chars().take(60).collect::<String>(), "len": x.len()});
        for pos in ["root", "item", "key", "value"] {
            let y = place(x, pos, false);
            for (c, m) in ALL_SETTINGS {
                // all settings for a rotating quarter of the texts, the default setting for all
                if (c, m) != ALL_SETTINGS[0] && i % 4 != 0 {
                    continue;
                }
                s.put(run_case(&y, c, m), "typelike", pos, &focus, false);
                cases += 1;
            }
        }
    }
    // deep nesting (the indentation of every level must be written in full): collections with a second entry and a
    // multi-line string at the bottom, 1..72 levels of sequences / mappings / both
    for depth in [1usize, 8, 15, 16, 17, 18, 24, 31, 32, 33, 48, 64, 65, 72] {
        for kind in 0..3 {
            for leaf in [Yaml::Sequence(vec![Yaml::Value(Scalar::Integer(1)), Yaml::Value(Scalar::Integer(2))]), map_of(vec![(st("a"), st("x\ny")), (st("b"), st("z"))]), st("line1\nline2\n")] {
                let mut y = leaf.clone();
                for lvl in 0..depth {
                    y = match (kind, lvl % 2) {
                        (0, _) | (2, 0) => Yaml::Sequence(vec![y, st("t")]),
                        _ => map_of(vec![(st("k"), y), (st("z"), st("w"))]),
                    };
                }
                for (c, m) in ALL_SETTINGS {
                    s.put(run_case(&y, c, m), "deep", "tree", &json!({"t": "none", "depth": depth}), false);
                    cases += 1;
                }
            }
        }
    }
    // floating-point values of every magnitude and digit count (the emitted text must read back as the same value)
    for i in 0..3000 {
        let f = match i % 6 {
            0 => rng.below(1_000_000_000) as f64 / 1000.0 + rng.below(1_000_000) as f64 * 1e-9,
            1 => f64::from_bits(rng.next()),
            2 => (rng.below(1 << 30) as f64) * (rng.below(1 << 30) as f64) / 3.0,
            3 => 1.0 / (1.0 + rng.below(1_000_000) as f64),
            4 => (rng.next() >> 11) as f64 / (1u64 << 53) as f64 * 1e6,
            _ => (rng.below(1_000_000) as f64 + 0.5) * 10f64.powi(rng.below(40) as i32 - 20),
        };
        if !f.is_finite() {
            continue;
        }
        let y = Yaml::Sequence(vec![Yaml::Value(Scalar::FloatingPoint(f.into())), map_of(vec![(Yaml::Value(Scalar::FloatingPoint((-f).into())), st("v"))])]);
        s.put(run_case(&y, true, false), "float", "tree", &json!({"t": "none"}), false);
        cases += 1;
    }
    for _ in 0..ntrees {
        let y = rand_tree(&mut rng, 0, &pool);
        for (c, m) in ALL_SETTINGS {
            s.put(run_case(&y, c, m), "randtree", "tree", &json!({"t": "none"}), false);
            cases += 1;
        }
    }
    summary(&mut s, cases, json!({"strings": n, "trees": ntrees}));
}
