//! C08 — scalar typing follows the core schema. Recording and replay commands.
//!
//! * `c08-replay` (spec -> impl): for every REPLAY line of MC_Schema, call the real scalar
//!   resolution entry points for 5 styles x 10 tags (7 tag classes) and compare each result, for
//!   exact equality, with the outcomes the specification lists in the line: the reference side
//!   (`a`, allowed outcomes -> candidates for a violation) and the implementation-shaped side (`m`,
//!   the prediction of YSchema -> drift). Results of different entry points for the same scalar
//!   are also compared with each other (borrowed = owned).
//! * `c08-record` (impl -> spec): generate boundary texts and random longer texts, run the same
//!   entry points, and write what came back as an NDJSON trace for the judge `Trace_Schema`.
//!
//! No oracle logic lives here: what a text *should* resolve to is decided in TLA+ only. The one
//! computation made on behalf of the specification is `x.parse::<f64>()` on a decimal text the
//! specification names (TLC has no floating point), as stated in the check's assumptions.
use crate::{out_file, Args};
use saphyr::{LoadableYamlNode, MarkedYaml, MarkedYamlOwned, Scalar, ScalarOwned, Yaml, YamlData, YamlDataOwned, YamlLoader, YamlOwned};
use saphyr_parser::{Event, ScalarStyle, Span, SpannedEventReceiver, Tag};
use serde_json::{json, Value};
use std::borrow::Cow;
use std::collections::HashSet;
use std::io::{BufRead, Write};
use vh::*;

// ---------------------------------------------------------------------------------------------
// what the library returned
// ---------------------------------------------------------------------------------------------
#[derive(Clone, Debug, PartialEq, Eq, Hash)]
pub enum Out {
    Null,
    Bool(bool),
    Int(i64),
    /// bit pattern, all NaNs folded into one
    Float(u64),
    Str(String),
    Bad,
    /// anything that is not a scalar value / BadValue (never expected), or a panic
    Other(String),
}

fn fbits(v: f64) -> u64 {
    if v.is_nan() {
        f64::NAN.to_bits()
    } else {
        v.to_bits()
    }
}
fn of_scalar(s: &Scalar) -> Out {
    match s {
        Scalar::Null => Out::Null,
        Scalar::Boolean(b) => Out::Bool(*b),
        Scalar::Integer(i) => Out::Int(*i),
        Scalar::FloatingPoint(f) => Out::Float(fbits(f.into_inner())),
        Scalar::String(s) => Out::Str(s.to_string()),
    }
}
fn of_scalar_owned(s: &ScalarOwned) -> Out {
    match s {
        ScalarOwned::Null => Out::Null,
        ScalarOwned::Boolean(b) => Out::Bool(*b),
        ScalarOwned::Integer(i) => Out::Int(*i),
        ScalarOwned::FloatingPoint(f) => Out::Float(fbits(f.into_inner())),
        ScalarOwned::String(s) => Out::Str(s.clone()),
    }
}
fn of_yaml(y: &Yaml) -> Out {
    match y {
        Yaml::Value(s) => of_scalar(s),
        Yaml::BadValue => Out::Bad,
        o => Out::Other(format!("{o:?}")),
    }
}
fn of_yaml_owned(y: &YamlOwned) -> Out {
    match y {
        YamlOwned::Value(s) => of_scalar_owned(s),
        YamlOwned::BadValue => Out::Bad,
        o => Out::Other(format!("{o:?}")),
    }
}
fn of_data<'a>(y: &YamlData<'a, MarkedYaml<'a>>) -> Out {
    match y {
        YamlData::Value(s) => of_scalar(s),
        YamlData::BadValue => Out::Bad,
        o => Out::Other(format!("{o:?}")),
    }
}
fn of_data_owned(y: &YamlDataOwned<MarkedYamlOwned>) -> Out {
    match y {
        YamlDataOwned::Value(s) => of_scalar_owned(s),
        YamlDataOwned::BadValue => Out::Bad,
        o => Out::Other(format!("{o:?}")),
    }
}

impl Out {
    /// Human-readable form for reports.
    pub fn show(&self) -> String {
        match self {
            Out::Null => "null".into(),
            Out::Bool(b) => format!("bool:{b}"),
            Out::Int(i) => format!("int:{i}"),
            Out::Float(b) => format!("float:{:?}", f64::from_bits(*b)),
            Out::Str(s) => format!("str:{s:?}"),
            Out::Bad => "bad".into(),
            Out::Other(s) => format!("other:{s}"),
        }
    }
    /// Exact comparison with an outcome written by MC_Schema (see the header of that module).
    pub fn is(&self, exp: &str, text: &str) -> bool {
        match self {
            Out::Null => exp == "null",
            Out::Bool(true) => exp == "bool:true",
            Out::Bool(false) => exp == "bool:false",
            Out::Int(i) => exp.strip_prefix("int:").is_some_and(|x| x == i.to_string()),
            Out::Float(b) => exp.strip_prefix("float:").is_some_and(|x| x.parse::<f64>().is_ok_and(|v| fbits(v) == *b)),
            Out::Str(s) => exp == "str" && s == text,
            Out::Bad => exp == "bad",
            Out::Other(_) => false,
        }
    }
    /// Record for the judge (all fields always present).
    pub fn json(&self, text: &str) -> Value {
        let pbits = text.parse::<f64>().map(|v| format!("{:016x}", fbits(v))).unwrap_or_default();
        let mut r = json!({"ty": "", "b": "", "iv": [], "s": [], "fk": "", "fbits": "", "pbits": pbits});
        match self {
            Out::Null => r["ty"] = json!("null"),
            Out::Bool(b) => {
                r["ty"] = json!("bool");
                r["b"] = json!(b.to_string());
            }
            Out::Int(i) => {
                r["ty"] = json!("int");
                r["iv"] = json!(chars(&i.to_string()));
            }
            Out::Float(b) => {
                let v = f64::from_bits(*b);
                r["ty"] = json!("float");
                r["fk"] = json!(if v.is_nan() {
                    "nan"
                } else if v == f64::INFINITY {
                    "inf+"
                } else if v == f64::NEG_INFINITY {
                    "inf-"
                } else {
                    "fin"
                });
                r["fbits"] = json!(format!("{b:016x}"));
            }
            Out::Str(s) => {
                r["ty"] = json!("str");
                r["s"] = json!(chars(s));
            }
            Out::Bad => r["ty"] = json!("bad"),
            Out::Other(s) => {
                r["ty"] = json!("other");
                r["b"] = json!(s.chars().take(120).collect::<String>());
            }
        }
        r
    }
}

// ---------------------------------------------------------------------------------------------
// configurations: styles x tags
// ---------------------------------------------------------------------------------------------
pub const STYLES: [(ScalarStyle, &str); 5] = [
    (ScalarStyle::Plain, "plain"),
    (ScalarStyle::SingleQuoted, "single"),
    (ScalarStyle::DoubleQuoted, "double"),
    (ScalarStyle::Literal, "literal"),
    (ScalarStyle::Folded, "folded"),
];
/// Order of the tag classes in the cells of a REPLAY line (MC_Schema!TagSeq).
pub const CLASSES: [&str; 7] = ["none", "int", "float", "bool", "null", "str", "foreign"];
pub const CORE: &str = "tag:yaml.org,2002:";

pub struct TagCfg {
    pub class: usize,
    /// as written in a document (also the name used in reports)
    pub name: &'static str,
    pub tag: Option<Tag>,
}
pub fn tag_cfgs() -> Vec<TagCfg> {
    let t = |h: &str, s: &str| Some(Tag { handle: h.to_string(), suffix: s.to_string() });
    vec![
        TagCfg { class: 0, name: "", tag: None },
        TagCfg { class: 1, name: "!!int", tag: t(CORE, "int") },
        TagCfg { class: 2, name: "!!float", tag: t(CORE, "float") },
        TagCfg { class: 3, name: "!!bool", tag: t(CORE, "bool") },
        TagCfg { class: 4, name: "!!null", tag: t(CORE, "null") },
        TagCfg { class: 5, name: "!!str", tag: t(CORE, "str") },
        TagCfg { class: 6, name: "!int", tag: t("!", "int") },
        TagCfg { class: 6, name: "!", tag: t("", "!") },
        TagCfg { class: 6, name: "!!binary", tag: t(CORE, "binary") },
        TagCfg { class: 6, name: "!<tag:example.com,2000:float>", tag: t("tag:example.com,2000:", "float") },
        // a prefix that extends the core namespace (as `%TAG !e! tag:yaml.org,2002:app/` gives it), a core suffix in another case
        TagCfg { class: 6, name: "!<tag:yaml.org,2002:app/int>", tag: t("tag:yaml.org,2002:app/", "int") },
        TagCfg { class: 6, name: "!!app/bool", tag: t(CORE, "app/bool") },
        TagCfg { class: 6, name: "!!Float", tag: t(CORE, "Float") },
    ]
}

/// The document that should present `text` as one scalar of the given style and tag.
fn document(text: &str, style: ScalarStyle, tag: &TagCfg) -> String {
    let p = if tag.name.is_empty() { String::new() } else { format!("{} ", tag.name) };
    match style {
        ScalarStyle::Plain => format!("{p}{text}"),
        ScalarStyle::SingleQuoted => format!("{p}'{text}'"),
        ScalarStyle::DoubleQuoted => format!("{p}\"{text}\""),
        ScalarStyle::Literal => format!("--- {p}|-\n  {text}\n"),
        ScalarStyle::Folded => format!("--- {p}>-\n  {text}\n"),
    }
}

/// Binding condition for the `load_from_str` path (not a verdict): the real parser presents the
/// document as exactly one scalar with this text, style and tag.
fn presents(doc: &str, text: &str, style_name: &str, tag: &TagCfg) -> bool {
    let r = run_str(doc);
    if r.err.is_some() || r.panic.is_some() || r.evs.len() != 5 {
        return false;
    }
    let e = &r.evs[2];
    let want = tag.tag.as_ref().map(|t| (t.handle.clone(), t.suffix.clone()));
    e.k == "Scalar" && e.v == text && e.style == style_name && e.tag == want && e.aid == 0
}

fn via_loader<'a, N: LoadableYamlNode<'a>>(text: &'a str, style: ScalarStyle, tag: &Option<Tag>) -> Vec<N> {
    let mut l: YamlLoader<'a, N> = YamlLoader::default();
    l.on_event(Event::StreamStart, Span::default());
    l.on_event(Event::DocumentStart(false), Span::default());
    l.on_event(Event::Scalar(Cow::Borrowed(text), style, 0, tag.clone()), Span::default());
    l.on_event(Event::DocumentEnd, Span::default());
    l.on_event(Event::StreamEnd, Span::default());
    l.into_documents()
}

/// Every entry point through which `text` with this style and tag is resolved to a scalar value.
/// `load`: also through `load_from_str`, when the document presents the scalar as intended.
pub fn resolve_all(text: &str, style: ScalarStyle, style_name: &str, tag: &TagCfg, load: bool, out: &mut Vec<(&'static str, Out)>) {
    out.clear();
    let tg = tag.tag.as_ref();
    let opt = |o: Option<Scalar>| o.map_or(Out::Bad, |s| of_scalar(&s));
    let opto = |o: Option<ScalarOwned>| o.map_or(Out::Bad, |s| of_scalar_owned(&s));
    out.push(("Scalar::parse_from_cow_and_metadata(borrowed)", opt(Scalar::parse_from_cow_and_metadata(Cow::Borrowed(text), style, tg))));
    out.push(("Scalar::parse_from_cow_and_metadata(owned)", opt(Scalar::parse_from_cow_and_metadata(Cow::Owned(text.to_string()), style, tg))));
    out.push(("ScalarOwned::parse_from_cow_and_metadata(borrowed)", opto(ScalarOwned::parse_from_cow_and_metadata(Cow::Borrowed(text), style, tg))));
    out.push(("ScalarOwned::parse_from_cow_and_metadata(owned)", opto(ScalarOwned::parse_from_cow_and_metadata(Cow::Owned(text.to_string()), style, tg))));
    out.push(("Yaml::value_from_cow_and_metadata", of_yaml(&Yaml::value_from_cow_and_metadata(Cow::Borrowed(text), style, tg))));
    out.push(("MarkedYaml::value_from_cow_and_metadata", of_data(&MarkedYaml::value_from_cow_and_metadata(Cow::Borrowed(text), style, tg).data)));
    out.push(("MarkedYamlOwned::value_from_cow_and_metadata", of_data_owned(&MarkedYamlOwned::value_from_cow_and_metadata(Cow::Borrowed(text), style, tg).data)));
    let d: Vec<Yaml> = via_loader(text, style, &tag.tag);
    out.push(("YamlLoader<Yaml>::on_event", if d.len() == 1 { of_yaml(&d[0]) } else { Out::Other(format!("{} documents", d.len())) }));
    let d: Vec<YamlOwned> = via_loader(text, style, &tag.tag);
    out.push(("YamlLoader<YamlOwned>::on_event", if d.len() == 1 { of_yaml_owned(&d[0]) } else { Out::Other(format!("{} documents", d.len())) }));
    // deferred resolution: the unresolved node, then parse_representation (borrowed and owned node types)
    {
        let mut n = Yaml::Representation(Cow::Borrowed(text), style, tag.tag.clone());
        let _ = n.parse_representation();
        out.push(("Yaml::Representation + parse_representation", of_yaml(&n)));
        let mut n = YamlOwned::Representation(text.to_string(), style, tag.tag.clone());
        let _ = n.parse_representation();
        out.push(("YamlOwned::Representation + parse_representation", of_yaml_owned(&n)));
        let mut n = Yaml::Sequence(vec![Yaml::Representation(Cow::Borrowed(text), style, tag.tag.clone())]);
        let _ = n.parse_representation_recursive();
        if let Yaml::Sequence(v) = &n {
            out.push(("Yaml::Representation + parse_representation_recursive", of_yaml(&v[0])));
        }
    }
    if style == ScalarStyle::Plain && tag.tag.is_none() {
        out.push(("Scalar::parse_from_cow(borrowed)", of_scalar(&Scalar::parse_from_cow(Cow::Borrowed(text)))));
        out.push(("Scalar::parse_from_cow(owned)", of_scalar(&Scalar::parse_from_cow(Cow::Owned(text.to_string())))));
        out.push(("ScalarOwned::parse_from_cow(borrowed)", of_scalar_owned(&ScalarOwned::parse_from_cow(Cow::Borrowed(text)))));
        out.push(("ScalarOwned::parse_from_cow(owned)", of_scalar_owned(&ScalarOwned::parse_from_cow(Cow::Owned(text.to_string())))));
        out.push(("Yaml::value_from_str", of_yaml(&Yaml::value_from_str(text))));
        out.push(("Yaml::scalar_from_string", of_yaml(&Yaml::scalar_from_string(text.to_string()))));
        out.push(("MarkedYaml::value_from_str", of_data(&MarkedYaml::value_from_str(text).data)));
        out.push(("MarkedYamlOwned::value_from_str", of_data_owned(&MarkedYamlOwned::value_from_str(text).data)));
    }
    if load {
        let doc = document(text, style, tag);
        if presents(&doc, text, style_name, tag) {
            match Yaml::load_from_str(&doc) {
                Ok(d) if d.len() == 1 => out.push(("Yaml::load_from_str", of_yaml(&d[0]))),
                Ok(d) => out.push(("Yaml::load_from_str", Out::Other(format!("{} documents", d.len())))),
                Err(e) => out.push(("Yaml::load_from_str", Out::Other(format!("error {e}")))),
            }
            match YamlOwned::load_from_str(&doc) {
                Ok(d) if d.len() == 1 => out.push(("YamlOwned::load_from_str", of_yaml_owned(&d[0]))),
                Ok(d) => out.push(("YamlOwned::load_from_str", Out::Other(format!("{} documents", d.len())))),
                Err(e) => out.push(("YamlOwned::load_from_str", Out::Other(format!("error {e}")))),
            }
        }
    }
}

// ---------------------------------------------------------------------------------------------
// spec -> impl
// ---------------------------------------------------------------------------------------------
#[derive(Default)]
struct Part {
    lines: Vec<String>,
    replayed: usize,
    literal: usize,
    evals: usize,
    bad: usize,
    drift: usize,
    loads: usize,
    samples: Vec<Value>,
}

fn replay_one(rec: &Value, tags: &[TagCfg], load: bool, part: &mut Part, buf: &mut Vec<(&'static str, Out)>) {
    let text = text_of(&rec["t"]);
    let a: Vec<&str> = rec["a"].as_str().unwrap_or("").split(';').collect();
    let m: Vec<&str> = rec["m"].as_str().unwrap_or("").split(';').collect();
    if a.len() != 14 || m.len() != 14 {
        part.lines.push(json!({"k": "MALFORMED", "t": text}).to_string());
        return;
    }
    part.replayed += 1;
    if rec["ref"].as_str() != Some("str") {
        part.literal += 1;
    }
    for (style, sname) in STYLES {
        for tag in tags {
            let cell = (if style == ScalarStyle::Plain { 0 } else { 7 }) + tag.class;
            let r = std::panic::catch_unwind(std::panic::AssertUnwindSafe(|| {
                let mut b = vec![];
                resolve_all(&text, style, sname, tag, load, &mut b);
                b
            }));
            match r {
                Ok(b) => *buf = b,
                Err(p) => {
                    part.bad += 1;
                    part.lines.push(json!({"k": "BAD", "kind": "panic", "t": text, "style": sname, "tag": tag.name, "api": "", "got": panic_msg(p), "allowed": a[cell]}).to_string());
                    continue;
                }
            }
            part.evals += buf.len();
            let mut drifted = false;
            for (i, (api, got)) in buf.iter().enumerate() {
                if api.ends_with("load_from_str") {
                    part.loads += 1;
                }
                if !a[cell].split('|').any(|exp| got.is(exp, &text)) {
                    part.bad += 1;
                    if part.lines.len() < 4000 {
                        part.lines.push(json!({"k": "BAD", "kind": "value", "t": text, "style": sname, "tag": tag.name, "api": api, "got": got.show(), "allowed": a[cell]}).to_string());
                    }
                } else if i > 0 && *got != buf[0].1 {
                    part.bad += 1;
                    if part.lines.len() < 4000 {
                        part.lines.push(json!({"k": "BAD", "kind": "owned", "t": text, "style": sname, "tag": tag.name, "api": api, "got": got.show(), "allowed": format!("same as {}: {}", buf[0].0, buf[0].1.show())}).to_string());
                    }
                }
                if !drifted && !got.is(m[cell], &text) {
                    drifted = true;
                    part.drift += 1;
                    if part.lines.len() < 4000 {
                        part.lines.push(json!({"k": "DRIFT", "t": text, "style": sname, "tag": tag.name, "api": api, "got": got.show(), "model": m[cell]}).to_string());
                    }
                }
            }
        }
    }
    if part.samples.len() < 4 && rec["ref"].as_str() != Some("str") && text.len() >= 3 && !part.samples.iter().any(|s| s["ref"] == rec["ref"]) {
        let mut b = vec![];
        resolve_all(&text, ScalarStyle::Plain, "plain", &tags[0], false, &mut b);
        let real = b[0].1.show();
        part.samples.push(json!({"text": text, "ref": rec["ref"], "must": rec["must"], "allowed_plain_untagged": a[0], "allowed_plain_float_tag": a[2], "real": real}));
    }
}

fn replay(a: &Args) {
    let path = a.req("in");
    let f = std::fs::File::open(path).unwrap_or_else(|e| {
        eprintln!("cannot open {path}: {e}");
        std::process::exit(2)
    });
    let mut w = out_file(a.req("out"));
    let load = a.get("noload").is_none();
    let threads = a.num("threads", 6).max(1);
    let chunk = 4000usize;
    let mut lines = std::io::BufReader::new(f).lines();
    let mut total = Part::default();
    let mut written = 0usize;
    loop {
        let mut batch: Vec<Vec<String>> = vec![];
        for _ in 0..threads {
            let mut c = Vec::with_capacity(chunk);
            while c.len() < chunk {
                match lines.next() {
                    Some(l) => {
                        let l = l.unwrap();
                        if l.contains("\"REPLAY\"") {
                            c.push(l);
                        }
                    }
                    None => break,
                }
            }
            if !c.is_empty() {
                batch.push(c);
            }
        }
        if batch.is_empty() {
            break;
        }
        let parts: Vec<Part> = std::thread::scope(|s| {
            let hs: Vec<_> = batch
                .iter()
                .map(|c| {
                    s.spawn(move || {
                        let tags = tag_cfgs();
                        let mut part = Part::default();
                        let mut buf = vec![];
                        for l in c {
                            if let Some(rec) = parse_replay_line(l) {
                                replay_one(&rec, &tags, load, &mut part, &mut buf);
                            }
                        }
                        part
                    })
                })
                .collect();
            hs.into_iter().map(|h| h.join().unwrap()).collect()
        });
        for p in parts {
            total.replayed += p.replayed;
            total.literal += p.literal;
            total.evals += p.evals;
            total.bad += p.bad;
            total.drift += p.drift;
            total.loads += p.loads;
            for s in p.samples {
                if total.samples.len() < 4 && !total.samples.iter().any(|x| x["ref"] == s["ref"]) {
                    total.samples.push(s);
                }
            }
            for l in p.lines {
                if written < 20000 {
                    writeln!(w, "{l}").unwrap();
                    written += 1;
                }
            }
        }
    }
    w.flush().unwrap();
    println!("{}", json!({"replayed": total.replayed, "literal": total.literal, "evals": total.evals, "bad": total.bad, "drift": total.drift, "loads": total.loads, "samples": total.samples}));
}

// ---------------------------------------------------------------------------------------------
// impl -> spec: boundary and random texts
// ---------------------------------------------------------------------------------------------
const ALPHABET: &str = "0123456789+-.eExo_~abcdfABCDFnultrsiNULTRSI";

fn case_variants(w: &str) -> Vec<String> {
    let cs: Vec<char> = w.chars().collect();
    let n = cs.len();
    (0..(1u32 << n))
        .map(|mask| cs.iter().enumerate().map(|(i, c)| if mask >> i & 1 == 1 { c.to_ascii_uppercase() } else { *c }).collect())
        .collect()
}

pub fn boundary_texts(seed: u64, thorough: bool) -> Vec<(String, String)> {
    let mut v: Vec<(String, String)> = vec![];
    let mut put = |o: &str, t: String| v.push((o.to_string(), t));
    // the examples of YAML 1.2.2 section 10.3.2 and classic near misses
    for t in [
        "", "~", "null", "Null", "NULL", "nULL", "true", "True", "TRUE", "false", "False", "FALSE", "0", "-0", "+0", "0o7", "0o14", "0x3A", "0xFF", "-19", "0.", "-0.0", ".5", "+12e03", "-2E+05", "12e03",
        ".inf", "-.Inf", "+.INF", ".NAN", ".nan", ".NaN", "-.nan", "+.nan", ".iNF", ".Nan", "1e5", "1E5", "1e+5", "1e-5", "1e", "e1", "1.e1", ".e1", ".", "..", "...", "-", "+", "--", "---", "1_000", "0b101", "0X1F", "0O17",
        "0x", "0o", "0x_", "0xg", "0o8", "0x1g", "-0x1", "+0x1", "-0o7", "+0o7", "0x-1", "0x+1", "0o-7", "0o+7", "+-1", "++1", "-+1", "--1", "+-1.5", "++1.5", "inf", "Inf", "INF", "+inf", "-inf", "nan", "NaN", "NAN", "-nan",
        "+nan", "infinity", "Infinity", "INFINITY", "-infinity", "+Infinity", "infinit", "yes", "no", "on", "off", "y", "n", "Y", "N", "Yes", "No", "0755", "1:30", "190:20:30", "1,000", " 1", "1 ", "\t1", "1\n", "१२३", "１２３", "٣",
        "1e999", "-1e999", "1e-999", "4.9e-324", "1.7976931348623157e308", "1.7976931348623159e308", "0.1", "0.30000000000000004", "9007199254740993", "123456789012345678", "1.", "+1.", "-.5", "+.5e+5", "00", "007", "-007",
        "0.0", "-0.", "0e0", "0x0", "0o0", "0x00000000000000000001", "0o00000000000000000000000001", "null ", " null", "nulll", "tru", "truee", "~~", "~1", "nil", "None", "none", "NaN0", ".inff", ".in", "-.in", ".infinity",
    ] {
        put("listed", t.to_string());
    }
    // every letter-case variant of the words, with the prefixes that matter
    for w in ["null", "true", "false", "inf", "nan", "infinity"] {
        if w == "infinity" && !thorough {
            continue;
        }
        for c in case_variants(w) {
            for p in ["", "+", "-", ".", "+.", "-."] {
                put("case", format!("{p}{c}"));
            }
        }
    }
    // neighbourhoods of powers of two, in three radices
    let bases: [u128; 7] = [1 << 63, 1 << 64, 1 << 62, 1 << 53, 1 << 32, 1 << 31, 1 << 16];
    for b in bases {
        for d in -3i128..=3 {
            let x = (b as i128 + d) as u128;
            for t in [
                format!("{x}"), format!("+{x}"), format!("-{x}"), format!("0{x}"), format!("-00{x}"), format!("{x}.0"), format!("{x}e0"), format!("-{x}."), format!("{x}_"), format!("+-{x}"), format!("++{x}"),
                format!("0x{x:x}"), format!("0x{x:X}"), format!("0x0{x:x}"), format!("0x-{x:x}"), format!("0x+{x:x}"), format!("-0x{x:x}"), format!("+0x{x:x}"), format!("0X{x:x}"),
                format!("0o{x:o}"), format!("0o00{x:o}"), format!("0o-{x:o}"), format!("0o+{x:o}"), format!("-0o{x:o}"), format!("0O{x:o}"),
            ] {
                put("pow2", t);
            }
        }
    }
    let mut rng = Rng::new(seed ^ 0xc08);
    let digits = |rng: &mut Rng, n: usize| -> String { (0..n).map(|_| (b'0' + rng.below(10) as u8) as char).collect() };
    // long digit strings
    let reps = if thorough { 24 } else { 3 };
    for len in 15..=42 {
        for _ in 0..reps {
            let d = digits(&mut rng, len);
            let k = 1 + rng.below(len - 1);
            for t in [
                d.clone(), format!("-{d}"), format!("+{d}"), format!("{}.{}", &d[..k], &d[k..]), format!("-{}.{}e{}", &d[..k], &d[k..], rng.below(400)), format!("{d}e-{}", rng.below(400)), format!(".{d}"), format!("0x{d}"),
                format!("0o{}", d.replace(['8', '9'], "7")), format!("{}_{}", &d[..k], &d[k..]),
            ] {
                put("long", t);
            }
        }
    }
    // random strings over the schema alphabet, beyond the exhaustive length
    let alpha: Vec<char> = ALPHABET.chars().collect();
    let n_rand = if thorough { 30000 } else { 2500 };
    for _ in 0..n_rand {
        let len = 5 + rng.below(9);
        put("random", (0..len).map(|_| alpha[rng.below(alpha.len())]).collect());
    }
    // random concatenations of literal fragments (hit the literal languages far more often)
    let frags = ["0x", "0o", "+", "-", ".", "e", "E", "_", "~", "inf", "Inf", "INF", "nan", "NaN", "NAN", "null", "Null", "NULL", "true", "True", "TRUE", "false", "False", "FALSE", "a", "f", "F", "0", "00", "e+", "e-", "E+"];
    for _ in 0..n_rand {
        let k = 1 + rng.below(5);
        let mut t = String::new();
        for _ in 0..k {
            if rng.chance(1, 2) {
                let n = 1 + rng.below(4);
                t.push_str(&digits(&mut rng, n));
            } else {
                t.push_str(frags[rng.below(frags.len())]);
            }
        }
        put("frag", t);
    }
    let mut seen = HashSet::new();
    v.retain(|(_, t)| seen.insert(t.clone()));
    v
}

/// Documents whose leaves are the boundary scalars of the core schema (C08's list) in every style and under every
/// tag class, as sequence entries, mapping values and mapping keys.
pub fn typed_family(seed: u64) -> Vec<(String, String)> {
    let mut out = vec![];
    let tags = ["", "!!int ", "!!float ", "!!bool ", "!!null ", "!!str ", "!local ", "!!binary ", "! "];
    let mut rng = Rng::new(seed ^ 0xc07);
    for (i, (o, t)) in boundary_texts(seed, false).into_iter().enumerate() {
        if t.is_empty() || t.chars().any(|c| c == '\n' || c == '\'' || c == '"' || c == '\\' || !c.is_ascii()) || t.len() > 48 {
            continue;
        }
        // all tags for the listed texts, a rotating one for a sample of the rest
        // (the neighbourhoods of the powers of two all take part, untagged or under one tag)
        if i >= 400 && i % 16 != 0 && o != "pow2" {
            continue;
        }
        let ts: Vec<&str> = if i < 400 { tags.to_vec() } else if o == "pow2" { vec![tags[[0, 0, 1, 2][i % 4]]] } else { vec![tags[(i / 16) % tags.len()]] };
        for p in ts {
            let sq = format!("'{t}'");
            let dq = format!("\"{t}\"");
            let q = if rng.chance(1, 2) { &sq } else { &dq };
            out.push(("typed".to_string(), format!("- {p}{t}\n- {p}{q}\n- k: {p}{t}\n  q: {p}{q}\n- {p}{q}: {p}{t}\n- {p}|-\n  {t}\n- {p}>-\n  {t}\n- {p}{t}: {t}\n  z: |-\n    {t}\n")));
            if i % 4 == 0 {
                out.push(("typed".to_string(), format!("{p}{t}: [{p}{q}, {p}{t} ]\n")));
            }
        }
    }
    out
}

fn record(a: &Args) {
    let seed = seed_from_env();
    let texts = boundary_texts(seed, a.thorough());
    let mut w = out_file(a.req("out"));
    let tags = tag_cfgs();
    let mut buf = vec![];
    let (mut evals, mut cells_n, mut loads) = (0usize, 0usize, 0usize);
    let mut samples: Vec<Value> = vec![];
    for (origin, text) in &texts {
        // cells: (style, class, tag, n, distinct results); cells of non-plain styles with the
        // same class and identical results are the same case for the judge and are folded
        let mut cells: Vec<Value> = vec![];
        let mut folded: HashSet<String> = HashSet::new();
        for (style, sname) in STYLES {
            for tag in &tags {
                let r = std::panic::catch_unwind(std::panic::AssertUnwindSafe(|| {
                    let mut b = vec![];
                    resolve_all(text, style, sname, tag, true, &mut b);
                    b
                }));
                match r {
                    Ok(b) => buf = b,
                    Err(p) => buf = vec![("panic", Out::Other(format!("panic: {}", panic_msg(p))))],
                }
                evals += buf.len();
                loads += buf.iter().filter(|x| x.0.ends_with("load_from_str")).count();
                let mut rs: Vec<Out> = vec![];
                for (_, o) in &buf {
                    if !rs.contains(o) {
                        rs.push(o.clone());
                    }
                }
                let rsj: Vec<Value> = rs.iter().map(|o| o.json(text)).collect();
                let apis: Vec<&str> = if rs.len() > 1 { buf.iter().map(|x| x.0).collect() } else { vec![] };
                let key = format!("{}|{}|{}", style != ScalarStyle::Plain, tag.class, Value::Array(rsj.clone()));
                if style != ScalarStyle::Plain && !folded.insert(key) {
                    continue;
                }
                cells.push(json!({"style": sname, "class": CLASSES[tag.class], "tag": tag.name, "n": buf.len(), "rs": rsj, "apis": apis}));
            }
        }
        cells_n += cells.len();
        if samples.len() < 3 && origin == "pow2" && text.starts_with("0x") {
            samples.push(json!({"text": text, "origin": origin, "untagged": cells[0]["rs"][0]}));
        }
        writeln!(w, "{}", json!({"t": chars(text), "s": text, "o": origin, "cells": cells})).unwrap();
    }
    w.flush().unwrap();
    println!("{}", json!({"texts": texts.len(), "evals": evals, "cells": cells_n, "loads": loads, "samples": samples}));
}

/// One cell of a Trace_Schema record for an arbitrary (text, style, tag): the distinct results of the
/// resolution entry points that do not need a document (used by C07 for the scalars of its pool).
pub fn cell_for(text: &str, style: ScalarStyle, sname: &str, tag: Option<Tag>) -> Value {
    let class = match &tag {
        None => 0,
        Some(t) if t.handle == CORE => match t.suffix.as_str() {
            "int" => 1,
            "float" => 2,
            "bool" => 3,
            "null" => 4,
            "str" => 5,
            _ => 6,
        },
        Some(_) => 6,
    };
    let shown = tag.as_ref().map(|t| format!("{}{}", t.handle, t.suffix)).unwrap_or_default();
    let cfg = TagCfg { class, name: "", tag };
    let r = std::panic::catch_unwind(std::panic::AssertUnwindSafe(|| {
        let mut b = vec![];
        resolve_all(text, style, sname, &cfg, false, &mut b);
        b
    }));
    let buf = match r {
        Ok(b) => b,
        Err(p) => vec![("panic", Out::Other(format!("panic: {}", panic_msg(p))))],
    };
    let mut rs: Vec<Out> = vec![];
    for (_, o) in &buf {
        if !rs.contains(o) {
            rs.push(o.clone());
        }
    }
    let rsj: Vec<Value> = rs.iter().map(|o| o.json(text)).collect();
    let apis: Vec<&str> = if rs.len() > 1 { buf.iter().map(|x| x.0).collect() } else { vec![] };
    json!({"style": sname, "class": CLASSES[class], "tag": shown, "n": buf.len(), "rs": rsj, "apis": apis})
}

/// One text from the command line (used by `bin/check C08 --replay` and for debugging).
fn show(a: &Args) {
    let tags = tag_cfgs();
    let text = a.req("text");
    let mut b = vec![];
    for (style, sname) in STYLES {
        for tag in &tags {
            resolve_all(text, style, sname, tag, true, &mut b);
            for (api, o) in &b {
                println!("{sname:8} {:30} {api:52} {}", tag.name, o.show());
            }
        }
    }
}

pub fn dispatch(cmd: &str, a: &Args) -> bool {
    match cmd {
        "c08-replay" => replay(a),
        "c08-record" => record(a),
        "c08-show" => show(a),
        _ => return false,
    }
    true
}
