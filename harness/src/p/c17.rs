//! C17: peek/next call histories and the push interface, recorded for Trace_Api.
use crate::{out_file, read_pool, Args};
use saphyr_parser::{Input, Parser};
use serde_json::{json, Value};
use std::io::Write;
use vh::*;

fn item_ev(e: &Ev) -> Value {
    json!({"kind": "ev", "last": e.k == "StreamEnd", "ev": e.json_s()})
}
fn item_err(e: &ErrRec) -> Value {
    json!({"kind": "err", "err": {"msg": e.msg, "at": e.at}})
}
fn none() -> Value {
    json!({"kind": "none"})
}

/// Execute one history ("p"/"n" per call) on a fresh parser; returns CALL records.
fn exec<I: Input>(mut p: Parser<I>, hist: &[u8], out: &mut Vec<Value>) {
    for &op in hist {
        let (name, ret) = if op == b'p' {
            (
                "peek",
                match p.peek() {
                    None => none(),
                    Some(Ok((ev, sp))) => item_ev(&Ev::from(ev, sp)),
                    Some(Err(e)) => item_err(&ErrRec::from(&e)),
                },
            )
        } else {
            (
                "next",
                match p.next_event() {
                    None => none(),
                    Some(Ok((ev, sp))) => item_ev(&Ev::from(&ev, &sp)),
                    Some(Err(e)) => item_err(&ErrRec::from(&e)),
                },
            )
        };
        out.push(json!({"k": "CALL", "op": name, "ret": ret}));
    }
}

fn histories(m: usize, rng: &mut Rng, thorough: bool) -> Vec<Vec<u8>> {
    let mut hs: Vec<Vec<u8>> = vec![];
    // every history up to a bound for short streams
    let maxl = (m + 2).min(if thorough { 9 } else { 7 });
    if m <= (if thorough { 7 } else { 5 }) {
        for l in 1..=maxl {
            for bits in 0..(1u32 << l) {
                hs.push((0..l).map(|i| if bits >> i & 1 == 1 { b'p' } else { b'n' }).collect());
            }
        }
    }
    // k peeks before every next
    for k in 0..=2 {
        let mut h = vec![];
        for _ in 0..m + 2 {
            for _ in 0..k {
                h.push(b'p');
            }
            h.push(b'n');
        }
        h.extend_from_slice(b"pp");
        hs.push(h);
    }
    // one / two peeks at a single position
    for j in 0..=m {
        for k in 1..=2 {
            let mut h = vec![b'n'; j];
            for _ in 0..k {
                h.push(b'p');
            }
            h.extend(std::iter::repeat(b'n').take(m + 2 - j));
            h.push(b'p');
            hs.push(h);
        }
    }
    for _ in 0..(if thorough { 12 } else { 3 }) {
        let l = m + 3 + rng.below(m + 3);
        hs.push((0..l).map(|_| if rng.chance(2, 5) { b'p' } else { b'n' }).collect());
    }
    hs
}

pub fn run(a: &Args) {
    let pool = read_pool(a.req("pool"));
    let mut w = out_file(a.req("out"));
    let thorough = a.thorough();
    let mut rng = Rng::new(seed_from_env() ^ 0xc17);
    let per_len = a.num("perlen", if thorough { 8 } else { 3 });
    let extra = a.num("extra", if thorough { 3000 } else { 300 });
    // choose texts: for each (number of items m <= 12, ending) up to per_len texts, plus random others
    let mut chosen: Vec<(String, Run)> = vec![];
    let mut count = std::collections::HashMap::<(usize, bool), usize>::new();
    let mut others: Vec<usize> = vec![];
    let mut multidocs = 0usize;
    for (idx, (_o, t)) in pool.iter().enumerate() {
        let r = run_str(t);
        if r.panic.is_some() {
            continue;
        }
        let m = r.evs.len() + r.err.is_some() as usize;
        if _o == "multidoc" && idx % 4 == 0 && multidocs < (if thorough { 2000 } else { 400 }) {
            multidocs += 1;
            chosen.push((t.clone(), r));
            continue;
        }
        if m <= 12 {
            let c = count.entry((m, r.err.is_some())).or_insert(0);
            if *c < per_len {
                *c += 1;
                chosen.push((t.clone(), r));
                continue;
            }
        }
        others.push(idx);
    }
    for _ in 0..extra.min(others.len()) {
        let i = others[rng.below(others.len())];
        let r = run_str(&pool[i].1);
        if r.panic.is_none() && r.evs.len() <= 200 {
            chosen.push((pool[i].1.clone(), r));
        }
    }
    // nesting right at the limits of the pull state machine and of the scanner's flow level (both interfaces must
    // stop, or not stop, at the same place)
    let first_deep = chosen.len();
    for shape in ["seq", "qkey", "seqmap", "mixflow", "map"] {
        for d in [255usize, 256, 999, 1000, 1001] {
            let t = super::c11::shape_text(shape, d);
            let r = run_str(&t);
            if r.panic.is_none() {
                chosen.push((t, r));
            }
        }
    }
    let (mut calls, mut hists, mut pushes) = (0usize, 0usize, 0usize);
    let mut samples: Vec<Value> = vec![];
    for (ti, (t, base)) in chosen.iter().enumerate() {
        let mut items: Vec<Value> = base.evs.iter().map(item_ev).collect();
        if let Some(e) = &base.err {
            items.push(item_err(e));
        }
        let m = items.len();
        writeln!(w, "{}", json!({"k": "TEXT", "t": t, "base": items})).unwrap();
        // (the deep family: one plain history; its subject is the push interface)
        let hs = if ti >= first_deep { histories(m, &mut rng, false).into_iter().take(1).collect() } else if m <= 12 { histories(m, &mut rng, thorough) } else { histories(m, &mut rng, false).into_iter().rev().take(6).collect() };
        for (hi, h) in hs.iter().enumerate() {
            let mut recs = vec![];
            let r = std::panic::catch_unwind(std::panic::AssertUnwindSafe(|| {
                let mut recs = vec![];
                if hi % 2 == 0 {
                    exec(Parser::new_from_str(t), h, &mut recs);
                } else {
                    exec(Parser::new_from_iter(t.chars()), h, &mut recs);
                }
                recs
            }));
            match r {
                Ok(x) => recs = x,
                Err(p) => recs.push(json!({"k": "CALL", "op": "next", "ret": {"kind": "panic", "msg": panic_msg(p)}})),
            }
            writeln!(w, "{}", json!({"k": "NEW", "h": String::from_utf8_lossy(h)})).unwrap();
            calls += recs.len();
            hists += 1;
            if samples.len() < 4 && m > 4 && hi == 3 {
                samples.push(json!({"text": t, "history": String::from_utf8_lossy(h), "items": m}));
            }
            for r in recs {
                writeln!(w, "{r}").unwrap();
            }
        }
        // push interface, both back-ends
        for be in [Backend::Str, Backend::Buf] {
            let r = run_parser(t, be, Api::PushMulti);
            if r.panic.is_none() {
                writeln!(w, "{}", json!({"k": "PUSH", "be": be.name(), "evs": r.evs.iter().map(|e| e.json_s()).collect::<Vec<_>>(),
                    "err": r.err.iter().map(|e| json!({"msg": e.msg, "at": e.at})).collect::<Vec<_>>()})).unwrap();
                pushes += 1;
            }
            // repeated load(false), keeping the per-call deliveries
            let r = std::panic::catch_unwind(std::panic::AssertUnwindSafe(|| {
                let mut calls: Vec<Vec<Value>> = vec![];
                let mut err = vec![];
                macro_rules! go {
                    ($p:expr) => {{
                        let mut p = $p;
                        loop {
                            let mut c = Collect { evs: vec![] };
                            let r = p.load(&mut c, false);
                            let ended = c.evs.last().map(|e| e.k) == Some("StreamEnd");
                            let empty = c.evs.is_empty();
                            calls.push(c.evs.iter().map(|e| e.json_s()).collect());
                            if let Err(e) = r {
                                err.push(json!({"msg": e.info(), "at": m3(e.marker())}));
                                break;
                            }
                            if ended || empty || calls.len() > 300 {
                                break;
                            }
                        }
                    }};
                }
                if be == Backend::Str {
                    go!(Parser::new_from_str(t));
                } else {
                    go!(Parser::new_from_iter(t.chars()));
                }
                (calls, err)
            }));
            if let Ok((calls, err)) = r {
                writeln!(w, "{}", json!({"k": "PUSH1", "be": be.name(), "calls": calls, "err": err})).unwrap();
                pushes += 1;
            }
        }
    }
    w.flush().unwrap();
    println!("{}", json!({"texts": chosen.len(), "histories": hists, "calls": calls, "pushes": pushes, "samples": samples}));
}
